#!/bin/bash
# Runs the repository's pinned test suite (guard OFF) and compares with BASELINE.json's stable_pass list.
out=${1:-/tmp/baseline_junit.xml}
cd /repo && env -u DESY_ML_CHEETAH_VERIF /venv/bin/python -m pytest -ra -q -p no:cacheprovider --timeout=900 --continue-on-collection-errors --junitxml=$out > /tmp/baseline_pytest.log 2>&1
/venv/bin/python - "$out" <<'PY'
import json, sys, xml.etree.ElementTree as ET
base = set(json.load(open('/root/.vp/BASELINE.json'))['stable_pass'])
passed = set()
for tc in ET.parse(sys.argv[1]).getroot().iter('testcase'):
    if not any(c.tag in ('failure', 'error', 'skipped') for c in tc):
        passed.add(f"{tc.get('classname')}::{tc.get('name')}")
missing = sorted(base - passed)
print(f"baseline {len(base)} passed-now {len(passed & base)} missing {len(missing)}")
for m in missing: print("  MISSING", m)
sys.exit(1 if missing else 0)
PY
