#!/usr/bin/env python3
"""Development helper: run ./check <prop> --no-lean for several seeds, list the distinct unlisted failure signatures and
(with --add "<disposition>") record them in known_findings.json together with their replay inputs.
Never used by the registered checks (known_findings.json is read-only at run time)."""
import json, subprocess, sys, glob, os, shutil
from pathlib import Path
V = Path(__file__).resolve().parent.parent

def main():
    prop = sys.argv[1]
    seeds = [int(s) for s in sys.argv[2].split(",")]
    add = "--add" in sys.argv
    disp = sys.argv[sys.argv.index("--add") + 1] if add else ""
    lean = "--lean" in sys.argv
    shutil.rmtree(V / "replays" / prop, ignore_errors=True)
    sigs = {}
    for s in seeds:
        env = dict(os.environ, VERIF_SEED=str(s))
        p = subprocess.run(["./check", prop] + ([] if lean else ["--no-lean"]), cwd=V, env=env, capture_output=True, text=True)
        last = p.stdout.strip().splitlines()[-1] if p.stdout.strip() else p.stderr[-300:]
        print(f"seed {s}: rc={p.returncode} {last}")
        for f in glob.glob(str(V / "replays" / prop / "*.json")):
            d = json.load(open(f))
            sigs.setdefault(d["signature"], (d, set()))[1].add(s)
    for k, (d, ss) in sorted(sigs.items()):
        print(f"  [{len(ss)}/{len(seeds)}] {d['source']:14s} {k}\n        {d['what'][:230]}")
    if add and sigs:
        kf = json.load(open(V / "known_findings.json"))
        have = {(f["property"], f["signature"]) for f in kf["findings"]}
        n = 0
        for k, (d, ss) in sorted(sigs.items()):
            if d["source"] in ("correspondence", "proof", "table"):
                print("  NOT ADDED (model/proof break, not a defect of the code):", k)
                continue
            if (prop, k) in have:
                continue
            kf["findings"].append({"property": prop, "signature": k, "what": d["what"][:400], "disposition": disp,
                                   "replay": d["replay"]})
            n += 1
        json.dump(kf, open(V / "known_findings.json", "w"), indent=1)
        print(f"added {n} findings")

main()
