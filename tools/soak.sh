#!/bin/bash
# soak: every registered quick check on many seeds on the unchanged tree; prints only runs that are not clean
./setup.sh > /dev/null 2>&1
for s in $(seq ${1:-20} ${2:-40}); do
  for p in C01 C02 C03 C04 C05 C06 C07 C08 C09 C10 C11 C12 C13 C14 C15 C16 C17 C18 C19 C20; do
    out=$(VERIF_SEED=$s timeout 1800 ./check $p 2>&1 | grep -v KNOWN-FINDING | tail -3)
    if ! echo "$out" | tail -1 | grep -q " 0 violation(s)"; then echo "== seed $s $p"; echo "$out"; for f in replays/$p/*.json; do python3 -c "import json,sys; d=json.load(open('$f')); print('   ',d['source'],d['signature'],'|',d['what'][:200])"; done; fi
    rm -rf replays/$p
  done
  echo "seed $s done"
done
