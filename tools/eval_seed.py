#!/usr/bin/env python3
"""Development helper: apply a seeded change to /repo, run the registered quick check(s), undo it, and store the change
under /verif/seeded/<id>/ (patch.diff, demo.py, meta.json). usage: tools/eval_seed.py <Cxx> <n> [other props...]"""
import json, subprocess, sys, shutil, os
from pathlib import Path
V = Path(__file__).resolve().parent.parent

def sh(cmd, **kw):
    return subprocess.run(cmd, capture_output=True, text=True, **kw)

def main():
    prop, n = sys.argv[1], sys.argv[2]
    others = sys.argv[3:]
    base = os.environ.get("SEED_DIR", "/tmp/seed")       # round 2: SEED_DIR=/tmp/seed2 SEED_OFFSET=2 (ids Cxx_3, Cxx_4)
    off = int(os.environ.get("SEED_OFFSET", "0"))
    wt = Path(f"{base}/{prop}")
    patch = wt / f"patch_{n}.diff"
    conf = json.loads((wt / f"confirm_{n}.json").read_text()) if (wt / f"confirm_{n}.json").exists() else {}
    st = sh(["git", "-C", "/repo", "status", "--porcelain"]).stdout.strip()
    assert st == "", "repo not clean: " + st
    ap = sh(["git", "-C", "/repo", "apply", str(patch)])
    results = {}
    if ap.returncode != 0:
        ap = sh(["git", "-C", "/repo", "apply", "-3", str(patch)])
    applied = ap.returncode == 0
    try:
        if applied:
            for p in [prop] + others:
                env = dict(os.environ, VERIF_SEED="1")
                r = sh(["./check", p, "--tier", "quick"], cwd=V, env=env)
                lines = [l for l in r.stdout.splitlines() if l.startswith(("VIOLATION", "KNOWN-FINDING", p))]
                viol = [l for l in lines if l.startswith("VIOLATION")]
                details = []
                for l in viol[:4]:
                    rp = l.split("replay=")[1].split()[0]
                    try:
                        d = json.load(open(V / rp))
                        details.append({"source": d["source"], "signature": d["signature"], "what": d["what"][:300]})
                    except Exception:
                        pass
                results[p] = {"rc": r.returncode, "violations": len(viol), "first": details, "summary": lines[-1] if lines else r.stderr[-300:]}
    finally:
        sh(["git", "-C", "/repo", "checkout", "--", "."])
        sh(["git", "-C", "/repo", "reset", "-q"])
        sh(["git", "-C", "/repo", "checkout", "--", "."])
        # the evidence written while the patch was applied describes the patched tree: restore the committed files
        sh(["git", "-C", str(V), "checkout", "--", "evidence"])
    sid = f"{prop}_{int(n) + off}"
    out = V / "seeded" / sid
    out.mkdir(parents=True, exist_ok=True)
    shutil.copy(patch, out / "patch.diff")
    shutil.copy(wt / f"demo_{n}.py", out / "demo.py")
    meta = {"id": sid, "property": prop, "origin": "independent sub-agent given only the property text and a scratch worktree",
            "confirmed_in_scratch_worktree": conf, "applies_to_repo_head": applied, "checks": results,
            "caught_by": [p for p, r in results.items() if r["rc"] == 1]}
    mp = out / "meta.json"
    if mp.exists():
        old = json.loads(mp.read_text())
        for k in ("needs", "notes", "change", "first_evaluation", "strengthening", "first_checks"):
            if k in old:
                meta[k] = old[k]
    meta.setdefault("first_checks", {p: {"rc": r["rc"], "violations": r["violations"]} for p, r in results.items()})
    mp.write_text(json.dumps(meta, indent=1))
    print(sid, "applied" if applied else "DID NOT APPLY", {p: (r["rc"], r["violations"]) for p, r in results.items()})
    for p, r in results.items():
        for d in r["first"][:2]:
            print("    ", p, d["source"], d["signature"], "|", d["what"][:150])

main()
