print("ok")
