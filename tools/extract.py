#!/venv/bin/python
"""B2 translator: regenerates lean/CheetahModel/Generated/*.lean from /repo's current source on every run.

Everything about the code that is *structure rather than arithmetic* is extracted here as plain data:
  Features.lean        per Element class: constructor parameters (inspect.signature on the live class),
                       `defining_features` (live instance), keywords forwarded by `split` (AST)
  Predicates.lean      normal form (ast.unparse) of is_skippable / is_active per class, tracking dispatch
  DtypeSites.lean      every tensor-creation call in cheetah/ that allocates with the default dtype or casts a
                       default-dtype temporary on entry (syntactic rules below), keyed by file::function::call
  ConverterTables.lean the Elegant / Bmad element-type dispatch: type -> class, keyword -> expression
The theorems over these tables (Properties/C12, C13, C14, C15, C16, C01, C08) are re-proved by `decide` in the same run.
Files are only rewritten when their content changes (keeps `lake build` a no-op on an unchanged tree).
A JSON copy is written to .work/generated.json for the Python side.
"""
from __future__ import annotations

import ast
import inspect
import json
import os
import sys
import warnings
from pathlib import Path

warnings.filterwarnings("ignore")
VERIF = Path(__file__).resolve().parent.parent
REPO = Path(os.environ.get("VERIF_REPO", "/repo"))
GEN = VERIF / "lean" / "CheetahModel" / "Generated"
sys.path.insert(0, str(REPO))


def lean_str(s: str) -> str:
    return '"' + s.replace("\\", "\\\\").replace('"', '\\"').replace("\n", "\\n") + '"'


def lean_list(xs) -> str:
    return "[" + ", ".join(lean_str(x) for x in xs) + "]"


def write_if_changed(path: Path, text: str) -> bool:
    if path.exists() and path.read_text() == text:
        return False
    path.parent.mkdir(parents=True, exist_ok=True)
    path.write_text(text)
    return True


# ---------------------------------------------------------------------------------------------
# 1. features / constructor parameters (live) + split forwarding (AST)
# ---------------------------------------------------------------------------------------------
def all_element_classes():
    import cheetah
    from cheetah.accelerator import Element

    seen, out = set(), []

    def walk(c):
        for s in c.__subclasses__():
            if s.__module__.startswith("cheetah.") and s not in seen:
                seen.add(s)
                out.append(s)
                walk(s)
    walk(Element)
    return sorted(out, key=lambda c: c.__name__)


def construct_default(cls):
    import torch
    name = cls.__name__
    if name == "Segment":
        return cls(elements=[])
    if name == "CustomTransferMap":
        return cls(predefined_transfer_map=torch.eye(7))
    if name == "SpaceChargeKick":
        return cls(effect_length=torch.tensor(1.0))
    params = inspect.signature(cls.__init__).parameters
    kw = {}
    if "length" in params:
        kw["length"] = torch.tensor(1.0)
    return cls(**kw)


def class_ast(cls):
    src = Path(inspect.getsourcefile(cls)).read_text()
    tree = ast.parse(src)
    for node in ast.walk(tree):
        if isinstance(node, ast.ClassDef) and node.name == cls.__name__:
            return node
    return None


def method_ast(cnode, name):
    if cnode is None:
        return None
    for n in cnode.body:
        if isinstance(n, ast.FunctionDef) and n.name == name:
            return n
    return None


def split_forwarding(cls):
    """keywords (and positional slots) the class's `split` passes to the constructor of the pieces; None if unsplit"""
    m = method_ast(class_ast(cls), "split")
    if m is None:
        return None
    for node in ast.walk(m):
        if isinstance(node, ast.Call) and isinstance(node.func, ast.Name) and node.func.id == cls.__name__:
            params = [p for p in inspect.signature(cls.__init__).parameters if p != "self"]
            fw = [params[i] for i in range(len(node.args))] + [k.arg for k in node.keywords if k.arg]
            return fw
    return []      # returns [self] (or the like): unsplittable


def extract_features():
    rows = []
    for cls in all_element_classes():
        sig = [p for p in inspect.signature(cls.__init__).parameters if p != "self"]
        try:
            feats = list(construct_default(cls).defining_features)
            err = ""
        except Exception as ex:  # pragma: no cover
            feats, err = [], f"{type(ex).__name__}: {ex}"
        fw = split_forwarding(cls)
        rows.append({"name": cls.__name__, "ctor": sig, "features": feats, "split": fw, "error": err,
                     "bases": [b.__name__ for b in cls.__mro__[1:] if b.__module__.startswith("cheetah.")]})
    return rows


# ---------------------------------------------------------------------------------------------
# 2. predicates
# ---------------------------------------------------------------------------------------------
def norm_return(fn) -> str:
    """normal form of a property body: the unparsed return expression(s), `;`-joined"""
    if fn is None:
        return "<inherited>"
    rets = [ast.unparse(n.value) for n in ast.walk(fn) if isinstance(n, ast.Return) and n.value is not None]
    deco = [ast.unparse(d) for d in fn.decorator_list]
    form = "; ".join(rets)
    if "property" not in deco:
        form = "<not-a-property> " + form
    return form


def extract_predicates():
    rows = []
    for cls in all_element_classes():
        cn = class_ast(cls)
        track = method_ast(cn, "track")
        dispatch = []
        if track is not None:
            for n in ast.walk(track):
                if isinstance(n, ast.Compare) and isinstance(n.left, ast.Attribute) and n.left.attr == "tracking_method":
                    dispatch.append(ast.unparse(n))
        has_active = hasattr(construct_default(cls), "is_active") if cls.__name__ != "Element" else False
        rows.append({"name": cls.__name__, "is_skippable": norm_return(method_ast(cn, "is_skippable")),
                     "is_active": norm_return(method_ast(cn, "is_active")) if method_ast(cn, "is_active") else
                     ("<attribute>" if has_active else "<absent>"),
                     "overrides_track": track is not None, "dispatch": dispatch})
    return rows


# ---------------------------------------------------------------------------------------------
# 3. dtype sites
# ---------------------------------------------------------------------------------------------
CREATORS = {"tensor", "zeros", "ones", "eye", "full", "empty", "rand", "randn", "linspace", "arange", "as_tensor",
            "logspace", "tril", "triu"}
LIKE = {"zeros_like", "ones_like", "full_like", "empty_like", "rand_like", "randn_like", "clone", "broadcast_to"}
OUT_OF_SCOPE_FILES = ("converters/ocelot.py", "converters/astra.py", "utils/device.py")
OUT_OF_SCOPE_FUNCS = ("plot", "plot_overview", "plot_twiss", "plot_reference_particle_traces", "plot_twiss_over_lattice",
                      "__repr__")


def classify_site(call: ast.Call, parents: list) -> str:
    kws = {k.arg for k in call.keywords if k.arg}
    has_star = any(k.arg is None for k in call.keywords)
    if "dtype" in kws or has_star:
        return "Requested"
    # integer / boolean literal payload
    if call.args and isinstance(call.args[0], ast.Constant) and isinstance(call.args[0].value, (bool, int)) \
            and not isinstance(call.args[0].value, float) and call.func.attr == "tensor":
        return "Integer"
    # handed straight to something that casts: X(..., dtype=...) / torch.as_tensor(..., dtype) / .to(**factory_kwargs)
    for p in reversed(parents):
        if isinstance(p, ast.Call) and p is not call:
            pk = {k.arg for k in p.keywords if k.arg}
            if "dtype" in pk or any(k.arg is None for k in p.keywords):
                return "CastOnEntry"
        if isinstance(p, (ast.FunctionDef, ast.Lambda)):
            break
    return "Default"


def extract_dtype_sites():
    sites = []
    for f in sorted((REPO / "cheetah").rglob("*.py")):
        rel = str(f.relative_to(REPO / "cheetah"))
        tree = ast.parse(f.read_text())

        def visit(node, parents, func):
            if isinstance(node, (ast.FunctionDef, ast.AsyncFunctionDef)):
                func = node.name
            if isinstance(node, ast.ClassDef):
                func = node.name + "."
            if isinstance(node, ast.Call) and isinstance(node.func, ast.Attribute) and \
                    isinstance(node.func.value, ast.Name) and node.func.value.id == "torch" and node.func.attr in CREATORS:
                if rel in OUT_OF_SCOPE_FILES or (func or "").split(".")[-1] in OUT_OF_SCOPE_FUNCS:
                    kind = "OutOfScope"
                else:
                    kind = classify_site(node, parents)
                sites.append({"file": rel, "func": func or "<module>", "call": ast.unparse(node)[:160], "kind": kind,
                              "key": f"{rel}::{func or '<module>'}::{ast.unparse(node)[:120]}"})
            for ch in ast.iter_child_nodes(node):
                visit(ch, parents + [node], func)
        visit(tree, [], None)
    return sites


# ---------------------------------------------------------------------------------------------
# 4. converter dispatch tables
# ---------------------------------------------------------------------------------------------
def extract_converter(modname: str):
    """walk the `if/elif parsed["element_type"] == ...` chain of convert_element"""
    src = (REPO / "cheetah" / "converters" / f"{modname}.py").read_text()
    tree = ast.parse(src)
    rows = []
    for fn in ast.walk(tree):
        if isinstance(fn, ast.FunctionDef) and fn.name == "convert_element":
            for node in ast.walk(fn):
                if isinstance(node, ast.If):
                    types = element_types_of_test(node.test)
                    if not types:
                        continue
                    understood, built = [], []
                    for sub in node.body:
                        for n in ast.walk(sub):
                            if isinstance(n, ast.Call) and isinstance(n.func, ast.Name) and \
                                    n.func.id == "validate_understood_properties" and n.args:
                                try:
                                    understood = sorted(ast.literal_eval(n.args[0]))
                                except Exception:
                                    understood = [ast.unparse(n.args[0])]
                            if isinstance(n, ast.Call) and isinstance(n.func, ast.Attribute) and \
                                    isinstance(n.func.value, ast.Name) and n.func.value.id == "cheetah":
                                built.append((n.func.attr, sorted(f"{k.arg}={ast.unparse(k.value)}" for k in n.keywords
                                                                  if k.arg not in ("device", "dtype"))))
                        # stop at nested elif chains: only direct body
                    rows.append({"types": types, "understood": understood,
                                 "builds": [{"cls": c, "args": a} for c, a in built]})
    # de-duplicate (ast.walk visits nested Ifs of the elif chain once each)
    seen, out = set(), []
    for r in rows:
        key = json.dumps(r, sort_keys=True)
        if key not in seen:
            seen.add(key)
            out.append(r)
    return out


def extract_cont_passes(modname: str):
    """the calls `x = merge_delimiter_continued_lines(y, delimiter=…, remove_delimiter=…)` of a converter, in source
    order: (assigned name, first argument, delimiter, remove flag)"""
    src = (REPO / "cheetah" / "converters" / f"{modname}.py").read_text()
    rows = []
    for node in ast.walk(ast.parse(src)):
        if isinstance(node, ast.Assign) and isinstance(node.value, ast.Call) and \
                isinstance(node.value.func, ast.Name) and node.value.func.id == "merge_delimiter_continued_lines":
            c = node.value
            kw = {k.arg: k.value for k in c.keywords}
            args = list(c.args)
            first = ast.unparse(args[0]) if args else ast.unparse(kw.get("lines", ast.Constant(None)))
            d = kw.get("delimiter", args[1] if len(args) > 1 else None)
            rm = kw.get("remove_delimiter", args[2] if len(args) > 2 else ast.Constant(False))
            rows.append((node.lineno, [ast.unparse(node.targets[0]), first,
                                       d.value if isinstance(d, ast.Constant) else ast.unparse(d),
                                       rm.value if isinstance(rm, ast.Constant) else ast.unparse(rm)]))
    return [r for _, r in sorted(rows)]


def element_types_of_test(test) -> list:
    """parsed['element_type'] == 'x'  /  in [..]"""
    def is_et(n):
        return isinstance(n, ast.Subscript) and isinstance(n.slice, ast.Constant) and n.slice.value == "element_type"
    if isinstance(test, ast.Compare) and is_et(test.left) and len(test.comparators) == 1:
        c = test.comparators[0]
        try:
            v = ast.literal_eval(c)
        except Exception:
            return []
        return sorted(v) if isinstance(v, (list, tuple, set)) else [v]
    return []


# ---------------------------------------------------------------------------------------------
def main() -> int:
    feats = extract_features()
    preds = extract_predicates()
    sites = extract_dtype_sites()
    conv = {m: extract_converter(m) for m in ("elegant", "bmad")}

    # ---- Features.lean
    L = ["/-! GENERATED by tools/extract.py from /repo — do not edit -/", "namespace Gen", "",
         "structure ClassInfo where", "  name : String", "  ctor : List String", "  features : List String",
         "  splitForwards : Option (List String)", "  bases : List String", "deriving Repr, DecidableEq", "",
         "def classes : List ClassInfo := ["]
    rows = []
    for r in feats:
        sp = "none" if r["split"] is None else f"some {lean_list(r['split'])}"
        rows.append(f"  ⟨{lean_str(r['name'])}, {lean_list(r['ctor'])}, {lean_list(r['features'])}, {sp}, {lean_list(r['bases'])}⟩")
    L.append(",\n".join(rows))
    L += ["]", "", "end Gen", ""]
    ch1 = write_if_changed(GEN / "Features.lean", "\n".join(L))

    # ---- Predicates.lean
    L = ["/-! GENERATED by tools/extract.py from /repo — do not edit -/", "namespace Gen", "",
         "structure PredInfo where", "  name : String", "  isSkippable : String", "  isActive : String",
         "  overridesTrack : Bool", "  dispatch : List String", "deriving Repr, DecidableEq", "",
         "def predicates : List PredInfo := ["]
    L.append(",\n".join(f"  ⟨{lean_str(r['name'])}, {lean_str(r['is_skippable'])}, {lean_str(r['is_active'])}, "
                        f"{'true' if r['overrides_track'] else 'false'}, {lean_list(r['dispatch'])}⟩" for r in preds))
    L += ["]", "", "end Gen", ""]
    ch2 = write_if_changed(GEN / "Predicates.lean", "\n".join(L))

    # ---- DtypeSites.lean (only the suspicious ones are listed individually; counts for the rest)
    susp = sorted({s["key"] for s in sites if s["kind"] in ("Default", "CastOnEntry")})
    counts = {}
    for s in sites:
        counts[s["kind"]] = counts.get(s["kind"], 0) + 1
    L = ["/-! GENERATED by tools/extract.py from /repo — do not edit -/", "namespace Gen", "",
         "/-- tensor-creation sites that allocate with the default dtype (`Default`) or cast a default-dtype temporary",
         "on entry (`CastOnEntry`), keyed `file::function::call` -/",
         "def suspiciousDtypeSites : List String := ["]
    L.append(",\n".join("  " + lean_str(k) for k in susp))
    L += ["]", "", f"def dtypeSiteCounts : List (String × Nat) := [" +
          ", ".join(f"({lean_str(k)}, {v})" for k, v in sorted(counts.items())) + "]", "", "end Gen", ""]
    ch3 = write_if_changed(GEN / "DtypeSites.lean", "\n".join(L))

    # ---- ConverterTables.lean
    L = ["/-! GENERATED by tools/extract.py from /repo — do not edit -/", "namespace Gen", "",
         "structure ConvRow where", "  dialect : String", "  types : List String", "  understood : List String",
         "  builds : List (String × List String)", "deriving Repr, DecidableEq", "", "def converterTable : List ConvRow := ["]
    rows = []
    for d, rs in conv.items():
        for r in rs:
            b = "[" + ", ".join(f"({lean_str(x['cls'])}, {lean_list(x['args'])})" for x in r["builds"]) + "]"
            rows.append(f"  ⟨{lean_str(d)}, {lean_list(r['types'])}, {lean_list(r['understood'])}, {b}⟩")
    L.append(",\n".join(rows))
    L += ["]", "", "/-- the continuation-merging passes of each converter, in source order:",
          "(dialect, [(assigned name, first argument, mark, remove flag)]) -/",
          "def contPassesSrc : List (String × List (String × String × String × Bool)) := ["]
    L.append(",\n".join(
        f"  ({lean_str(d)}, [" + ", ".join(
            f"({lean_str(t)}, {lean_str(a)}, {lean_str(str(m))}, {'true' if rm is True else 'false'})" for t, a, m, rm in extract_cont_passes(d))
        + "])" for d in conv))
    L += ["]", "", "end Gen", ""]
    ch4 = write_if_changed(GEN / "ConverterTables.lean", "\n".join(L))

    # ---- Pinned.lean: the reviewed baseline tables (tools/spec/pinned.json, committed; written only with --pin)
    spec = VERIF / "tools" / "spec" / "pinned.json"
    cur = {"predicates": preds, "converters": conv, "suspicious_dtype_sites": susp,
           "split": {r["name"]: r["split"] for r in feats}}
    if "--pin" in sys.argv:
        spec.parent.mkdir(parents=True, exist_ok=True)
        spec.write_text(json.dumps(cur, indent=1))
    if not spec.exists():
        print("extract: tools/spec/pinned.json missing (run tools/extract.py --pin on a reviewed tree)")
        return 1
    pin = json.loads(spec.read_text())
    L = ["import CheetahModel.Generated.Predicates", "import CheetahModel.Generated.ConverterTables",
         "/-! GENERATED by tools/extract.py from tools/spec/pinned.json (the reviewed baseline tables) — do not edit -/",
         "namespace Gen", "",
         "def pinnedPredicates : List PredInfo := ["]
    L.append(",\n".join(f"  ⟨{lean_str(r['name'])}, {lean_str(r['is_skippable'])}, {lean_str(r['is_active'])}, "
                        f"{'true' if r['overrides_track'] else 'false'}, {lean_list(r['dispatch'])}⟩" for r in pin["predicates"]))
    L += ["]", "", "def pinnedConverterTable : List ConvRow := ["]
    rows = []
    for d, rs in pin["converters"].items():
        for r in rs:
            b = "[" + ", ".join(f"({lean_str(x['cls'])}, {lean_list(x['args'])})" for x in r["builds"]) + "]"
            rows.append(f"  ⟨{lean_str(d)}, {lean_list(r['types'])}, {lean_list(r['understood'])}, {b}⟩")
    L.append(",\n".join(rows))
    L += ["]", "", "def pinnedDtypeSites : List String := ["]
    L.append(",\n".join("  " + lean_str(k) for k in pin["suspicious_dtype_sites"]))
    L += ["]", "", "end Gen", ""]
    ch5 = write_if_changed(GEN / "Pinned.lean", "\n".join(L))

    (VERIF / ".work").mkdir(exist_ok=True)
    (VERIF / ".work" / "generated.json").write_text(json.dumps(
        {"features": feats, "predicates": preds, "dtype_sites": sites, "converters": conv}, indent=1))
    print(f"extract: {len(feats)} classes, {len(sites)} tensor-creation sites ({counts}), "
          f"{sum(len(v) for v in conv.values())} converter rows; changed: "
          f"{[n for n, c in zip(['Features', 'Predicates', 'DtypeSites', 'ConverterTables', 'Pinned'], [ch1, ch2, ch3, ch4, ch5]) if c]}")
    return 0


if __name__ == "__main__":
    sys.exit(main())
