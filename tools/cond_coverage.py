#!/venv/bin/python
"""Development tool: condition coverage of the *real* code under the quick harness runs.

Runs `props.Cxx.run` (no Lean, no classification) for the given properties under a TorchDispatchMode and records, for
every comparison / selection op issued from a line of cheetah/ (lt, le, gt, ge, eq, ne, where, isinf, isnan, any, all,
logical_*), whether both outcomes (some True element, some False element) were ever observed at that site.  Sites that
only ever saw one outcome are generator gaps: a branch or mask of the code (and of the Lean model that mirrors it) that no
correspondence / falsifier case reaches.  Also records plain Python line coverage of cheetah/ (sys.settrace is too slow;
uses sys.monitoring).  usage: tools/cond_coverage.py [C01 C02 ...]  -> .work/cond_coverage.json + summary on stdout"""
from __future__ import annotations

import importlib
import json
import os
import sys
import time
from pathlib import Path

V = Path(__file__).resolve().parent.parent
sys.path[:0] = [str(V / "harness"), str(V)]
import numpy as np   # noqa: E402
import torch   # noqa: E402
from torch.utils._python_dispatch import TorchDispatchMode   # noqa: E402

import cheetah   # noqa: E402
from common import Report   # noqa: E402

CH = str(Path(cheetah.__file__).resolve().parent) + os.sep
BOOL_OPS = ("lt", "le", "gt", "ge", "eq", "ne", "isinf", "isnan", "isfinite", "logical_and", "logical_or", "logical_not",
            "any", "all", "where", "bitwise_and", "bitwise_or", "bitwise_not")


class CondMode(TorchDispatchMode):
    def __init__(self):
        super().__init__()
        self.sites: dict = {}

    @staticmethod
    def _site():
        """the innermost frame outside torch; a site only if that frame is cheetah code (ops issued by harness code
        while a cheetah frame is further up the stack are not cheetah's)"""
        f = sys._getframe(2)
        while f is not None:
            fn = f.f_code.co_filename
            if fn.startswith(CH):
                return f"{fn[len(CH):]}:{f.f_lineno}"
            if "/torch/" not in fn and not fn.endswith("cond_coverage.py"):
                return None
            f = f.f_back
        return None

    def __torch_dispatch__(self, func, types, args=(), kwargs=None):
        out = func(*args, **(kwargs or {}))
        name = getattr(getattr(func, "overloadpacket", func), "__name__", str(func))
        if name in BOOL_OPS:
            t = None
            if name == "where" and args and isinstance(args[0], torch.Tensor):
                t = args[0]
            elif isinstance(out, torch.Tensor) and out.dtype == torch.bool:
                t = out
            if t is not None and t.dtype == torch.bool and t.numel() > 0:
                site = self._site()
                if site is not None:
                    key = f"{site}:{name}"
                    s = self.sites.setdefault(key, [False, False, 0])
                    with torch.utils._python_dispatch._disable_current_modes():
                        if bool(t.any()):
                            s[0] = True
                        if not bool(t.all()):
                            s[1] = True
                    s[2] += 1
        return out


class Ctx:
    def __init__(self, prop, seed):
        self.prop, self.tier, self.seed = prop, "quick", seed
        self.rng = np.random.default_rng([seed, int(prop[1:])])
        self.escalate = False
        self.report = Report(prop)
        self.t0 = time.time()
        self.table_diff = None

    def n(self, quick, thorough):
        return quick


def main():
    props = sys.argv[1:] or [f"C{i:02d}" for i in range(1, 21)]
    mode = CondMode()
    lines: set = set()
    mon = sys.monitoring
    TOOL = mon.COVERAGE_ID
    mon.use_tool_id(TOOL, "condcov")

    def on_line(code, line):
        if code.co_filename.startswith(CH):
            lines.add((code.co_filename[len(CH):], line))
        return mon.DISABLE
    mon.register_callback(TOOL, mon.events.LINE, on_line)
    mon.set_events(TOOL, mon.events.LINE)
    for p in props:
        t0 = time.time()
        mod = importlib.import_module(f"props.{p}")
        ctx = Ctx(p, int(os.environ.get("VERIF_SEED", "1")))
        try:
            with mode:
                mod.run(ctx)
        except Exception as ex:  # noqa: BLE001
            print(p, "raised", type(ex).__name__, ex)
        print(f"{p}: {time.time() - t0:.0f}s, {len(mode.sites)} sites so far", flush=True)
    mon.set_events(TOOL, 0)
    one_sided = {k: v for k, v in sorted(mode.sites.items()) if not (v[0] and v[1])}
    # executable lines never run
    import ast
    never = {}
    for f in sorted(Path(CH).rglob("*.py")):
        rel = str(f)[len(CH):]
        tree = ast.parse(f.read_text())
        stmts = {n.lineno for n in ast.walk(tree) if isinstance(n, ast.stmt) and not isinstance(n, (ast.FunctionDef, ast.ClassDef, ast.Import, ast.ImportFrom))}
        # docstrings are Expr statements of constants: drop
        for n in ast.walk(tree):
            if isinstance(n, ast.Expr) and isinstance(n.value, ast.Constant) and isinstance(n.value.value, str):
                stmts.discard(n.lineno)
        miss = sorted(s for s in stmts if (rel, s) not in lines)
        if miss and any((rel, s) in lines for s in stmts):
            never[rel] = miss
    out = {"properties": props, "sites": len(mode.sites), "one_sided": {k: {"saw_true": v[0], "saw_false": v[1], "count": v[2]} for k, v in one_sided.items()},
           "lines_never_run": never}
    (V / ".work").mkdir(exist_ok=True)
    (V / ".work" / "cond_coverage.json").write_text(json.dumps(out, indent=1))
    print(f"{len(mode.sites)} comparison sites, {len(one_sided)} saw only one outcome:")
    for k, v in one_sided.items():
        print(f"   {k:70s} only {'True' if v[0] else 'False'}   ({v[2]} evaluations)")
    print("lines never run (files that were touched):")
    for f, ls in never.items():
        print(f"   {f}: {ls[:40]}{' ...' if len(ls) > 40 else ''}")


main()
