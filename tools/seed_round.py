#!/usr/bin/env python3
"""Development helper: prepare a round of seeded-change sub-agents.  usage: tools/seed_round.py <dir> (e.g. /tmp/seed4)
Creates one detached scratch worktree of /repo per property under <dir>, a test runner <dir>/run_tests.sh and a prompt
file <dir>/prompt_<Cxx>.txt holding ONLY the property text, the worktree path and one-line descriptions of the ideas
earlier contributors already tried (nothing about /verif's checks)."""
import json, subprocess, sys, os
from pathlib import Path
V = Path(__file__).resolve().parent.parent
base = sys.argv[1]
os.makedirs(base, exist_ok=True)
RUN = r'''#!/bin/bash
# usage: @BASE@/run_tests.sh <worktree>   -- runs the repository's pinned test suite against the worktree's code
# and checks that every test of the stable baseline (140 tests) still passes. Exit 0 = baseline intact.
wt=$1
out=$(mktemp @BASE@/junit.XXXXXX.xml)
cd "$wt" && PYTHONPATH="$wt" /venv/bin/python -m pytest -ra -q -p no:cacheprovider --timeout=900 --continue-on-collection-errors --junitxml=$out > "$out.log" 2>&1
PYTHONPATH="$wt" /venv/bin/python - "$out" <<'PY'
import json, sys, xml.etree.ElementTree as ET
base = set(json.load(open('/root/.vp/BASELINE.json'))['stable_pass'])
passed = set()
for tc in ET.parse(sys.argv[1]).getroot().iter('testcase'):
    if not any(c.tag in ('failure', 'error', 'skipped') for c in tc):
        passed.add(f"{tc.get('classname')}::{tc.get('name')}")
missing = sorted(base - passed)
print(f"baseline {len(base)} passed-now {len(passed & base)} missing {len(missing)}")
for m in missing: print("  NO LONGER PASSING", m)
sys.exit(1 if missing else 0)
PY
rc=$?
rm -f "$out" "$out.log"
exit $rc
'''.replace("@BASE@", base)
Path(base, "run_tests.sh").write_text(RUN)
os.chmod(Path(base, "run_tests.sh"), 0o755)
TMPL = '''You are a careful software engineer helping to evaluate a verification effort for the Python library desy-ml/cheetah (a PyTorch-based differentiable particle-accelerator beam dynamics simulator: linear transfer maps, Bmad-X tracking, space-charge kicks, lattice converters). You work ONLY inside your own scratch git worktree of the repository: {wt} (a detached checkout; import its code with `PYTHONPATH={wt} /venv/bin/python`; never touch /repo or /verif, never read anything under /verif).

Here is a semantic property the library is supposed to satisfy:

  {pid} — {title}
  Statement: {statement}
  Quantifier: {quant}

Your task: produce TWO independent, realistic code changes to the library (each as its own patch) that each BREAK this property while the library still imports fine and the repository's existing test-suite baseline still passes. Think of the kind of subtle regression a real contributor could introduce: a refactoring slip, an off-by-one, a wrong index or sign under a rare condition, a cache that is not invalidated, a guard that is too wide or too narrow, a shortcut that is only valid in the common case, two code sites that each look fine alone. The change must need something SPECIFIC to manifest — a particular parameter regime or unusual input, a particular ordering / nesting of elements, a multi-step sequence of operations, a particular batch shape or mixture of values — NOT something that ordinary use or a quick smoke test would expose at once (so: no change that alters every quadrupole or every drift; prefer a change confined to a corner of the input space, but one that is genuinely reachable through the public API and genuinely violates the property as stated). The two changes should be of different kinds and touch different mechanisms.

Earlier contributors already tried the following ideas for this property; yours must differ from them in mechanism and in location (do not merely move the same idea to a sibling class):
{tried}
For each change:
1. Read the relevant source first (cheetah/ in your worktree) to find a good spot.
2. Make the edit in the worktree, then run `{base}/run_tests.sh {wt}` — it must print `missing 0` (all 140 baseline tests still pass; one test, test_indexing_with_vectorized_incoming_beam, is occasionally flaky — rerun once if only that one is missing). If not, revise the change.
3. Write a small demonstration script `{wt}/demo_<n>.py` (n = 1, 2) using only the public API (`import cheetah`, torch, numpy) that exits with status 1 and prints what went wrong when run against the changed code (`PYTHONPATH={wt} /venv/bin/python demo_<n>.py`), and exits 0 against the unchanged code. Verify both: run it with the change applied (must fail), then save your edit as a patch file, `git checkout -- cheetah`, run it again (must pass), and re-apply the patch. NEVER use `git stash` (the stash is shared between all worktrees of the repository and other people are working in sibling worktrees). The demo must check the property itself (e.g. compare against the mathematically/semantically expected result), not merely "differs from the previous version".
4. Save the change as a patch: `cd {wt} && git diff -- cheetah > {wt}/patch_<n>.diff`, then `git checkout -- cheetah` before starting the next change, so that patch_1.diff and patch_2.diff each apply independently to a clean checkout (`git apply --check` them against the clean worktree to be sure).

Constraints: do not edit tests; do not add dependencies; keep each patch small (a few lines); the patched code must not raise on ordinary inputs. Leave the worktree clean of edits at the end (only the untracked files patch_1.diff, patch_2.diff, demo_1.py, demo_2.py remain).

Final report (your last message): for each of the two changes: the patch text, what exactly is needed for it to manifest, why existing tests do not notice, and the exact commands you ran with their outcomes (tests: `missing 0`; demo with change: exit 1; demo without: exit 0).'''
notes = json.load(open(V / "seeded" / "NOTES.json"))
for line in open(V / "properties.jsonl"):
    p = json.loads(line)
    pid = p["id"]
    wt = f"{base}/{pid}"
    if not Path(wt).exists():
        subprocess.run(["git", "-C", "/repo", "worktree", "add", "--detach", wt, "HEAD"], check=True, capture_output=True)
    tried = "".join(f"  - {v[0]}\n" for k, v in sorted(notes.items()) if k.startswith(pid))
    Path(base, f"prompt_{pid}.txt").write_text(TMPL.format(wt=wt, base=base, pid=pid, title=p["title"], statement=p["statement"],
                                                           quant=p["quantifier"]["text"], tried=tried))
print("prepared", base)
