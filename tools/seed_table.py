#!/usr/bin/env python3
"""Renders the table of independently seeded breaking changes (seeded/*/meta.json + seeded/NOTES.json) into DESIGN.md
between the markers <!-- SEEDED-TABLE --> and <!-- /SEEDED-TABLE -->; also copies the notes into each meta.json."""
import json
from pathlib import Path

V = Path(__file__).resolve().parent.parent
notes = json.loads((V / "seeded/NOTES.json").read_text())
rows = ["| id | change | needs, to manifest | quick check(s) that report it | first evaluation | strengthening |", "|---|---|---|---|---|---|"]
for d in sorted(p for p in (V / "seeded").iterdir() if p.is_dir()):
    m = json.loads((d / "meta.json").read_text())
    n = notes.get(d.name, ["", "", "", ""])
    m.update(change=n[0], needs=n[1], first_evaluation=n[2], strengthening=n[3])
    (d / "meta.json").write_text(json.dumps(m, indent=1))
    by = []
    for prop, c in m["checks"].items():
        if c.get("violations"):
            srcs = sorted({f["source"] for f in c.get("first", [])})
            by.append(f"{prop} ({'+'.join(srcs)}; {c['violations']} violation(s))")
    rows.append(f"| {d.name} | {n[0]} | {n[1]} | {', '.join(by) or '-'} | {n[2]} | {n[3]} |")
txt = (V / "DESIGN.md").read_text()
a, b = "<!-- SEEDED-TABLE -->", "<!-- /SEEDED-TABLE -->"
if a in txt:
    txt = txt[:txt.index(a) + len(a)] + "\n" + "\n".join(rows) + "\n" + txt[txt.index(b):]
    (V / "DESIGN.md").write_text(txt)
print("\n".join(rows))
