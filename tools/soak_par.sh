#!/bin/bash
# parallel soak: every registered quick check on seeds $1..$2 of the unchanged tree, $3 (default 5) properties at a time;
# prints only runs that are not clean.  (Different properties do not share evidence / replay files; lake is serialised
# by the build lock.)
./setup.sh > /dev/null 2>&1
one() {
  s=$1; p=$2
  out=$(VERIF_SEED=$s timeout 2400 ./check $p 2>&1 | grep -v KNOWN-FINDING | tail -3)
  if ! echo "$out" | tail -1 | grep -q " 0 violation(s)"; then
    echo "== seed $s $p"; echo "$out"
    for f in replays/$p/*.json; do python3 -c "import json,sys; d=json.load(open('$f')); print('   ',d['source'],d['signature'],'|',d['what'][:200])"; done
  fi
  rm -rf replays/$p
}
export -f one
for s in $(seq ${1:-1} ${2:-3}); do
  printf "%s\n" C01 C02 C03 C04 C05 C06 C07 C08 C09 C10 C11 C12 C13 C14 C15 C16 C17 C18 C19 C20 | xargs -P ${3:-5} -I{} bash -c "one $s {}"
  echo "seed $s done"
done
