#!/bin/bash
# usage: tools/confirm_seed.sh <Cxx> <n>   -- confirms a seeded change in its scratch worktree /tmp/seed/<Cxx>:
# demo fails with the patch, baseline tests pass with the patch, demo passes without it. Writes /tmp/seed/<Cxx>/confirm_<n>.json
p=$1; n=$2; base=${SEED_DIR:-/tmp/seed}; wt=$base/$p
cd $wt || exit 2
git checkout -q -- cheetah
git apply --check patch_$n.diff || { echo "{\"apply\": false}" > confirm_$n.json; exit 1; }
PYTHONPATH=$wt timeout 900 /venv/bin/python demo_$n.py > demo_$n.clean.log 2>&1; clean_rc=$?
git apply patch_$n.diff
PYTHONPATH=$wt timeout 900 /venv/bin/python demo_$n.py > demo_$n.patched.log 2>&1; patched_rc=$?
tests=$($base/run_tests.sh $wt | head -1)
git checkout -q -- cheetah
echo "{\"apply\": true, \"demo_rc_clean\": $clean_rc, \"demo_rc_patched\": $patched_rc, \"tests\": \"$tests\"}" > confirm_$n.json
cat confirm_$n.json
