#!/usr/bin/env python3
"""Writes /verif/MANIFEST.json from the table below (kept in one place so the manifest stays valid)."""
import json
from pathlib import Path

V = Path(__file__).resolve().parent.parent

CHECKS = {
    "C02": dict(
        category="proof",
        text="Lean 4 theorems (C02.*): the model's body map (drift limit, quadrupole of either sign, sector bend with "
             "gradient) satisfies R(0)=1, R(a+b)=R(a)R(b) and dR/dL = A*R(L) entrywise for the textbook generator A, in "
             "both the trigonometric and hyperbolic branch; tilt and misalignment are conjugations (the shortcuts skip "
             "identities), quadrupole flow with conjugated generator, misalignment acts as v->R(v-d)+d, drift R56 = "
             "-L/(beta^2 gamma^2), edges are the thin-lens formulas, correctors = drift + kick of exactly the angle. The "
             "model is tied to /repo by the 49-entry double-vs-double correspondence per element class on every run; a "
             "falsifier compares transfer_map with scipy expm(L*A) built independently.",
        design="§5 C02",
        note="Trusted: Lean kernel, Mathlib, propext/Classical.choice/Quot.sound; instance Scalar ℝ; real semantics "
             "(round-off covered by correspondence only); uniqueness of linear ODE solutions is cited, not proved; edge "
             "maps are specified (thin lens), not derived from a field model; solenoid flow is falsifier-only.",
        technique="Lean 4 proof (HasDerivAt flow + group law) over hand-written model + differential correspondence + expm oracle",
    ),
    "C03": dict(
        category="proof",
        text="Lean 4 theorems (C03.*): every linear element map of the model is S6-symplectic for all parameter values "
             "and energies above rest energy, det = 1 and volume invariance for every symplectic map, cavity transverse "
             "determinant = E_in/E_out, seventh row/component; the model is tied to /repo on every run by a bit-exact "
             "double-vs-double correspondence of all 49 map entries per element class; a falsifier checks "
             "M^T S6 M = S6, the seventh row and the cavity area ratio on the real code.",
        design="§5 C03",
        note="Trusted: Lean kernel, Mathlib, axioms propext/Classical.choice/Quot.sound; instance Scalar ℝ; real-number "
             "semantics (round-off not proved, covered by the correspondence at 256 eps); harness generators. "
             "Partial: non-linear Bmad-X Jacobians are falsifier-only except drift / quadrupole transverse block.",
        technique="Lean 4 proof over hand-written polymorphic model + bit-exact differential correspondence + real-code falsifier",
    ),
}

NOT_APPLICABLE = {}

def main():
    props = [json.loads(l)["id"] for l in (V / "properties.jsonl").read_text().splitlines() if l.strip()]
    checks = []
    for pid in props:
        if pid not in CHECKS:
            continue
        c = CHECKS[pid]
        checks.append({
            "property_id": pid,
            "quick_cmd": f"./check {pid} --tier quick",
            "thorough_cmd": f"./check {pid} --tier thorough",
            "evidence_file": f"evidence/{pid}.json",
            "replay_cmd_template": f"./check {pid} --replay {{path}}",
            "engine": "lean4-model+correspondence",
            "level_claimed": {"category": c["category"], "text": c["text"], "design_ref": c["design"]},
            "level_note": c["note"],
            "technique": c["technique"],
        })
    na = [{"property_id": p, "reason": NOT_APPLICABLE.get(p, "check not built yet in this round (no technical obstacle; see DESIGN.md §10 build order)")}
          for p in props if p not in CHECKS]
    m = {
        "version": 1,
        "setup_cmd": "./setup.sh",
        "hooks": {
            "guard": "DESY_ML_CHEETAH_VERIF",
            "enable": "no source hooks are needed: the harness imports cheetah from /repo's working tree (editable install) and observes through public APIs; checks export DESY_ML_CHEETAH_VERIF=1 for uniformity",
            "baseline_off_cmd": "cd /repo && env -u DESY_ML_CHEETAH_VERIF /venv/bin/python -m pytest -ra -q -p no:cacheprovider --timeout=900 --continue-on-collection-errors",
            "source_commits": [],
            "add_only": True,
        },
        "engines": [{
            "name": "lean4-model+correspondence",
            "path": "lean/ (model, proofs, driver), harness/ (correspondence + falsifiers), tools/extract.py (translator), check (entry point)",
            "serves_properties": [c["property_id"] for c in checks],
            "kind_free_text": "machine-checked proof in Lean 4 about a formal model; model tied to the source by differential correspondence (bit-exact line protocol) and by a translator regenerating tables from the AST",
        }],
        "checks": checks,
        "not_applicable": na,
        "notes": "See DESIGN.md. known_findings.json lists genuine defects recorded rather than repaired; fixed: entries suppress nothing.",
    }
    (V / "MANIFEST.json").write_text(json.dumps(m, indent=1) + "\n")

if __name__ == "__main__":
    main()
