#!/usr/bin/env python3
"""Writes /verif/MANIFEST.json from the table below (kept in one place so the manifest stays valid)."""
import json
from pathlib import Path

V = Path(__file__).resolve().parent.parent

CHECKS = {
    "C04": dict(
        category="proof",
        text='Lean 4 theorems (C04.*): the whole-tensor shortcuts any(tilt != 0) / all(misalignment == 0) are identities on their guards, so the batched quadrupole / base_rmatrix maps equal the per-sample maps for every mixture in the batch, hence no cross-talk; the Dipole body (per-entry torch.where on the length since the fix: commit) is modelled as coded, proved equal to the per-sample map for every mixture of zero and finite lengths and proved to refine the dipole map the other theorems use; the Cavity any(delta_energy > 0) branch is proved to cross-talk (witness theorem = known finding). Tie: vectorised transfer_map entries vs per-sample model maps. Falsifier: batched track vs Python loop for all classes, shapes, mixtures.',
        design="§5 C04",
        note='Trusted: Lean 4.33 kernel, Mathlib; axioms propext/Classical.choice/Quot.sound only (audited each run); instance Scalar ℝ; real-number semantics (round-off outside the theorems, covered by double-vs-double correspondence); harness generators; partial: PyTorch broadcasting/unsqueeze plumbing is not modelled (falsifier only).',
        technique='Lean 4 proof over batch model (lists of per-sample records) + differential correspondence + loop-vs-batch falsifier',
    ),
    "C05": dict(
        category="proof",
        text="Lean 4 theorems (C05.*): forward-mode dual numbers over the same polymorphic model; HasDerivAt proofs that the tangents of the focusing functions and of R[1,0] are the true derivatives for k>0, that the guard passes tangents for k1 != 0 and kills them at k1 == 0 (known finding). Tie: torch.autograd gradients of all 49 map entries w.r.t. every quadrupole parameter vs the model's tangents at Dual Float (agree incl. guard points). Falsifier: autograd vs central finite differences for every class/parameter/beam type incl. exact-zero points. Added: soundness of forward-mode differentiation operation by operation (Tracks: + - * / neg sin cos sinh cosh exp atan sqrt log abs preserve (value, derivative) at every point of differentiability) and an end-to-end instance through a guarded model function (gradient of the drift R56 w.r.t. the beam energy). Added: PyTorch`s reverse-mode engine modelled over expression programs (Reverse.lean: backward pass with the local partial derivatives of derivatives.yaml, both arms of torch.where receive a cotangent); theorems reverse_eq_forward (every program, no side condition), forward_is_derivative and reverse_is_gradient (HasDerivAt for every program that is smooth at the point, where nodes included), reverse_gradient_at_guard, focusing_reverse_gradient (the focusing functions of base_rmatrix are proved to be the forward pass of two such programs: reverse-mode gradient = partial derivative of the model function, either sign of the strength); tied to torch.autograd.grad by correspondence op rev on random programs and on the tracking code`s guard idioms evaluated at the guard (the NaN from 0*inf in an unselected where arm is reproduced by the model at Float).",
        design="§5 C05",
        note='Trusted: Lean 4.33 kernel, Mathlib; axioms propext/Classical.choice/Quot.sound only (audited each run); instance Scalar ℝ; real-number semantics (round-off outside the theorems, covered by double-vs-double correspondence); harness generators; partial: reverse-mode engine (NaN from unselected branches) not modelled; derivative proofs cover the focusing functions only.',
        technique='Lean 4 proof (HasDerivAt of dual-number tangents) + autograd correspondence + finite-difference falsifier + reverse-mode model over expression programs tied to torch.autograd (op rev)',
    ),
    "C06": dict(
        category="proof",
        text='Lean 4 theorems (C06.*): for every 7x7 map the sample mean/unbiased covariance of the mapped particles equal M mu, M Sigma M^T (all 6 means, 21 second moments); lifted to every skippable element kind and every nested all-skippable segment of the model; energy agreement for all kinds incl. active cavities; PSD/symmetry preserved; active-cavity transverse rows linear. Tie: Element.track of both beam types vs Elem.trackP/trackM (incl. cavity formulas). Falsifier: moments of tracked particles vs tracked moments on the real code. Falsifier additionally: vectorised element / beam / both, diagnostics (active, misaligned), CustomTransferMap with a general 6x6 block, elements re-tuned with the same beam object.',
        design="§5 C06",
        note='Trusted: Lean 4.33 kernel, Mathlib; axioms propext/Classical.choice/Quot.sound only (audited each run); instance Scalar ℝ; real-number semantics (round-off outside the theorems, covered by double-vs-double correspondence); harness generators; element contracts of the real classes are sampled.',
        technique='Lean 4 proof (list-sum algebra over Mathlib matrices) + track correspondence + moment falsifier',
    ),
    "C07": dict(
        category="proof",
        text='Lean 4 theorems (C07.*): the Bmad-X drift kernel is an exact flow (pieces compose, zero length = identity), so is the Drift element incl. the tau/delta<->z/pz conversions; straight-line motion formula; momenta untouched; TransverseDeflectingCavity at 0 V = Bmad-X drift in its frame. For on-momentum particles (delta = 0, any amplitude, either sign of k1, any num_steps) the aligned Bmad-X quadrupole gives exactly the transverse coordinates of the linear transfer map, hence equal transverse Jacobians (HasDerivAt). Tie: single particles through the real Bmad-X Drift/Quadrupole/Dipole/TDC and conversions vs CheetahModel.Bmadx at Float. Falsifier: autograd Jacobian vs linear map, piece composition for quadrupole/bend, uniform-field motion. Added: the Bmad-X quadrupole body is an exact flow in all six coordinates for either sign of k1 (hence independent of num_steps; at the regularisation eps = 0), and the Jacobian of the Bmad-X Drift about the design orbit equals the linear drift map (R12 = R34 = L, R56, unit diagonal, vanishing cross terms), obtained by verified forward-mode differentiation of the model (tactic tracks_all).',
        design="§5 C07",
        note='Trusted: Lean 4.33 kernel, Mathlib; axioms propext/Classical.choice/Quot.sound only (audited each run); instance Scalar ℝ; real-number semantics (round-off outside the theorems, covered by double-vs-double correspondence); harness generators; partial: bend-body exactness, the chromatic Jacobian entries of the quadrupole and the Jacobian of the dipole are falsifier-only.',
        technique='Lean 4 proof (real analysis of the drift kernel, polynomial flow identity of the quadrupole step, verified forward-mode differentiation) + kernel correspondence + Jacobian/flow falsifier',
    ),
    "C09": dict(
        category="proof",
        text='Lean 4 theorems (C09.*): exact equality with the drift map for correctors at angle 0, undulator, solenoid at k=0 (any misalignment), cavity map at V=0 for any phase/frequency and its tracking for both beam types, TDC at 0 V; zero-length zero-strength identities; bound |cos-like - 1| <= 1e-12 L^2/2 for the 1e-12 guard. Tie: maps at the exact-zero points and Bmad-X kernels vs the model. Falsifier: Element(strength=0).track vs Drift(L, same method), finiteness, continuity sweeps.',
        design="§5 C09",
        note='Trusted: Lean 4.33 kernel, Mathlib; axioms propext/Classical.choice/Quot.sound only (audited each run); instance Scalar ℝ; real-number semantics (round-off outside the theorems, covered by double-vs-double correspondence); harness generators; quadrupole/dipole guard distance is proved for the focusing function only; Bmad-X limits falsifier-only.',
        technique='Lean 4 proof + exact-zero correspondence + drift-comparison falsifier',
    ),
    "C10": dict(
        category="proof",
        text='Lean 4 theorems (C10.*), by mutual induction over arbitrary lattices: survival stays within [0, previous value] (hence within [0,1], never increasing), particle count and charges never change; aperture = exact 0/1 mask with strict-< rectangle and <=1 ellipse, coordinates untouched; energy changes only in active cavities by V cos(phase); blocking screen zeroes survival and it stays zero downstream; with 0/1 survival the weighted mean / unbiased weighted variance / total charge equal those of the survivors. Tie: apertures, screens, cavities vs Elem.trackP/M; statistics vs wmean/wvar/wcov.',
        design="§5 C10",
        note='Trusted: Lean 4.33 kernel, Mathlib; axioms propext/Classical.choice/Quot.sound only (audited each run); instance Scalar ℝ; real-number semantics (round-off outside the theorems, covered by double-vs-double correspondence); harness generators; none identified.',
        technique='Lean 4 proof (invariant by induction over lattices, list-sum algebra) + correspondences + falsifier',
    ),
    "C11": dict(
        category="proof",
        text="Lean 4 theorems (C11.*): on the model (lattice = its parameter records) after any history of assign/track/clone/read a track equals the track of a freshly built lattice with the final records; tracking is pure and repeatable; the Screen's read-beam/cached-reading state machine is coherent for every history and a reading reflects the last beam that passed. The claim that the real objects are such a pure machine is decided by the falsifier: random histories with bitwise snapshots and _version counters of every input tensor, final track vs rebuilt lattice, readings vs fresh diagnostics. Added: merged_probe_beam_is_the_tracked_beam (the probe beam of transfer_maps_merged reaches the shared diagnostics as the beam element-by-element tracking sends there), tied by stub ops arrP / arrM; probe merged_readings (readings after transfer_maps_merged = fresh lattice tracked).",
        design="§5 C11",
        note='Trusted: Lean 4.33 kernel, Mathlib; axioms propext/Classical.choice/Quot.sound only (audited each run); instance Scalar ℝ; real-number semantics (round-off outside the theorems, covered by double-vs-double correspondence); harness generators; partial: aliasing is observed at tensor granularity, not proved; autograd graph retention not modelled.',
        technique='Lean 4 proof (state-machine invariant by induction over histories) + history falsifier on the real objects',
    ),
    "C12": dict(
        category="proof",
        text="Lean 4 theorems (C12.*) by decide over tables regenerated from /repo's AST on every run: no tensor-creation site outside the reviewed baseline allocates in the default dtype or casts a default-dtype temporary; every split forwards dtype/device; plus the arithmetic reasons a float32 constant or a float32-routed decimal ruins float64 accuracy. Tie for accuracy: the float64 correspondences (model at double vs code within ~1e-13). Falsifier: exhaustive dtype audit of constructors/transformations/importers x {f32,f64}, float32-participation tracer, mpmath accuracy checks. Added: model of PyTorch`s type promotion over the operand kinds Cheetah mixes (Promote.lean: dimensioned tensors, zero-dimensional tensors, Python numbers; result_type / combine_categories; kind of a binary operation`s result); theorems f64_in_f64_out and f64_independent_of_default (any arithmetic expression whose tensor leaves are all float64 yields float64 tensors only, whatever the default dtype — induction over expressions), promotion_commutes, promotion_traps (a zero-dimensional float64 setting does not widen float32 particles, a zero-dimensional float32 setting is silently widened, a Python float gives integer tensors the default dtype); tied to torch by correspondence op prom (random expressions under both default dtypes).",
        design="§5 C12",
        note='Trusted: Lean 4.33 kernel, Mathlib; axioms propext/Classical.choice/Quot.sound only (audited each run); instance Scalar ℝ; real-number semantics (round-off outside the theorems, covered by double-vs-double correspondence); harness generators; partial: round-off is not a theorem; the site table is a syntactic abstraction (a leak classified Requested/Inherited is seen only by the falsifier).',
        technique='Lean 4 decide over translator-regenerated tables + dtype audit / mpmath falsifier + type-promotion model tied to torch (op prom)',
    ),
    "C13": dict(
        category="proof",
        text="Lean 4 theorems (C13.*). By decide over tables regenerated from source: the Elegant/Bmad element-type dispatch tables (type -> class, keyword -> expression, understood properties) equal the reviewed tables (incl. the Elegant phase - 90 convention); both converters run exactly the modelled continuation passes. By induction over all line lists (model CheetahModel/Text.lean of fortran_namelist.py / rpn.py): continuation merging glues consecutive blocks in file order, only where the text ends with the mark, resolves every continuation, keeps the character stream (kept mark) or removes exactly one mark per absorbed line (removed mark), never grows; cleaned lines carry no comment, blank line, surrounding blank or upper case; RPN 'a b op' is evaluated as 'a op b'; NX tables (model CheetahModel/Nx.lean of the drift filling): every accepted table puts each element's centre at its tabulated position and the importer accepts exactly the tables without overlap. Tie: imported NX layouts vs the model item by item (driver op nxfill); the real read_clean_lines / merge_delimiter_continued_lines / rpn functions vs the model on cleaned and raw random lines (driver op txt). Falsifier: random abstract lattices (variables, expressions, inheritance, later assignments, nested lines) rendered in many spellings, imported and compared with an independent reference denotation; NX-table layouts vs tabulated positions. Added: statement level of the parsers (Namelist.lean: context semantics of parse_lines` handlers — variable / element definition with inheritance by deep copy / property assignment with wild cards / line definition / use — and the expansion of lines by convert_element); theorems statement_assign_property_once, statement_define_element (inheritance copies, last assignment per key wins, right-hand sides evaluated in the pre-statement context), statement_last_use_wins, line_expansion, wildcard_semantics; tied to the real parse_lines + bmad.convert_element by correspondence op nml (random statement sequences rendered as lattice text: final dictionary entry by entry in insertion order, raised exceptions, the nested lattice built from the last use) and to resolve_object_name_wildcard.",
        design="§5 C13",
        note='Trusted: Lean 4.33 kernel, Mathlib; axioms propext/Classical.choice/Quot.sound only (audited each run); instance Scalar ℝ; real-number semantics (round-off outside the theorems, covered by double-vs-double correspondence); harness generators; partial: the statement-level regex chain, eval, inheritance and line expansion are covered differentially only.',
        technique='Lean 4 induction over a line-level model of the import front end (tied by correspondence) + decide over translator-regenerated tables + differential import falsifier + statement-level model tied to parse_lines/convert_element (op nml)',
    ),
    "C14": dict(
        category="proof",
        text='Lean 4 theorems (C14.*): parse_segment(convert_segment l) = l for every uniquely named segment tree - any nesting depth, sub-segments in any position, order/names/classes/parameters preserved (model of latticejson.py, core Lean, induction over trees); and by decide over the live classes of /repo: defining_features cover exactly the constructor parameters of every element class. Falsifier: save / json.load / reload of random nested segments with every class and non-default attribute, track equality, file layout. Tie added: the real convert_segment / parse_segment vs NLat.conv / NLat.parse on random named trees (unique and colliding names): both dictionaries entry by entry and the tree read back.',
        design="§5 C14",
        note='Trusted: Lean 4.33 kernel, Mathlib; axioms propext/Classical.choice/Quot.sound only (audited each run); instance Scalar ℝ; real-number semantics (round-off outside the theorems, covered by double-vs-double correspondence); harness generators; json / tolist / torch.tensor round trip of values is trusted (observed by the falsifier).',
        technique='Lean 4 proof (round trip by structural induction) + decide over translator tables + save/load falsifier',
    ),
    "C15": dict(
        category="proof",
        text='Lean 4 theorems (C15.*) by decide over the live classes: clone = construct(class, defining_features) copies every constructor-settable attribute (features cover the constructor parameters; behaviour flags are features). Falsifier: every class with non-default attributes, nested segments, both beam types: attribute equality, dtype, storage disjointness (data_ptr), track equality, mutation independence in both directions.',
        design="§5 C15",
        note='Trusted: Lean 4.33 kernel, Mathlib; axioms propext/Classical.choice/Quot.sound only (audited each run); instance Scalar ℝ; real-number semantics (round-off outside the theorems, covered by double-vs-double correspondence); harness generators; storage independence is observed, not proved.',
        technique='Lean 4 decide over translator-regenerated tables + clone falsifier',
    ),
    "C16": dict(
        category="proof",
        text='Lean 4 theorems (C16.*): piece lengths add up, none exceeds the resolution, at least one piece; the product of the n piece maps of a quadrupole (either sign, tilt, misalignment) and of a drift is the whole map (from the proved group law) and tracking through the pieces equals the whole; Bmad-X drift pieces compose; correctors keep at least one piece and the total angle; unsplittable elements return themselves; split forwards every constructor parameter (table). Tie: piece count/length vs the model. Falsifier: pieces vs whole on the real code.',
        design="§5 C16",
        note='Trusted: Lean 4.33 kernel, Mathlib; axioms propext/Classical.choice/Quot.sound only (audited each run); instance Scalar ℝ; real-number semantics (round-off outside the theorems, covered by double-vs-double correspondence); harness generators; vectorised lengths are falsifier-only.',
        technique='Lean 4 proof (group law => n pieces compose) + split correspondence + falsifier',
    ),
    "C17": dict(
        category="proof",
        text='Lean 4 theorems (C17.*): emittance > 0, beta > 0, beta*gamma - alpha^2 = 1 when the clamp is inactive; ParameterBeam.from_twiss read back exactly; transport law M Sigma M^T entrywise and emittance invariance for det M = 1; weighted statistics invariant under permutation, translate/scale with coordinates, reduce to unbiased sample statistics when all survive. Tie: Twiss read-out, from_twiss and weighted statistics vs the model. Falsifier on real beams incl. vectorised and the statistical from_twiss clause.',
        design="§5 C17",
        note='Trusted: Lean 4.33 kernel, Mathlib; axioms propext/Classical.choice/Quot.sound only (audited each run); instance Scalar ℝ; real-number semantics (round-off outside the theorems, covered by double-vs-double correspondence); harness generators; the statistical clause is exploration by nature.',
        technique='Lean 4 proof (real algebra) + correspondences + falsifier',
    ),
    "C18": dict(
        category="proof",
        text='Lean 4 theorems (C18.*): (tau,delta,E0) -> (z,pz,p0c) -> back and the reverse round trip are identities for physical particles; the documented definitions; SI round trip is the identity when mec = me*c; E^2 = (pc)^2 + m^2. Tie: the four conversion functions vs the model. Falsifier: mpmath oracle of the documented definitions, both dtypes.',
        design="§5 C18",
        note='Trusted: Lean 4.33 kernel, Mathlib; axioms propext/Classical.choice/Quot.sound only (audited each run); instance Scalar ℝ; real-number semantics (round-off outside the theorems, covered by double-vs-double correspondence); harness generators; float32 underflow in the SI conversions is a known finding.',
        technique='Lean 4 proof (real analysis with sqrt) + conversion correspondence + mpmath falsifier',
    ),
    "C19": dict(
        category="proof",
        text="Lean 4 theorems (C19.*): with the kick's structure dt * sum_j w_j g(i,j) (g arbitrary position-only kernel) the momentum kick is proportional to charge and to length, vanishes for zero charge, ignores lost particles as sources; the CIC deposit is linear in the charges; positions are unchanged by a kick applied in SI coordinates. Tie: the real CIC deposit vs cicDeposit. Falsifier: relations between runs on the real code, outward push, uniform-sphere field. Added: the deposited density and hence every kick is independent of the storage order, CIC weights are non-negative and sum to one, density x cell volume summed over the grid equals the deposited charge. Falsifier additionally: re-used element vs fresh element, float32 kick vs float64 kick up to 17 GeV.",
        design="§5 C19",
        note='Trusted: Lean 4.33 kernel, Mathlib; axioms propext/Classical.choice/Quot.sound only (audited each run); instance Scalar ℝ; real-number semantics (round-off outside the theorems, covered by double-vs-double correspondence); harness generators; partial: the Poisson solve/gather are abstracted; outward push and analytic field are falsifier-only.',
        technique='Lean 4 proof (linearity of the kick structure) + deposit correspondence + relational falsifier',
    ),
    "C20": dict(
        category="proof",
        text='Lean 4 theorems (C20.*): every pixel a particle can fall into lies within (H/b, W/b); its bin contains (x-dx, y-dy) (half-open, last closed); row 0 is the top; BPM reads the centroid; the reading reflects the last beam for every history; inactive diagnostics pass the beam. Tie: single particles on random non-square/binned/misaligned screens: lit pixel and shape vs pixelOf. Falsifier: both methods, both beam types, vectorised kde, BPM. Added: in histogram mode the image sums to the weight (charge x survival) of the particles inside the screen, pixel values are non-negative; tie: whole histogram images of several weighted particles vs histImage / histTotal. Falsifier additionally: readings after the screen`s settings or the upstream aperture changed.',
        design="§5 C20",
        note='Trusted: Lean 4.33 kernel, Mathlib; axioms propext/Classical.choice/Quot.sound only (audited each run); instance Scalar ℝ; real-number semantics (round-off outside the theorems, covered by double-vs-double correspondence); harness generators; partial: KDE / ParameterBeam / vectorised images are falsifier-only.',
        technique='Lean 4 proof (bin-search specification, cache invariant) + pixel correspondence + falsifier',
    ),
    "C01": dict(
        category="proof",
        text="Lean 4 theorems (C01.*), core Lean, by mutual structural induction over arbitrary nested lattices: the "
             "code's Segment.track algorithm (all-skippable shortcut; grouping of maximal runs of skippable elements "
             "into temporary segments; nested segments) equals element-by-element tracking in lattice order for every "
             "semantics satisfying the linear contract; invariance under nesting, flattening, cutting into sub-cells; "
             "subcell specification; length additivity; and the contract itself is proved for the model's concrete "
             "ParticleBeam/ParameterBeam semantics over all element kinds. Tie: the real Segment code runs on integer "
             "stub Element subclasses and is compared bit-for-bit with the Lean algorithm over Int (8 ops), and the "
             "contract is checked on every real element class; falsifier: Segment.track vs Python fold on random real "
             "lattices (nested / flattened / cut), with shrinking.",
        design="§5 C01",
        note="Trusted: Lean kernel (axioms: propext only for the lattice theorems), stub harness, generators. The "
             "per-element contract of the real classes is sampled, not proved.",
        technique="Lean 4 proof by mutual induction over lattices + exact integer-stub correspondence + real-lattice falsifier",
    ),
    "C08": dict(
        category="proof",
        text="Lean 4 theorems (C08.*): the transfer_maps_merged loop (pending run, single-element runs kept, trailing run "
             "always merged, exception list, forward-tracked beam) preserves the tracking of the given beam for every "
             "lattice and lawful semantics; excepted / non-mergeable elements are kept unchanged in order and never "
             "inside a merged map; dropping identity-tracking elements and replacing by equal-tracking elements "
             "preserve tracking (the per-class hypotheses are sampled on the real classes). Tie: exact stub "
             "correspondence of the merged lattice structure incl. every merged matrix; falsifier on random real "
             "lattices for all four transformations with shrinking to the culprit element. Added: merge_arrivals — the beams transfer_maps_merged sends into the items it does not merge are those of element-by-element tracking (Lat.arrivals = Lat.arrSpec), tied by stub ops arrP / arrM that record what arrives at the real stub elements.",
        design="§5 C08",
        note="Trusted: Lean kernel, stub harness. Known findings (elements without is_active are treated as inactive) "
             "are listed in known_findings.json.",
        technique="Lean 4 proof (loop invariant by induction) + exact integer-stub correspondence + real-lattice falsifier",
    ),
    "C02": dict(
        category="proof",
        text="Lean 4 theorems (C02.*): the model's body map (drift limit, quadrupole of either sign, sector bend with "
             "gradient) satisfies R(0)=1, R(a+b)=R(a)R(b) and dR/dL = A*R(L) entrywise for the textbook generator A, in "
             "both the trigonometric and hyperbolic branch; tilt and misalignment are conjugations (the shortcuts skip "
             "identities), quadrupole flow with conjugated generator, misalignment acts as v->R(v-d)+d, drift R56 = "
             "-L/(beta^2 gamma^2), edges are the thin-lens formulas, correctors = drift + kick of exactly the angle. The "
             "model is tied to /repo by the 49-entry double-vs-double correspondence per element class on every run; a "
             "falsifier compares transfer_map with scipy expm(L*A) built independently. Added: the solenoid map is a one-parameter group and solves dR/dL = A_sol R for every entry at every length (both branches k = 0 / k != 0), with the generator read as the solenoid's equations of motion. Falsifier also probes the context in which the map reaches the beam (alone / in a Segment / between mergeable or non-mergeable neighbours / nested; tracked twice; re-tuned with the same beam object) and that diagnostics leave coordinates and the incoming beam untouched.",
        design="§5 C02",
        note="Trusted: Lean kernel, Mathlib, propext/Classical.choice/Quot.sound; instance Scalar ℝ; real semantics "
             "(round-off covered by correspondence only); uniqueness of linear ODE solutions is cited, not proved; edge "
             "maps are specified (thin lens), not derived from a field model; solenoid flow is falsifier-only.",
        technique="Lean 4 proof (HasDerivAt flow + group law) over hand-written model + differential correspondence + expm oracle",
    ),
    "C03": dict(
        category="proof",
        text="Lean 4 theorems (C03.*): every linear element map of the model is S6-symplectic for all parameter values "
             "and energies above rest energy, det = 1 and volume invariance for every symplectic map, cavity transverse "
             "determinant = E_in/E_out, seventh row/component; the model is tied to /repo on every run by a bit-exact "
             "double-vs-double correspondence of all 49 map entries per element class; a falsifier checks "
             "M^T S6 M = S6, the seventh row and the cavity area ratio on the real code. Falsifier additionally: autograd Jacobians of the Bmad-X maps at random paraxial points (bends up to 2.6 rad) against J^T S J = S, every entry of vectorised maps, cavities re-tuned between two passes of the same beam object. Added: the non-linear Bmad-X drift kernel track_a_drift is symplectic at every transportable point: closed form of the kernel, every one of the 36 Jacobian entries by HasDerivAt (bmadx_drift_jacobian), symmetric shift gradient, J^T S J = S (bmadx_drift_symplectic); the closed-form Jacobian is executable (BmadxJac.lean) and compared with torch.autograd`s Jacobian of the real kernel (driver op bdjac); the Jacobian of cheetah_to_bmad_z_pz entry by entry with determinant -1 (zpz_jacobian_entries, zpz_jacobian_det) and hence S6-symplecticity of the drift in Cheetah coordinates (bmadx_drift_symplectic_cheetah; chain rule cited).",
        design="§5 C03",
        note="Trusted: Lean kernel, Mathlib, axioms propext/Classical.choice/Quot.sound; instance Scalar ℝ; real-number "
             "semantics (round-off not proved, covered by the correspondence at 256 eps); harness generators. "
             "Partial: non-linear Bmad-X Jacobians are falsifier-only except drift / quadrupole transverse block.",
        technique="Lean 4 proof over hand-written polymorphic model + bit-exact differential correspondence + real-code falsifier + closed-form Jacobian of the Bmad-X drift tied to autograd (op bdjac)",
    ),
}

NOT_APPLICABLE = {}

def main():
    props = [json.loads(l)["id"] for l in (V / "properties.jsonl").read_text().splitlines() if l.strip()]
    checks = []
    for pid in props:
        if pid not in CHECKS:
            continue
        c = CHECKS[pid]
        checks.append({
            "property_id": pid,
            "quick_cmd": f"./check {pid} --tier quick",
            "thorough_cmd": f"./check {pid} --tier thorough",
            "evidence_file": f"evidence/{pid}.json",
            "replay_cmd_template": f"./check {pid} --replay {{path}}",
            "engine": "lean4-model+correspondence",
            "level_claimed": {"category": c["category"], "text": c["text"], "design_ref": c["design"]},
            "level_note": c["note"],
            "technique": c["technique"],
        })
    na = [{"property_id": p, "reason": NOT_APPLICABLE.get(p, "check not built yet in this round (no technical obstacle; see DESIGN.md §10 build order)")}
          for p in props if p not in CHECKS]
    m = {
        "version": 1,
        "setup_cmd": "./setup.sh",
        "hooks": {
            "guard": "DESY_ML_CHEETAH_VERIF",
            "enable": "no source hooks are needed: the harness imports cheetah from /repo's working tree (editable install) and observes through public APIs; checks export DESY_ML_CHEETAH_VERIF=1 for uniformity",
            "baseline_off_cmd": "cd /repo && env -u DESY_ML_CHEETAH_VERIF /venv/bin/python -m pytest -ra -q -p no:cacheprovider --timeout=900 --continue-on-collection-errors",
            "source_commits": [],
            "add_only": True,
        },
        "engines": [{
            "name": "lean4-model+correspondence",
            "path": "lean/ (model, proofs, driver), harness/ (correspondence + falsifiers), tools/extract.py (translator), check (entry point)",
            "serves_properties": [c["property_id"] for c in checks],
            "kind_free_text": "machine-checked proof in Lean 4 about a formal model; model tied to the source by differential correspondence (bit-exact line protocol) and by a translator regenerating tables from the AST",
        }],
        "checks": checks,
        "not_applicable": na,
        "notes": "See DESIGN.md. known_findings.json lists genuine defects recorded rather than repaired; fixed: entries suppress nothing.",
    }
    (V / "MANIFEST.json").write_text(json.dumps(m, indent=1) + "\n")

if __name__ == "__main__":
    main()
