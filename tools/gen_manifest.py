#!/usr/bin/env python3
"""Writes /verif/MANIFEST.json from the table below (kept in one place so the manifest stays valid)."""
import json
from pathlib import Path

V = Path(__file__).resolve().parent.parent

CHECKS = {
    "C01": dict(
        category="proof",
        text="Lean 4 theorems (C01.*), core Lean, by mutual structural induction over arbitrary nested lattices: the "
             "code's Segment.track algorithm (all-skippable shortcut; grouping of maximal runs of skippable elements "
             "into temporary segments; nested segments) equals element-by-element tracking in lattice order for every "
             "semantics satisfying the linear contract; invariance under nesting, flattening, cutting into sub-cells; "
             "subcell specification; length additivity; and the contract itself is proved for the model's concrete "
             "ParticleBeam/ParameterBeam semantics over all element kinds. Tie: the real Segment code runs on integer "
             "stub Element subclasses and is compared bit-for-bit with the Lean algorithm over Int (8 ops), and the "
             "contract is checked on every real element class; falsifier: Segment.track vs Python fold on random real "
             "lattices (nested / flattened / cut), with shrinking.",
        design="§5 C01",
        note="Trusted: Lean kernel (axioms: propext only for the lattice theorems), stub harness, generators. The "
             "per-element contract of the real classes is sampled, not proved.",
        technique="Lean 4 proof by mutual induction over lattices + exact integer-stub correspondence + real-lattice falsifier",
    ),
    "C08": dict(
        category="proof",
        text="Lean 4 theorems (C08.*): the transfer_maps_merged loop (pending run, single-element runs kept, trailing run "
             "always merged, exception list, forward-tracked beam) preserves the tracking of the given beam for every "
             "lattice and lawful semantics; excepted / non-mergeable elements are kept unchanged in order and never "
             "inside a merged map; dropping identity-tracking elements and replacing by equal-tracking elements "
             "preserve tracking (the per-class hypotheses are sampled on the real classes). Tie: exact stub "
             "correspondence of the merged lattice structure incl. every merged matrix; falsifier on random real "
             "lattices for all four transformations with shrinking to the culprit element.",
        design="§5 C08",
        note="Trusted: Lean kernel, stub harness. Known findings (elements without is_active are treated as inactive) "
             "are listed in known_findings.json.",
        technique="Lean 4 proof (loop invariant by induction) + exact integer-stub correspondence + real-lattice falsifier",
    ),
    "C02": dict(
        category="proof",
        text="Lean 4 theorems (C02.*): the model's body map (drift limit, quadrupole of either sign, sector bend with "
             "gradient) satisfies R(0)=1, R(a+b)=R(a)R(b) and dR/dL = A*R(L) entrywise for the textbook generator A, in "
             "both the trigonometric and hyperbolic branch; tilt and misalignment are conjugations (the shortcuts skip "
             "identities), quadrupole flow with conjugated generator, misalignment acts as v->R(v-d)+d, drift R56 = "
             "-L/(beta^2 gamma^2), edges are the thin-lens formulas, correctors = drift + kick of exactly the angle. The "
             "model is tied to /repo by the 49-entry double-vs-double correspondence per element class on every run; a "
             "falsifier compares transfer_map with scipy expm(L*A) built independently.",
        design="§5 C02",
        note="Trusted: Lean kernel, Mathlib, propext/Classical.choice/Quot.sound; instance Scalar ℝ; real semantics "
             "(round-off covered by correspondence only); uniqueness of linear ODE solutions is cited, not proved; edge "
             "maps are specified (thin lens), not derived from a field model; solenoid flow is falsifier-only.",
        technique="Lean 4 proof (HasDerivAt flow + group law) over hand-written model + differential correspondence + expm oracle",
    ),
    "C03": dict(
        category="proof",
        text="Lean 4 theorems (C03.*): every linear element map of the model is S6-symplectic for all parameter values "
             "and energies above rest energy, det = 1 and volume invariance for every symplectic map, cavity transverse "
             "determinant = E_in/E_out, seventh row/component; the model is tied to /repo on every run by a bit-exact "
             "double-vs-double correspondence of all 49 map entries per element class; a falsifier checks "
             "M^T S6 M = S6, the seventh row and the cavity area ratio on the real code.",
        design="§5 C03",
        note="Trusted: Lean kernel, Mathlib, axioms propext/Classical.choice/Quot.sound; instance Scalar ℝ; real-number "
             "semantics (round-off not proved, covered by the correspondence at 256 eps); harness generators. "
             "Partial: non-linear Bmad-X Jacobians are falsifier-only except drift / quadrupole transverse block.",
        technique="Lean 4 proof over hand-written polymorphic model + bit-exact differential correspondence + real-code falsifier",
    ),
}

NOT_APPLICABLE = {}

def main():
    props = [json.loads(l)["id"] for l in (V / "properties.jsonl").read_text().splitlines() if l.strip()]
    checks = []
    for pid in props:
        if pid not in CHECKS:
            continue
        c = CHECKS[pid]
        checks.append({
            "property_id": pid,
            "quick_cmd": f"./check {pid} --tier quick",
            "thorough_cmd": f"./check {pid} --tier thorough",
            "evidence_file": f"evidence/{pid}.json",
            "replay_cmd_template": f"./check {pid} --replay {{path}}",
            "engine": "lean4-model+correspondence",
            "level_claimed": {"category": c["category"], "text": c["text"], "design_ref": c["design"]},
            "level_note": c["note"],
            "technique": c["technique"],
        })
    na = [{"property_id": p, "reason": NOT_APPLICABLE.get(p, "check not built yet in this round (no technical obstacle; see DESIGN.md §10 build order)")}
          for p in props if p not in CHECKS]
    m = {
        "version": 1,
        "setup_cmd": "./setup.sh",
        "hooks": {
            "guard": "DESY_ML_CHEETAH_VERIF",
            "enable": "no source hooks are needed: the harness imports cheetah from /repo's working tree (editable install) and observes through public APIs; checks export DESY_ML_CHEETAH_VERIF=1 for uniformity",
            "baseline_off_cmd": "cd /repo && env -u DESY_ML_CHEETAH_VERIF /venv/bin/python -m pytest -ra -q -p no:cacheprovider --timeout=900 --continue-on-collection-errors",
            "source_commits": [],
            "add_only": True,
        },
        "engines": [{
            "name": "lean4-model+correspondence",
            "path": "lean/ (model, proofs, driver), harness/ (correspondence + falsifiers), tools/extract.py (translator), check (entry point)",
            "serves_properties": [c["property_id"] for c in checks],
            "kind_free_text": "machine-checked proof in Lean 4 about a formal model; model tied to the source by differential correspondence (bit-exact line protocol) and by a translator regenerating tables from the AST",
        }],
        "checks": checks,
        "not_applicable": na,
        "notes": "See DESIGN.md. known_findings.json lists genuine defects recorded rather than repaired; fixed: entries suppress nothing.",
    }
    (V / "MANIFEST.json").write_text(json.dumps(m, indent=1) + "\n")

if __name__ == "__main__":
    main()
