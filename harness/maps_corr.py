"""B1 correspondence shared by C02/C03/C09: `Element.transfer_map(energy)` (49 entries) of the real code vs the
Lean model at Float, row-wise tolerance 256 eps."""
from __future__ import annotations

import elements as E
from common import LeanDriver, vec_close


def run_maps_correspondence(ctx, prop: str, per_class: int, on_mismatch=None, force=None, classes=None) -> list:
    """Returns the list of mismatching cases [(params, energy, real, model, entry)]."""
    rep, rng = ctx.report, ctx.rng
    drv = LeanDriver()
    cases = []
    for cls in (classes or E.LINEAR_CLASSES):
        for _ in range(per_class if cls not in ("Marker", "BPM", "Screen", "Aperture") else 2):
            p = E.gen_params(rng, cls, force=(force(cls, rng) if force else None))
            En = E.energy(rng)
            try:
                el = E.build(p)
                real = E.real_map(el, En)
            except Exception as ex:  # the real code rejected the record
                rep.count(f"rejected:{cls}:{type(ex).__name__}")
                continue
            idx = E.lean_map_request(drv, p, En)
            cases.append((p, En, real, idx))
    replies = drv.run()
    bad_cases = []
    for p, En, real, idx in cases:
        model = replies[idx]
        rep.corr_cases += 1
        rep.case(E.config_key(p), {"params": p, "energy": En})
        rep.count(p["cls"])
        if isinstance(model, str):
            rep.fail("correspondence", f"{prop}|driver|{p['cls']}", f"Lean driver error {model}",
                     {"params": p, "energy": En}, found_input=False)
            continue
        worst, bad = 0.0, None
        for r in range(7):
            ok, w, wi = vec_close(real[7 * r:7 * r + 7], model[7 * r:7 * r + 7], ulps=256.0)
            worst = max(worst, w) if w != float("inf") else worst
            if not ok and bad is None:
                bad = 7 * r + max(wi, 0)
        rep.ulp(worst)
        if bad is not None:
            ctx.escalate = True
            rep.notes.append(f"correspondence mismatch {p['cls']} entry {divmod(bad, 7)}: code {real[bad]!r} "
                             f"model {model[bad]!r}")
            bad_cases.append((p, En, real, model, bad))
    return bad_cases


def mismatch_failure(rep, prop: str, p, En, real, model, entry, extra: str = "") -> None:
    i, j = divmod(entry, 7)
    rep.fail("correspondence", f"{prop}|model-mismatch|{p['cls']}.transfer_map|R[{i},{j}]",
             f"{p['cls']}.transfer_map no longer matches the Lean model at R[{i},{j}] (code {real[entry]!r}, model "
             f"{model[entry]!r}){extra}",
             {"kind": "map", "params": p, "energy": En, "entry": [i, j], "code_value": real[entry],
              "model_value": model[entry], "broken": "correspondence transfer_map <-> CheetahModel.Maps "
              f"({p['cls']}); theorems of Properties/{prop}.lean no longer speak about this code"},
             found_input=False)
