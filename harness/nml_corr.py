"""B1 for C13 (statement level): random statement sequences — variable assignments, element definitions with inheritance,
property assignments (plain, wild-card, to unknown names, to non-elements), line definitions (nested, repeated, rarely
cyclic), several `use` statements — are rendered as lattice-file text, run through the real `parse_lines` (all regexes and
handlers of `converters/utils/fortran_namelist.py`) and `bmad.convert_element`, and compared with the Lean model
`CheetahModel/Namelist.lean` (driver op `nml`): the final context entry by entry in dictionary order, whether Python
raises, and the nested lattice that is built from the last `use`.  A second stream calls the real
`resolve_object_name_wildcard` against the model's `glob` (patterns with `*` and `%`)."""
from __future__ import annotations

import contextlib
import io
import re

import cheetah
from cheetah.converters.bmad import convert_element
from cheetah.converters.utils import fortran_namelist as FN
from common import LeanDriver

PREDEF = {"pi", "twopi", "c_light", "emass", "m_electron", "sqrt", "asin", "sin", "cos", "abs_func", "raddeg", "__builtins__"}
VARS = ["v1", "v2", "va", "w_1"]
ELEMS = ["q1", "q2", "q1a", "qa", "d1", "d2", "d1x", "m1", "q_b"]
LINES = ["cell", "arc", "full", "cell2"]
TYPES = ["quadrupole", "drift", "marker"]
PROPS = {"quadrupole": ["l", "k1"], "drift": ["l"], "marker": []}
PATS = ["q*", "*", "*1", "q*a", "d*", "q1*", "*a", "q*1*"]


def gen_ex(rng, st, depth=2):
    r = rng.random()
    if depth == 0 or r < 0.45:
        return ("l", int(rng.integers(-4, 9)))
    if r < 0.6 and st["vars"]:
        return ("v", str(rng.choice(sorted(st["vars"]))))
    if r < 0.78:
        cands = [(e, p) for e, t in st["elems"].items() for p in st["props"].get(e, [])]
        if cands and rng.random() < 0.985:
            e, p = cands[int(rng.integers(len(cands)))]
            return ("r", e, p)
        if not cands or rng.random() < 0.5:
            return ("l", int(rng.integers(-4, 9)))
        return ("r", str(rng.choice(ELEMS)), str(rng.choice(["l", "k1"])))      # possibly undefined: Python raises
    op = "+" if rng.random() < 0.5 else "*"
    return (op, gen_ex(rng, st, depth - 1), gen_ex(rng, st, depth - 1))


def ex_text(e) -> str:
    if e[0] == "l":
        return str(e[1])
    if e[0] == "v":
        return e[1]
    if e[0] == "r":
        return f"{e[1]}[{e[2]}]"
    return f"({ex_text(e[1])} {e[0]} {ex_text(e[2])})"


def ex_tokens(e) -> list[str]:
    if e[0] == "l":
        return [f"l{e[1]}"]
    if e[0] == "v":
        return [f"v{e[1]}"]
    if e[0] == "r":
        return ["r", e[1], e[2]]
    return [e[0]] + ex_tokens(e[1]) + ex_tokens(e[2])


def gen_case(rng):
    st = {"vars": set(), "elems": {}, "props": {}, "lines": []}
    stmts = []
    n = int(rng.integers(4, 15))
    for i in range(n):
        r = rng.random()
        if r < 0.15:
            x = str(rng.choice(VARS))
            stmts.append(("V", x, gen_ex(rng, st)))
            st["vars"].add(x)
        elif r < 0.45 or not st["elems"]:
            name = str(rng.choice(ELEMS))
            if st["elems"] and rng.random() < 0.3:
                parent = str(rng.choice(sorted(st["elems"])))
                etype, base = parent, st["elems"][parent]
                inherited = list(st["props"].get(parent, []))
            else:
                etype = base = str(rng.choice(TYPES))
                inherited = []
            props = [(k, gen_ex(rng, st)) for k in PROPS.get(base, []) if rng.random() < 0.88]
            stmts.append(("E", name, etype, props))
            st["elems"][name] = base
            st["props"][name] = inherited + [k for k, _ in props if k not in inherited]
        elif r < 0.70:
            if rng.random() < 0.5:
                t = str(rng.choice(["quadrupole", "drift"]))
                prop = str(rng.choice(PROPS[t]))
                pat = str(rng.choice(PATS))
                stmts.append(("P", t, pat, prop, gen_ex(rng, st)))
                for e, bt in st["elems"].items():
                    if bt == t and re.fullmatch(pat.replace("*", ".*"), e) and prop not in st["props"][e]:
                        st["props"][e].append(prop)
            else:
                u = rng.random()
                if u < 0.08:
                    name, prop = "zz", "k1"                      # unknown name: a bare dictionary is created
                elif u < 0.12 and st["vars"]:
                    name, prop = str(rng.choice(sorted(st["vars"]))), "k1"   # a number: TypeError
                else:
                    name = str(rng.choice(sorted(st["elems"])))
                    ps = PROPS.get(st["elems"][name], [])
                    if not ps:
                        continue
                    prop = str(rng.choice(ps))
                    if prop not in st["props"][name]:
                        st["props"][name].append(prop)
                stmts.append(("P", "-", name, prop, gen_ex(rng, st)))
        elif r < 0.90:
            name = str(rng.choice(LINES))
            pool = sorted(st["elems"]) + [l for l in st["lines"] if l != name]
            if rng.random() < 0.04:
                pool = pool + [name]                              # self reference: RecursionError / fuel
            if rng.random() < 0.03:
                pool = pool + ["nosuch"]
            items = [str(rng.choice(pool)) for _ in range(int(rng.integers(1, 5)))]
            stmts.append(("L", name, items))
            if name not in st["lines"]:
                st["lines"].append(name)
        else:
            pool = st["lines"] or sorted(st["elems"])
            stmts.append(("U", str(rng.choice(pool))))
    if st["lines"] and rng.random() < 0.85:
        stmts.append(("U", st["lines"][-1]))
    return stmts


def render(stmts) -> tuple[list[str], list[str]]:
    lines, toks = [], []
    for s in stmts:
        if s[0] == "V":
            lines.append(f"{s[1]} = {ex_text(s[2])}")
            toks += ["V", s[1]] + ex_tokens(s[2])
        elif s[0] == "E":
            lines.append(f"{s[1]}: {s[2]}" + "".join(f", {k} = {ex_text(e)}" for k, e in s[3]))
            toks += ["E", s[1], s[2], str(len(s[3]))]
            for k, e in s[3]:
                toks += [k] + ex_tokens(e)
        elif s[0] == "P":
            if s[1] == "-":
                lines.append(f"{s[2]}[{s[3]}] = {ex_text(s[4])}")
            else:
                lines.append(f"{s[1]}::{s[2]}[{s[3]}] = {ex_text(s[4])}")
            toks += ["P", s[1], s[2], s[3]] + ex_tokens(s[4])
        elif s[0] == "L":
            lines.append(f"{s[1]}: line = ({', '.join(s[2])})")
            toks += ["L", s[1], str(len(s[2]))] + list(s[2])
        else:
            lines.append(f"use, {s[1]}")
            toks += ["U", s[1]]
    return lines, toks


def canon_ctx(c: dict) -> str:
    out = []
    for k, v in c.items():
        if k in PREDEF:
            continue
        if k == "__use__":
            out.append(f"__use__=L:{v}")
        elif isinstance(v, bool) or not isinstance(v, (int, dict, list)):
            out.append(f"{k}=?:{v!r}")
        elif isinstance(v, int):
            out.append(f"{k}=N:{v}")
        elif isinstance(v, dict):
            ps = ",".join(f"{a}={b}" for a, b in v.items() if a != "element_type")
            out.append(f"{k}=E:{v.get('element_type', '')}:{ps}")
        else:
            out.append(f"{k}=L:{','.join(v)}")
    return ";".join(out)


def real_tree(el) -> str:
    if isinstance(el, cheetah.Segment):
        return f"({el.name} {''.join(real_tree(e) for e in el.elements)})"
    if isinstance(el, cheetah.Marker):
        return f"[{el.name}:marker:0:0]"
    if isinstance(el, cheetah.Quadrupole):
        return f"[{el.name}:quadrupole:{int(round(float(el.length)))}:{int(round(float(el.k1)))}]"
    if isinstance(el, cheetah.Drift):
        return f"[{el.name}:drift:{int(round(float(el.length)))}:0]"
    return f"[{el.name}:?{type(el).__name__}]"


def model_tree(s: str) -> str:
    """`[name:type:k=v,…]` of the model -> `[name:type:l:k1]` (defaults 0), the part of a leaf the built element shows"""
    def leaf(m):
        props = dict(kv.split("=") for kv in m.group(3).split(",") if kv)
        return f"[{m.group(1)}:{m.group(2)}:{props.get('l', '0')}:{props.get('k1', '0')}]"
    return re.sub(r"\[([^:\]]*):([^:\]]*):([^\]]*)\]", leaf, s)


def run_real(lines):
    try:
        with contextlib.redirect_stdout(io.StringIO()):
            c = FN.parse_lines(list(lines))
    except RecursionError:
        return "RAISE", None
    except Exception:
        return "RAISE", None
    ctx = canon_ctx(c)
    if "__use__" not in c:
        return ctx, "NOUSE"
    try:
        with contextlib.redirect_stdout(io.StringIO()):
            el = convert_element(c["__use__"], c)
        tree = real_tree(el)
    except RecursionError:
        tree = "RAISE"
    except Exception:
        tree = "RAISE"
    return ctx, tree


def run_nml_correspondence(ctx, prop: str, n: int) -> None:
    rep, rng = ctx.report, ctx.rng
    drv = LeanDriver()
    pend = []
    for _ in range(n):
        stmts = gen_case(rng)
        lines, toks = render(stmts)
        real = run_real(lines)
        idx = drv.raw("nml " + " ".join(toks))
        pend.append((lines, real, idx))
    # wild cards with `%` and `*` against the real resolver
    gl = []
    for _ in range(max(20, n // 4)):
        names = [str(x) for x in rng.choice(ELEMS + ["q", "qq1", "d_1", "a1"], size=int(rng.integers(2, 8)), replace=False)]
        pat = "".join(str(rng.choice(list("q1ad_") + ["*", "*", "%"])) for _ in range(int(rng.integers(1, 5))))
        t = str(rng.choice(["quadrupole", "drift"]))
        cdict = {nm: {"element_type": ("quadrupole" if i % 3 else "drift")} for i, nm in enumerate(names)}
        cdict["v1"] = 3
        try:
            real = ",".join(FN.resolve_object_name_wildcard(f"{t}::{pat}", cdict))
        except Exception:
            real = "RAISE"
        toks = []
        for i, nm in enumerate(names):
            toks += ["E", nm, "quadrupole" if i % 3 else "drift", "0"]
        toks += ["V", "v1", "l3", "P", t, pat, "l", "l77"]
        gl.append((pat, t, names, real, drv.raw("nml " + " ".join(toks))))
    replies = drv.run()
    for lines, (rctx, rtree), idx in pend:
        rep.corr_cases += 1
        m = replies[idx]
        if not (isinstance(m, str) and m.startswith("T ")):
            rep.fail("correspondence", f"{prop}|driver|nml", f"Lean driver error {m}", {"lines": lines}, found_input=False)
            continue
        body = m[2:]
        if body == "RAISE":
            mctx, mtree = "RAISE", None
        else:
            mctx, _, mt = body.partition(" | ")
            mtree = mt.split(" FLAT ")[0]
            if mtree not in ("NOUSE", "RAISE"):
                # the element converters raise KeyError for a drift without `l` / a quadrupole without `l`, `k1`
                # (recorded C13 finding, element level): the statement-level comparison of the tree stops there
                need = {"drift": {"l"}, "quadrupole": {"l", "k1"}}
                lacking = any(not need.get(t, set()) <= {kv.split("=")[0] for kv in ps.split(",") if kv}
                              for _, t, ps in re.findall(r"\[([^:\]]*):([^:\]]*):([^\]]*)\]", mtree))
                if lacking:
                    rep.count("nml:tree-skipped:omitted-property")
                    mtree = rtree
                else:
                    mtree = model_tree(mtree)
        key = ("nml", "raise" if rctx == "RAISE" else "ok", "nouse" if rtree == "NOUSE" else ("tree-raise" if rtree == "RAISE" else "tree"))
        rep.count(":".join(key))
        rep.case(key, {"lines": lines} if rep.corr_cases % 40 == 1 else None)
        if rctx != mctx or (rctx != "RAISE" and rtree != mtree):
            ctx.escalate = True
            what = "context" if rctx != mctx else "lattice built from the last `use`"
            rep.fail("correspondence", f"{prop}|model-mismatch|parse_lines|{what.split()[0]}",
                     f"parse_lines / convert_element differ from the statement-level model in the {what}: real {rctx if rctx != mctx else rtree!r} vs model {mctx if rctx != mctx else mtree!r}",
                     {"kind": "nml", "lines": lines, "real": [rctx, rtree], "model": [mctx, mtree],
                      "broken": "correspondence parse_lines/convert_element <-> CheetahModel.Namelist (step, expand)"}, found_input=False)
    for pat, t, names, real, idx in gl:
        rep.corr_cases += 1
        rep.count("nml:glob")
        m = replies[idx]
        if not (isinstance(m, str) and m.startswith("T ")):
            rep.fail("correspondence", f"{prop}|driver|nml", f"Lean driver error {m}", {"pattern": pat}, found_input=False)
            continue
        got = [e.split("=")[0] for e in m[2:].split(" | ")[0].split(";") if e.endswith("l=77")]
        if real != ",".join(got):
            ctx.escalate = True
            rep.fail("correspondence", f"{prop}|model-mismatch|resolve_object_name_wildcard",
                     f"wild card `{t}::{pat}` over {names}: real {real!r} vs model {','.join(got)!r}",
                     {"kind": "nmlglob", "pattern": pat, "type": t, "names": names,
                      "broken": "correspondence resolve_object_name_wildcard <-> Nml.glob / Nml.resolve"}, found_input=False)
