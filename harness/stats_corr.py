"""B1 correspondence of the survival-weighted statistics (`ParticleBeam.mu_*`, `sigma_*`, `sigma_xpx`,
`statistics.py`) with the Lean model `wmean` / `wvar` / `wcov` at Float (driver op wstats)."""
from __future__ import annotations

import numpy as np
import torch

import cheetah
import lattices as LT
from common import LeanDriver, vec_close


def run_stats_correspondence(ctx, prop: str, n_cases: int) -> None:
    rep, rng = ctx.report, ctx.rng
    drv = LeanDriver()
    pend = []
    for _ in range(n_cases):
        n = int(rng.integers(3, 12))
        P = LT.gen_particles(rng, n)
        pat = rng.random()
        if pat < 0.3:
            w = np.ones(n)
        elif pat < 0.7:
            w = np.where(rng.random(n) < 0.6, 1.0, 0.0)
            if w.sum() < 2:
                w[:2] = 1.0
        else:
            w = rng.uniform(0.05, 1.0, n)
        b = LT.particle_beam(P, 1e8, survival=w)
        for (ci, cj, mu, sig, cov) in ((0, 1, b.mu_x, b.sigma_x, b.sigma_xpx), (2, 3, b.mu_y, b.sigma_y, b.sigma_ypy)):
            real = [float(mu), float(sig) ** 2, float(cov)]
            idx = drv.call("wstats", float(n), *P[:, ci].tolist(), *P[:, cj].tolist(), *w.tolist())
            pend.append((idx, real, {"n": n, "weights": w.tolist(), "cols": [ci, cj]}, P, w))
    replies = drv.run()
    for idx, real, desc, P, w in pend:
        rep.corr_cases += 1
        kind = "ones" if np.all(w == 1) else ("01" if set(np.unique(w)) <= {0.0, 1.0} else "frac")
        rep.count("wstats:" + kind)
        rep.case(("wstats", kind, desc["n"]), {"op": "wstats", **desc} if rep.corr_cases % 50 == 1 else None)
        model = replies[idx]
        if isinstance(model, str):
            rep.fail("correspondence", f"{prop}|driver|wstats", f"Lean driver error {model}", desc, found_input=False)
            continue
        ci, cj = desc["cols"]
        scales = [LT.REF_SIG[ci], LT.REF_SIG[ci] ** 2, LT.REF_SIG[ci] * LT.REF_SIG[cj]]
        for k, nm in enumerate(["weighted mean", "weighted variance", "weighted covariance"]):
            ok, wst, _ = vec_close([real[k]], [model[k]], ulps=4096.0, scale=float(scales[k]))
            rep.ulp(wst)
            if not ok:
                ctx.escalate = True
                rep.fail("correspondence", f"{prop}|model-mismatch|ParticleBeam statistics|{nm}",
                         f"ParticleBeam {nm} differs from the Lean model: code {real[k]!r} model {model[k]!r}",
                         {"kind": "wstats", **desc, "particles": P.tolist(),
                          "broken": "correspondence statistics.py <-> CheetahModel.Beam.wmean/wvar/wcov"},
                         found_input=False)
