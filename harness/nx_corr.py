"""B1 correspondence for C13 (NX tables): the drift filling of `converters/nxtables.py::convert_lattice_to_cheetah` on the
real code vs `Nx.fill` (Lean, CheetahModel/Nx.lean; driver op `nxfill`).  Layouts from the falsifier's generator (touching /
coincident elements, shuffled rows, ignored classes) without the two-element `MCXG` rows; the lengths the importer gives to
each class code are measured once on one-row tables.  The importer computes gaps in float32, the model in double: items are
compared within `tol`, drifts shorter than `tol` are dropped on both sides, and a gap within `tol` of zero may be accepted or
rejected by the code (recorded C13 finding) — such cases are counted as borderline, never reported here."""
from __future__ import annotations

import contextlib
import io

import torch

import cheetah
from common import LeanDriver
from fals import C13 as F

_LEN: dict[str, float] = {}


def class_length(code: str) -> float:
    if code not in _LEN:
        nx = {"rows": [{"name": "ARXXMCQ" + code[:2] + "0", "cls": code, "z": 1.0}], "fmt": 0}
        p = F.workdir() / "one.txt"
        p.write_text(F.nx_text(nx))
        with contextlib.redirect_stdout(io.StringIO()):
            seg = cheetah.Segment.from_nx_tables(str(p))
        els = F.flatten(seg)
        _LEN[code] = sum(float(torch.as_tensor(getattr(e, "length", 0.0)).reshape(-1)[0]) if hasattr(e, "length") else 0.0 for e in els)
    return _LEN[code]


def real_items(nx: dict):
    p = F.workdir() / "layout_corr.txt"
    p.write_text(F.nx_text(nx))
    try:
        with contextlib.redirect_stdout(io.StringIO()):
            seg = cheetah.Segment.from_nx_tables(str(p))
    except AssertionError as ex:
        if "overlap" in str(ex):
            return None
        raise
    out = []
    for e in F.flatten(seg):
        L = float(torch.as_tensor(getattr(e, "length", 0.0)).reshape(-1)[0]) if hasattr(e, "length") else 0.0
        out.append((isinstance(e, cheetah.Drift) and str(e.name).startswith("DRIFT_"), L))
    return out


def run_nx_correspondence(ctx, prop: str, n: int) -> None:
    rep, rng = ctx.report, ctx.rng
    drv = LeanDriver()
    cases = []
    for _ in range(n):
        nx = F.gen_nx(rng)
        nx["rows"] = [r for r in nx["rows"] if r["cls"] != "MCXG"]
        rows = sorted([r for r in nx["rows"] if r["cls"] not in F.NX_IGNORED], key=lambda r: r["z"])
        if not rows:
            continue
        if rng.random() < 0.15 and len(rows) > 1:      # a genuine overlap: the importer must refuse
            k = int(rng.integers(1, len(rows)))
            rows[k]["z"] = round(rows[k - 1]["z"] + 1e-3, 6) if class_length(rows[k]["cls"]) + class_length(rows[k - 1]["cls"]) > 0.01 else rows[k]["z"]
            rows = sorted(rows, key=lambda r: r["z"])
        try:
            real = real_items(nx)
        except Exception as ex:  # noqa: BLE001  anything but the modelled assertion is the falsifier's business
            rep.count(f"nx:exception:{type(ex).__name__}")
            continue
        args = []
        for r in rows:
            args += [float(r["z"]), class_length(r["cls"])]
        cases.append((nx, rows, real, drv.call("nxfill", *args)))
    replies = drv.run()
    for nx, rows, real, idx in cases:
        out = replies[idx]
        rep.corr_cases += 1
        span = abs(rows[-1]["z"] - rows[0]["z"])
        tol = 2e-6 * (1.0 + span)
        gaps = [b["z"] - a["z"] - class_length(a["cls"]) / 2 - class_length(b["cls"]) / 2 for a, b in zip(rows[:-1], rows[1:])]
        borderline = any(abs(g) <= tol for g in gaps)
        model = None if (isinstance(out, list) and len(out) == 1 and out[0] == -1.0) else \
            [(out[i] == 1.0, out[i + 1]) for i in range(0, len(out), 2)]
        rep.count("nx:" + ("model-rejects" if model is None else "accepted") + ("|borderline" if borderline else ""))
        rep.case(("nxfill", len(rows), model is None, borderline), None)

        def norm(items):
            return [(d, L) for d, L in items if not (d and abs(L) <= tol)]
        ok = True
        if model is None or real is None:
            ok = (model is None and real is None) or borderline
        else:
            a, b = norm(model), norm(real)
            ok = len(a) == len(b) and all(x[0] == y[0] and abs(x[1] - y[1]) <= tol for x, y in zip(a, b))
        if not ok:
            ctx.escalate = True
            rep.fail("correspondence", f"{prop}|model-mismatch|nx drift filling",
                     f"from_nx_tables rows {[(r['name'], r['cls'], r['z']) for r in rows]}: code {'rejects (overlap)' if real is None else real} "
                     f"model {'rejects (overlap)' if model is None else model}"[:900],
                     {"kind": "nxfill", "nx": nx, "code": real, "model": model,
                      "broken": "correspondence converters/nxtables.py drift filling <-> CheetahModel.Nx; theorems "
                                "C13.nx_centres_at_tabulated_positions / nx_accepts_iff_no_overlap no longer speak about this code"},
                     found_input=False)
