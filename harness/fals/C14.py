"""C14 falsifier — Segment.to_lattice_json / from_lattice_json round trip.

Oracle: the segment that was saved (built from a parameter record), the constructor signatures read with `inspect`
(NOT `defining_features`), a strict JSON parser, and the documented top-level layout.
"""
from __future__ import annotations

import copy
import inspect
import json
import os
import tempfile
from typing import Optional

import numpy as np
import torch

import cheetah
from fals import _full as FU

META = {
    "rule": "case = random segment (1..7 uniquely named leaves drawn from all 16 element classes, every constructor "
            "parameter non-default with probability 1 / 0.5, scalar or batched float32 values, infinite apertures) nested "
            "to depth <= 3 with sub-segments forced to first / middle / last position (sometimes empty), random title; "
            "distinct = distinct (nesting shape with classes, which parameters are set, which are batched)",
    "assumptions": [
        "float32 segments only (the property's quantifier); parameter values must come back bitwise, except "
        "RBend.rbend_e1/e2 which the code stores as e + angle/2: 8 float32 ulps of max(|e|,|angle|)",
        "an int / tuple that comes back as an integer tensor with the same entries is the same value (no alarm); a "
        "bool or str must come back as bool / str",
        "tracking of the loaded segment vs the saved one: 1e-5 relative to the beam size per coordinate in float32 (equal "
        "parameters give bitwise equal results; a lost parameter changes the result by >= 1e-3)",
        "valid JSON = RFC 8259 (the tokens Infinity / NaN are not JSON)",
    ],
}

LAYOUT = ["version", "title", "info", "root", "elements", "lattices"]
DT = FU.F32
EPS32 = 2.0 ** -23


class Rejected(Exception):
    pass


# ------------------------------------------------------------------------------------------------
# one round trip
# ------------------------------------------------------------------------------------------------
def family(sig: str) -> str:
    """failures of one family are the same defect seen on different lattices (used while shrinking)"""
    parts = sig.split("|")
    if parts[1] in ("structure", "layout", "track", "reading"):
        return "|".join(parts[:2])
    if parts[1] in ("save", "load"):
        return "|".join(parts[:2] + parts[3:4])          # the exception type; the culprit is found by shrinking
    return "|".join(parts[:3])


def _strict_loads(text: str):
    def bad(tok):
        raise ValueError(f"non-JSON token {tok}")
    return json.loads(text, parse_constant=bad)


def _nonfinite_culprit(text: str) -> str:
    """classes of the elements whose saved parameters contain Infinity / NaN (read with python's lenient parser)"""
    try:
        doc = json.loads(text)
        cl = sorted({v[0] for v in doc["elements"].values()
                     if any(isinstance(x, float) and not np.isfinite(x) for q in v[1].values() for x in FU._flat(q))})
        return ",".join(cl) or "?"
    except Exception:
        return "?"


def _attr_tol(el, p: str):
    if type(el).__name__ == "RBend" and p in ("rbend_e1", "rbend_e2"):
        sc = float(torch.max(torch.abs(el.angle))) + float(torch.max(torch.abs(getattr(el, p))))
        return dict(ulps=8.0, eps=EPS32, scale=sc)
    return {}


def readings(seg) -> dict:
    out = {}
    for path, el in FU.walk(seg):
        if isinstance(el, (cheetah.Screen, cheetah.BPM)) and el.is_active:
            try:
                out[".".join(path)] = (type(el).__name__, el.reading)
            except Exception as ex:
                out[".".join(path)] = (type(el).__name__, "exception " + type(ex).__name__)
    return out


def _find_rec(recs: list, name: str):
    for r in recs:
        if r["cls"] == "Segment":
            f = _find_rec(r["elements"], name)
            if f is not None:
                return f
        elif r["name"] == name:
            return r
    return None


def roundtrip(recs: list, root: str, En: float, P, title: Optional[str] = None, info: Optional[str] = None,
              only: Optional[str] = None) -> list:
    """all failures [(signature, what)] of one save/load round trip (`only`: stop at / filter for this signature)"""
    fails: list = []

    def add(sig, what):
        if only is None or family(sig) == only:
            fails.append((sig, what))

    rec = {"cls": "Segment", "name": root, "elements": recs}
    try:
        seg = FU.build_full(rec, DT)
    except Exception as ex:      # cheetah rejects the configuration itself: not a statement about LatticeJSON
        raise Rejected(type(ex).__name__) from ex
    # leaves marked "trainable": the listed settings are re-defined as torch.nn.Parameter after construction, the way the
    # documentation sets up gradient-based tuning; saving must leave them trainable
    for path, el in FU.walk(seg):
        r = _find_rec(recs, el.name)
        for attr in (r or {}).get("trainable", []):
            v = getattr(el, attr, None)
            if isinstance(v, torch.Tensor) and v.is_floating_point() and not isinstance(v, torch.nn.Parameter):
                try:
                    setattr(el, attr, torch.nn.Parameter(v.detach().clone()))
                except Exception:  # noqa: BLE001  (settings that are properties over other buffers cannot be re-registered)
                    pass
    snap = FU.Snapshot(seg)
    struct0 = FU.structure(seg)
    fd, fn = tempfile.mkstemp(suffix=".json", prefix="c14_", dir="/tmp")
    os.close(fd)
    try:
        kw = {}
        if title is not None:
            kw["title"] = title
        if info is not None:
            kw["info"] = info
        # ---- clause: saving works for every segment
        try:
            seg.to_lattice_json(fn, **kw)
        except Exception as ex:
            culprit = _save_culprit(recs)
            add(f"C14|save|{culprit}|exception:{type(ex).__name__}", f"to_lattice_json raised {type(ex).__name__}: {ex}")
            return fails
        # ---- clause: saving does not alter the segment
        d = snap.diff(seg)
        if d is None and FU.structure(seg) != struct0:
            d = ("structure", "structure", "nesting / order / names changed")
        if d is not None:
            add(f"C14|save-alters-segment|{FU.field_class(seg, d[0])}|{d[1]}", "to_lattice_json modified the segment: " + d[2])
        with open(fn) as f:
            text = f.read()
        # ---- clause: the file is valid JSON
        try:
            doc = _strict_loads(text)
        except ValueError as ex:
            add(f"C14|file|non-finite parameter of {_nonfinite_culprit(text)}|invalid-JSON",
                f"the written file is not valid JSON (RFC 8259): {ex}")
            try:
                doc = json.loads(text)
            except ValueError as ex2:
                add("C14|file|python-json|unreadable", f"json.loads cannot read the file: {ex2}")
                return fails
        # ---- clause: documented top-level layout
        lay = _layout_problem(doc, seg, title, info)
        if lay:
            add(f"C14|layout|{lay[0]}", lay[1])
        # ---- clause: loading returns a segment ...
        try:
            seg2 = cheetah.Segment.from_lattice_json(fn)
        except Exception as ex:
            culprit = _load_culprit(recs)
            add(f"C14|load|{culprit}|exception:{type(ex).__name__}", f"from_lattice_json raised {type(ex).__name__}: {ex}")
            return fails
    finally:
        try:
            os.remove(fn)
        except OSError:
            pass
    # ---- ... with the same nesting structure, element order, names, element types
    if not isinstance(seg2, cheetah.Segment) or seg2.name != seg.name:
        add("C14|structure|root|name", f"root {getattr(seg2, 'name', None)!r} vs {seg.name!r}")
    s2 = FU.structure(seg2)
    if s2 != struct0:
        add(f"C14|structure|{_structure_predicate(recs)}|names-types-order",
            f"loaded structure {FU._short(s2, 160)} vs saved {FU._short(struct0, 160)}")
        return fails
    # ---- ... and parameter values: every constructor-settable attribute
    for (path, a), (_, b) in zip(FU.walk(seg), FU.walk(seg2)):
        if isinstance(a, cheetah.Segment):
            continue
        for p in FU.ctor_params(type(a)):
            if not hasattr(a, p):
                continue
            if not hasattr(b, p):
                add(f"C14|value|{type(a).__name__}.{p}|missing", f"{'.'.join(path)}.{p} missing after load")
                continue
            dv = FU.value_diff(getattr(a, p), getattr(b, p), **_attr_tol(a, p))
            if dv:
                kind = "dtype" if dv.startswith("dtype") else "value"
                add(f"C14|value|{type(a).__name__}.{p}|{kind}", f"{'.'.join(path)}.{p}: saved vs loaded {dv}")
    # ---- hence identical tracking
    for bt in ("ParticleBeam", "ParameterBeam"):
        if not FU.trackable(recs, bt):
            continue
        o1, e1 = FU.safe_track(seg, FU.make_beam(bt, P, En, DT))
        r1 = readings(seg)
        o2, e2 = FU.safe_track(seg2, FU.make_beam(bt, P, En, DT))
        r2 = readings(seg2)
        if e1 != e2:
            add(f"C14|track|{_track_culprit(recs, En, P, bt)}|{bt}|exception", f"saved segment: {e1 or 'tracks'}; loaded segment: {e2 or 'tracks'}")
            continue
        if o1 is None:
            continue
        dd = FU.beams_differ(o1, o2, rtol=1e-5)
        if dd:
            add(f"C14|track|{_track_culprit(recs, En, P, bt)}|{bt}|{FU.observable(dd).split("[")[0]}", f"loaded segment tracks differently: {dd}")
        for k in r1:
            (c, a), (_, b) = r1[k], r2.get(k, (None, None))
            same = (a == b) if isinstance(a, str) or isinstance(b, str) else _reading_equal(a, b)
            if not same:
                add(f"C14|reading|{c}|{bt}", f"{k}.reading differs after the round trip: {FU._short(FU.plain(a), 60)} vs {FU._short(FU.plain(b), 60)}")
    return fails


def _reading_equal(a, b) -> bool:
    if a is None or b is None:
        return a is None and b is None
    if a.shape != b.shape or a.dtype != b.dtype:
        return False
    sc = float(torch.nan_to_num(a.abs()).max()) if a.numel() else 0.0
    return bool(torch.all(torch.nan_to_num((a - b).abs()) <= 1e-4 * max(sc, 1e-300)))


def _layout_problem(doc, seg, title, info):
    if not isinstance(doc, dict):
        return ("top-level", "top level is not an object")
    if sorted(doc) != sorted(LAYOUT):
        return ("keys", f"top-level keys {sorted(doc)} vs documented {sorted(LAYOUT)}")
    if not isinstance(doc["version"], str):
        return ("version", f"version {doc['version']!r}")
    if doc["root"] != seg.name:
        return ("root", f"root {doc['root']!r} vs segment name {seg.name!r}")
    if doc["title"] != (title if title is not None else seg.name):
        return ("title", f"title {doc['title']!r}")
    if info is not None and doc["info"] != info:
        return ("info", f"info {doc['info']!r}")
    if not isinstance(doc["info"], str):
        return ("info", f"info {doc['info']!r}")
    el, la = doc["elements"], doc["lattices"]
    if not isinstance(el, dict) or not isinstance(la, dict) or doc["root"] not in la:
        return ("elements-lattices", "elements / lattices are not objects or the root is not a lattice")
    leaf_names = [e.name for e in FU.real_leaves(seg)]
    if sorted(el) != sorted(leaf_names):
        return ("elements", f"element names {sorted(el)} vs {sorted(leaf_names)}")
    for k, v in el.items():
        if not (isinstance(v, list) and len(v) == 2 and isinstance(v[0], str) and isinstance(v[1], dict)):
            return ("element-entry", f"elements[{k!r}] = {FU._short(v)} is not [type, {{parameters}}]")
    for k, v in la.items():
        if not isinstance(v, list) or any(not isinstance(x, str) or (x not in el and x not in la) for x in v):
            return ("lattice-entry", f"lattices[{k!r}] = {FU._short(v)} refers to unknown names")
    return None


def _structure_predicate(recs) -> str:
    """where the sub-segments sit (stable): sub-segment(first|middle|last|only), depth"""
    pos = set()

    def rec(rs, depth):
        for i, r in enumerate(rs):
            if r["cls"] == "Segment":
                where = "only" if len(rs) == 1 else ("first" if i == 0 else ("last" if i == len(rs) - 1 else "middle"))
                pos.add(where + ("-empty" if not r["elements"] else ""))
                rec(r["elements"], depth + 1)
    rec(recs, 0)
    return "sub-segment(" + ",".join(sorted(pos)) + ")" if pos else "flat"


def _single(recs, pred) -> str:
    """class (with the set non-tensor options) of the first leaf for which the one-element lattice still fails"""
    try:
        if pred([]):
            return "any-lattice"
    except Exception:
        pass
    for r in FU.leaves(recs):
        try:
            if pred([r]):
                return r["cls"]
        except Exception:
            continue
    return _structure_predicate(recs)


def _save_culprit(recs) -> str:
    def pred(rs):
        fd, fn = tempfile.mkstemp(suffix=".json", prefix="c14_", dir="/tmp")
        os.close(fd)
        try:
            FU.build_full({"cls": "Segment", "name": "root", "elements": rs}, DT).to_lattice_json(fn)
            return False
        except Exception:
            return True
        finally:
            os.remove(fn)
    return _single(recs, pred)


def _load_culprit(recs) -> str:
    def pred(rs):
        fd, fn = tempfile.mkstemp(suffix=".json", prefix="c14_", dir="/tmp")
        os.close(fd)
        try:
            FU.build_full({"cls": "Segment", "name": "root", "elements": rs}, DT).to_lattice_json(fn)
            cheetah.Segment.from_lattice_json(fn)
            return False
        except Exception:
            return True
        finally:
            os.remove(fn)
    return _single(recs, pred)


def _track_culprit(recs, En, P, bt) -> str:
    def pred(rs):
        fd, fn = tempfile.mkstemp(suffix=".json", prefix="c14_", dir="/tmp")
        os.close(fd)
        try:
            s1 = FU.build_full({"cls": "Segment", "name": "root", "elements": rs}, DT)
            s1.to_lattice_json(fn)
            s2 = cheetah.Segment.from_lattice_json(fn)
        finally:
            os.remove(fn)
        o1, e1 = FU.safe_track(s1, FU.make_beam(bt, P, En, DT))
        o2, e2 = FU.safe_track(s2, FU.make_beam(bt, P, En, DT))
        return e1 != e2 or (o1 is not None and FU.beams_differ(o1, o2, rtol=1e-5) is not None)
    return _single(recs, pred)


# ------------------------------------------------------------------------------------------------
# generation
# ------------------------------------------------------------------------------------------------
def gen_case(rng, mode: str) -> dict:
    """mode: 'class' (one class, everything non-default), 'lattice' (random mix)"""
    classes = FU.LEAF_CLASSES
    if mode == "class":
        cls = classes[int(rng.integers(len(classes)))]
        n = int(rng.integers(1, 4))
        kinds = [cls] + [classes[int(rng.integers(len(classes)))] for _ in range(n - 1)]
    else:
        n = int(rng.integers(1, 8))
        kinds = [classes[int(rng.integers(len(classes)))] for _ in range(n)]
    order = rng.permutation(len(kinds))
    recs = []
    for j, i in enumerate(order):
        cls = kinds[int(i)]
        p_set = 1.0 if (mode == "class" and int(i) == 0) or rng.random() < 0.5 else 0.5
        vector = 3 if rng.random() < 0.3 else None
        nm = f"{cls[:4].lower()}_{j}"
        if rng.random() < 0.2:      # names JSON has to escape (Bmad super-slave names contain a backslash) or non-ASCII
            nm = FU.pick(rng, "Q1\\B2", 'D"0', "d\\n1", "tab\there", "ä_µ", "a b", "x/y", "it's") + f"_{j}"
        r = FU.gen_full(rng, cls, nm, p_set=p_set, vector=vector)
        if rng.random() < 0.25:     # a setting re-defined as torch.nn.Parameter after construction (gradient-based tuning)
            floats = [k for k, v in r["args"].items() if isinstance(v, float) or
                      (isinstance(v, list) and v and all(isinstance(x, float) for x in v))]
            if floats:
                r["trainable"] = [floats[int(rng.integers(len(floats)))]]
        if cls == "Aperture" and rng.random() < 0.3:
            r["args"][FU.pick(rng, "x_max", "y_max")] = float("inf")     # the documented default: no limit in that plane
        if cls == "TransverseDeflectingCavity" and rng.random() < 0.7:
            r["args"].pop("tracking_method", None)                       # the only method that can track
        if cls in ("Dipole", "RBend") and r["args"].get("tracking_method") == "bmadx" and rng.random() < 0.5:
            r["args"]["tracking_method"] = "cheetah"
        recs.append(r)
    # nesting: random, and a forced sub-segment position
    recs = FU.nest_full(rng, recs, p=float(FU.pick(rng, 0.0, 0.2, 0.45)))
    force = FU.pick(rng, None, "first", "middle", "last", "empty-first", "empty-last", "deep")
    cnt = [100]

    def wrap(rs):
        cnt[0] += 1
        return {"cls": "Segment", "name": f"sub{cnt[0]}" if rng.random() < 0.8 else f"arc\\{cnt[0]}", "elements": rs}
    if force == "first" and recs:
        recs = [wrap(recs[:1])] + recs[1:]
    elif force == "last" and recs:
        recs = recs[:-1] + [wrap(recs[-1:])]
    elif force == "middle" and len(recs) >= 3:
        k = int(rng.integers(1, len(recs) - 1))
        recs = recs[:k] + [wrap(recs[k:k + 1])] + recs[k + 1:]
    elif force == "empty-first":
        recs = [wrap([])] + recs
    elif force == "empty-last":
        recs = recs + [wrap([])]
    elif force == "deep" and recs:
        recs = [wrap([wrap([wrap(recs[:1])])])] + recs[1:]
    title = FU.pick(rng, None, None, "My lattice", "täst \"quoted\"")
    info = FU.pick(rng, None, None, "some info")
    return {"kind": "roundtrip", "records": recs, "root": FU.pick(rng, "root", "cell", "ARES ea"), "title": title,
            "info": info, "energy": float(np.exp(rng.uniform(np.log(2e7), np.log(2e9)))),
            "particles": FU.gen_particles(rng, 12).tolist()}


def case_key(case) -> tuple:
    def k(rs):
        return tuple(("[", k(r["elements"]), "]") if r["cls"] == "Segment" else
                     (r["cls"], tuple(sorted(r["args"])), tuple(sorted(p for p, v in r["args"].items()
                                                                         if FU.is_batched(r["cls"], p, v))))
                     for r in rs)
    return k(case["records"])


# ------------------------------------------------------------------------------------------------
# shrinking + reporting
# ------------------------------------------------------------------------------------------------
def _run_case(case, only=None):
    return roundtrip(case["records"], case["root"], case["energy"], np.array(case["particles"]), case.get("title"),
                     case.get("info"), only=only)


def shrink_case(case: dict, sig: str) -> dict:
    fam = family(sig)

    def fails_with(recs):
        c = dict(case, records=recs)
        return any(family(s) == fam for s, _ in _run_case(c, only=fam))
    recs = FU.shrink_tree(case["records"], fails_with, max_steps=80)
    # drop arguments / batches that are not needed
    recs = copy.deepcopy(recs)
    for leaf in FU.leaves(recs):
        for p in list(leaf["args"]):
            saved = leaf["args"][p]
            sig_params = inspect.signature(getattr(cheetah, leaf["cls"]).__init__).parameters
            if p in sig_params and sig_params[p].default is not inspect.Parameter.empty:
                del leaf["args"][p]
                try:
                    if fails_with(recs):
                        continue
                except Exception:
                    pass
                leaf["args"][p] = saved
            if FU.is_batched(leaf["cls"], p, saved):
                leaf["args"][p] = saved[0]
                try:
                    if fails_with(recs):
                        continue
                except Exception:
                    pass
                leaf["args"][p] = saved
    return dict(case, records=recs, title=None if not sig.startswith("C14|layout") else case.get("title"),
                info=None if not sig.startswith("C14|layout") else case.get("info"))


def examine(rep, case: dict, do_shrink: bool = True) -> None:
    try:
        fl = _run_case(case)
    except Rejected as ex:
        rep.count(f"case-rejected:{ex}")
        return
    # a lost / changed parameter or a changed structure explains every difference in tracking and read-outs
    if any(s.split("|")[1] in ("save", "load", "structure", "value") for s, _ in fl):
        fl = [(s, w) for s, w in fl if s.split("|")[1] not in ("track", "reading")]
    seen = set()
    for sig, what in fl:
        if family(sig) in seen:
            continue
        seen.add(family(sig))
        if any(f.signature == sig for f in rep.failures):
            rep.fail("falsifier", sig, what, {})
            continue
        small, what2 = case, what
        budget = rep.__dict__.setdefault("_c14_shrinks", {})
        budget[family(sig)] = budget.get(family(sig), 0) + 1
        if do_shrink and budget[family(sig)] > 4:         # this family was minimised several times already in this run
            rep.count("unshrunk-repeat:" + family(sig))
            continue
        if do_shrink:
            try:
                cand = shrink_case(case, sig)
                again = [(s, w) for s, w in _run_case(cand, only=family(sig))]
                if again:
                    small, (sig, what2) = cand, again[0]
            except Rejected:
                pass
        rep.fail("falsifier", sig, f"{what2}  [lattice {FU.shape_str(small['records'])}]", small)


def run(ctx) -> None:
    rep, rng = ctx.report, ctx.rng
    torch.set_num_threads(1)      # tiny tensors: threads only cost (and the machine may be shared)
    for cls in FU.LEAF_CLASSES:
        unk = FU.unknown_params(cls)
        if unk:
            rep.notes.append(f"{cls}: constructor parameters without a generator (compared at their defaults): {unk}")
    n_class, n_lat = ctx.n(250, 4000), ctx.n(350, 6000)
    for i in range(n_class + n_lat):
        case = gen_case(rng, "class" if i < n_class else "lattice")
        rep.fals_cases += 1
        for r in FU.leaves(case["records"]):
            rep.count(r["cls"])
        rep.count("shape:" + _structure_predicate(case["records"]))
        rep.case(case_key(case), {"lattice": FU.shape_str(case["records"]), "root": case["root"]} if i % 25 == 0 else None)
        examine(rep, case)


def corpus_case(ctx, r: dict) -> None:
    if r.get("kind") == "roundtrip":
        torch.set_num_threads(1)
        ctx.report.fals_cases += 1
        examine(ctx.report, r, do_shrink=False)
