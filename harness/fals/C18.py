"""C18 falsifier — coordinate conversions are mutually inverse and match the documented definitions.

Code under test: `cheetah.utils.bmadx.cheetah_to_bmad_z_pz / bmad_to_cheetah_z_pz / cheetah_to_bmad_coords /
bmad_to_cheetah_coords`, `ParticleBeam.to_xyz_pxpypz / from_xyz_pxpypz`, `ParticleBeam.energies / momenta`,
`Beam.p0c / relativistic_gamma / relativistic_beta`.

Oracle: mpmath (50 digits) evaluation of the definitions of docs/coordinate_system.md
    delta = (E - E0)/(p0 c),  tau = c*dt (head at tau < 0),  z = -beta*tau,  pz = (p - p0)/p0,
    E^2 = (pc)^2 + (mc^2)^2,  P_x = px*p0, P_y = py*p0, z_SI = -beta0*tau, P_z = sqrt(P^2 - P_x^2 - P_y^2)
on the *exact* (dtype-rounded) inputs that are handed to the code.

Tolerance (derived): every quantity is a composition of a few correctly rounded operations and of
sqrt(E^2 - m^2) whose relative condition number is 1/beta^2; differences such as p - p0 and E - E0 are absolute
errors relative to p0 resp. p0c.  An error is therefore measured in units of  u / beta_min^2  (u = eps of the
working dtype, beta_min = smallest velocity among the reference particle and the particles)
relative to |v| for z, tau, momenta, energies and relative to (1 + |v|) for pz and delta.  On the clean formulas the
worst observed value is 2.6 units (both dtypes; float32 at energies where nothing underflows); the threshold
is 400 units = 9e-14/beta^2 in float64.
"""
from __future__ import annotations

import numpy as np
import torch
from mpmath import mp, mpf, sqrt as msqrt
from scipy import constants as _sc
from scipy.constants import physical_constants as _pc

import cheetah
from cheetah.utils import bmadx

mp.dps = 50
torch.set_num_threads(1)

MC2 = _pc["electron mass energy equivalent in MeV"][0] * 1e6     # eV (python double, same number cheetah uses)
M_E = _sc.electron_mass                                           # kg
C = _sc.speed_of_light                                            # m/s
DT = {"float32": torch.float32, "float64": torch.float64}
UNITS = 400.0            # threshold in units of u/beta_min^2 (see module docstring)

META = {
    "rule": "case = (dtype in {float32,float64}) x (reference energy regime: near-rest 0.6-2 MeV / low 2-50 MeV / high "
            "0.05-20 GeV) x (delta regime: small 1e-3, large up to +-0.3, exact zeros) x (batch shape () or (2,)) x "
            "conversion in {cheetah->bmad z/pz, bmad->cheetah z/pz, coords variants, to_xyz_pxpypz, from_xyz_pxpypz, "
            "energies/momenta/p0c/gamma/beta}; every particle has total energy >= 1.05 mc^2; distinct = distinct "
            "(conversion, dtype, energy regime, delta regime, batch shape)",
    "assumptions": [
        "tolerance 400 * eps(dtype) / beta_min^2, relative to |v| (z, tau, momenta, energies) or to 1+|v| (pz, delta); "
        "measured round-off of the clean formulas <= 4 of these units",
        "mpmath 50 digits evaluates the documented definitions on the dtype-rounded inputs; physical constants are the "
        "scipy CODATA doubles that cheetah imports",
        "float32: SI momenta squared (~1e-42 kg^2 m^2/s^2 below 200 MeV) are subnormal in float32; cases with "
        "(gamma m c)^2 < 1.2e-38 are classified separately (predicate p2-subnormal)",
    ],
}


# ------------------------------------------------------------------------------------------------
# generation
# ------------------------------------------------------------------------------------------------
def _gen_energy(rng, regime: str) -> float:
    if regime == "near-rest":
        return float(np.exp(rng.uniform(np.log(0.6e6), np.log(2e6))))
    if regime == "low":
        return float(np.exp(rng.uniform(np.log(2e6), np.log(5e7))))
    return float(np.exp(rng.uniform(np.log(5e7), np.log(2e10))))


def _round(a, dtype):
    """dtype-rounded copy as float64 numpy (the exact numbers the code receives)"""
    return torch.tensor(np.asarray(a, dtype=float), dtype=torch.float64).to(dtype).to(torch.float64).numpy()


def gen_case(rng, dtype_name: str, regime: str, dregime: str, batch: tuple, n: int = 6) -> dict:
    """particles in Cheetah coordinates (batch..., n, 7) and reference energies (batch...), dtype-rounded"""
    dtype = DT[dtype_name]
    E0 = np.array([_gen_energy(rng, regime) for _ in range(int(np.prod(batch, dtype=int)))]).reshape(batch)
    E0 = _round(E0, dtype)
    P = np.zeros(batch + (n, 7))
    P[..., 6] = 1.0
    P[..., 0] = rng.normal(size=batch + (n,)) * 3e-4
    P[..., 2] = rng.normal(size=batch + (n,)) * 3e-4
    pscale = 2e-3 if dregime != "large" else 3e-2
    P[..., 1] = rng.normal(size=batch + (n,)) * pscale
    P[..., 3] = rng.normal(size=batch + (n,)) * pscale
    P[..., 4] = rng.normal(size=batch + (n,)) * float(np.exp(rng.uniform(np.log(1e-5), np.log(1e-2))))
    if dregime == "small":
        d = rng.normal(size=batch + (n,)) * 1e-3
    elif dregime == "large":
        d = rng.uniform(-0.3, 0.3, size=batch + (n,))
    else:  # zeros: on-energy particles, tau = 0 particles
        d = rng.normal(size=batch + (n,)) * 1e-3
        d[..., 0] = 0.0
        P[..., 1, 4] = 0.0
        if n >= 3:
            P[..., 2, 1] = 0.0
            P[..., 2, 3] = 0.0
    # physical energies only: E = E0 + delta*p0c >= 1.05 mc^2 (away from the edge E = mc^2 the statement excludes)
    p0c = np.sqrt(E0 ** 2 - MC2 ** 2)
    dmin = (1.05 * MC2 - E0) / p0c
    d = np.maximum(d, dmin[..., None] + 1e-3 * np.abs(dmin[..., None]))
    P[..., 5] = d
    P = _round(P, dtype)
    return {"dtype": dtype_name, "regime": regime, "dregime": dregime, "batch": list(batch),
            "energy": E0.tolist(), "particles": P.tolist()}


# ------------------------------------------------------------------------------------------------
# mpmath oracle (definitions), per particle
# ------------------------------------------------------------------------------------------------
def mp_ref(E0: float) -> dict:
    E0 = mpf(E0)
    m = mpf(MC2)
    p0c = msqrt(E0 ** 2 - m ** 2)
    g0 = E0 / m
    b0 = p0c / E0
    return {"E0": E0, "p0c": p0c, "gamma0": g0, "beta0": b0, "p0_SI": b0 * g0 * mpf(M_E) * mpf(C)}


def mp_cheetah_to_bmad(tau: float, delta: float, E0: float) -> dict:
    """delta = (E-E0)/p0c  =>  E;  p from E^2 = (pc)^2 + m^2;  z = -beta tau;  pz = (p-p0)/p0"""
    r = mp_ref(E0)
    E = r["E0"] + mpf(delta) * r["p0c"]
    p = msqrt(E ** 2 - mpf(MC2) ** 2)
    beta = p / E
    return {"z": -beta * mpf(tau), "pz": (p - r["p0c"]) / r["p0c"], "p0c": r["p0c"], "E": E, "pc": p, "beta": beta}


def mp_bmad_to_cheetah(z: float, pz: float, p0c: float) -> dict:
    m = mpf(MC2)
    p0c = mpf(p0c)
    E0 = msqrt(p0c ** 2 + m ** 2)
    p = (1 + mpf(pz)) * p0c
    E = msqrt(p ** 2 + m ** 2)
    beta = p / E
    return {"tau": -mpf(z) / beta, "delta": (E - E0) / p0c, "E0": E0, "beta": beta}


def mp_to_xyz(row, E0: float) -> dict:
    """SI positions and momenta of one Cheetah particle"""
    r = mp_ref(E0)
    x, px, y, py, tau, delta = [mpf(float(v)) for v in row[:6]]
    E = r["E0"] + delta * r["p0c"]                      # eV
    gamma = E / mpf(MC2)
    P = msqrt(gamma ** 2 - 1) * mpf(M_E) * mpf(C)       # total momentum, kg m/s
    Px, Py = px * r["p0_SI"], py * r["p0_SI"]
    return {"x": x, "Px": Px, "y": y, "Py": Py, "z": -r["beta0"] * tau, "Pz": msqrt(P ** 2 - Px ** 2 - Py ** 2),
            "beta": msqrt(gamma ** 2 - 1) / gamma, "P": P}


def mp_from_xyz(row, E0: float) -> dict:
    r = mp_ref(E0)
    x, Px, y, Py, z, Pz = [mpf(float(v)) for v in row[:6]]
    P = msqrt(Px ** 2 + Py ** 2 + Pz ** 2)
    gamma = msqrt(1 + (P / (mpf(M_E) * mpf(C))) ** 2)
    E = gamma * mpf(MC2)
    return {"x": x, "px": Px / r["p0_SI"], "y": y, "py": Py / r["p0_SI"], "tau": -z / r["beta0"],
            "delta": (E - r["E0"]) / r["p0c"], "beta": msqrt(gamma ** 2 - 1) / gamma}


# ------------------------------------------------------------------------------------------------
# comparison
# ------------------------------------------------------------------------------------------------
def units(code: float, ref, mode: str, u: float, bmin: float) -> float:
    """error in units of u/beta_min^2; mode 'rel' -> relative to |ref|, 'one' -> relative to 1+|ref|"""
    ref_f = float(ref)
    if not np.isfinite(code):
        return float("inf")
    err = abs(float(mpf(float(code)) - ref))
    den = abs(ref_f) if mode == "rel" else 1.0 + abs(ref_f)
    if den == 0.0:
        return 0.0 if err == 0.0 else float("inf")
    return err / den * bmin ** 2 / u


class Cmp:
    """collects the worst deviation per observable for one case"""

    def __init__(self, u: float):
        self.u = u
        self.worst: dict = {}

    def add(self, name: str, code: float, ref, mode: str, bmin: float, idx=None) -> None:
        k = units(code, ref, mode, self.u, bmin)
        w = self.worst.get(name)
        if w is None or k > w[0]:
            self.worst[name] = (k, float(code), float(ref), idx)

    def exact(self, name: str, ok: bool, detail: str) -> None:
        if not ok:
            self.worst[name] = (float("inf"), detail, "", None)

    def bad(self) -> list:
        return [(n, w) for n, w in self.worst.items() if not (w[0] <= UNITS)]


def _tt(a, dtype):
    return torch.tensor(np.asarray(a, dtype=float), dtype=dtype)


def _iter(batch):
    return list(np.ndindex(*batch)) if batch else [()]


def _p2_subnormal(case: dict) -> bool:
    """float32 only: (gamma m c)^2 below the smallest normal float32 for some reference energy"""
    if case["dtype"] != "float32":
        return False
    E0 = np.asarray(case["energy"], dtype=float)
    return bool(np.any((E0 / MC2 * M_E * C) ** 2 < 1.5e-38))


# ------------------------------------------------------------------------------------------------
# the checks; each returns a Cmp
# ------------------------------------------------------------------------------------------------
def check_zpz(case: dict) -> Cmp:
    """cheetah_to_bmad_z_pz forward vs definitions, bmad_to_cheetah_z_pz on the result returns the input"""
    dtype = DT[case["dtype"]]
    u = float(torch.finfo(dtype).eps)
    batch = tuple(case["batch"])
    P = np.asarray(case["particles"], dtype=float)
    E0 = np.asarray(case["energy"], dtype=float)
    tau, delta, en = _tt(P[..., 4], dtype), _tt(P[..., 5], dtype), _tt(E0, dtype)
    z, pz, p0c = bmadx.cheetah_to_bmad_z_pz(tau, delta, en, MC2)
    tau2, delta2, en2 = bmadx.bmad_to_cheetah_z_pz(z, pz, p0c, MC2)
    c = Cmp(u)
    c.exact("shape", tuple(z.shape) == P.shape[:-1] and tuple(pz.shape) == P.shape[:-1] and tuple(p0c.shape) == batch
            and tuple(tau2.shape) == P.shape[:-1] and tuple(en2.shape) == batch,
            f"shapes z{tuple(z.shape)} pz{tuple(pz.shape)} p0c{tuple(p0c.shape)} for particles{P.shape[:-1]}")
    if "shape" in c.worst:
        return c
    z, pz, p0c, tau2, delta2, en2 = [np.asarray(v.to(torch.float64).numpy()) for v in (z, pz, p0c, tau2, delta2, en2)]
    for b in _iter(batch):
        for i in range(P.shape[-2]):
            r = mp_cheetah_to_bmad(P[b + (i, 4)], P[b + (i, 5)], E0[b])
            bmin = min(float(r["beta"]), float(mp_ref(E0[b])["beta0"]))
            # z = -beta*tau, pz = (p - p0)/p0, p0c^2 = E0^2 - (mc^2)^2
            c.add("z", z[b + (i,)], r["z"], "rel", bmin, i)
            c.add("pz", pz[b + (i,)], r["pz"], "one", bmin, i)
            c.add("p0c", p0c[b], r["p0c"], "rel", bmin, i)
            # and back: original coordinates and reference energy
            c.add("roundtrip tau", tau2[b + (i,)], mpf(P[b + (i, 4)]), "rel", bmin, i)
            c.add("roundtrip delta", delta2[b + (i,)], mpf(P[b + (i, 5)]), "one", bmin, i)
            c.add("roundtrip ref_energy", en2[b], mpf(E0[b]), "rel", bmin, i)
    return c


def check_zpz_inverse(case: dict) -> Cmp:
    """start in Bmad coordinates: bmad_to_cheetah_z_pz vs definitions, and back"""
    dtype = DT[case["dtype"]]
    u = float(torch.finfo(dtype).eps)
    batch = tuple(case["batch"])
    P = np.asarray(case["particles"], dtype=float)
    E0 = np.asarray(case["energy"], dtype=float)
    # Bmad inputs: z := tau column, pz := delta column clipped to physical momenta, p0c from E0 (dtype-rounded)
    zin = _round(P[..., 4], dtype)
    pzin = _round(np.maximum(P[..., 5], -0.6), dtype)
    p0in = _round(np.sqrt(E0 ** 2 - MC2 ** 2), dtype)
    tau, delta, en = bmadx.bmad_to_cheetah_z_pz(_tt(zin, dtype), _tt(pzin, dtype), _tt(p0in, dtype), MC2)
    z2, pz2, p02 = bmadx.cheetah_to_bmad_z_pz(tau, delta, en, MC2)
    c = Cmp(u)
    tau, delta, en, z2, pz2, p02 = [np.asarray(v.to(torch.float64).numpy()) for v in (tau, delta, en, z2, pz2, p02)]
    for b in _iter(batch):
        for i in range(P.shape[-2]):
            r = mp_bmad_to_cheetah(zin[b + (i,)], pzin[b + (i,)], p0in[b])
            b0 = float(mpf(p0in[b]) / r["E0"])
            bmin = min(float(r["beta"]), b0)
            c.add("tau", tau[b + (i,)], r["tau"], "rel", bmin, i)
            c.add("delta", delta[b + (i,)], r["delta"], "one", bmin, i)
            c.add("ref_energy", en[b], r["E0"], "rel", bmin, i)
            c.add("roundtrip z", z2[b + (i,)], mpf(zin[b + (i,)]), "rel", bmin, i)
            c.add("roundtrip pz", pz2[b + (i,)], mpf(pzin[b + (i,)]), "one", bmin, i)
            c.add("roundtrip p0c", p02[b], mpf(p0in[b]), "rel", bmin, i)
    return c


def check_coords(case: dict) -> Cmp:
    """cheetah_to_bmad_coords / bmad_to_cheetah_coords: 6-vector with (x,px,y,py) untouched, z/pz per definition;
    back: 7-vector with trailing 1, original coordinates and reference energy"""
    dtype = DT[case["dtype"]]
    u = float(torch.finfo(dtype).eps)
    batch = tuple(case["batch"])
    P = np.asarray(case["particles"], dtype=float)
    E0 = np.asarray(case["energy"], dtype=float)
    coords = _tt(P, dtype)
    keep = coords.clone()
    bm, p0c = bmadx.cheetah_to_bmad_coords(coords, _tt(E0, dtype), MC2)
    back, en2 = bmadx.bmad_to_cheetah_coords(bm, p0c, MC2)
    c = Cmp(u)
    c.exact("input mutated", bool(torch.equal(coords, keep)), "cheetah_to_bmad_coords modified its input tensor")
    c.exact("shape", tuple(bm.shape) == P.shape[:-1] + (6,) and tuple(back.shape) == P.shape,
            f"shapes bmad{tuple(bm.shape)} back{tuple(back.shape)} for {P.shape}")
    if "shape" in c.worst:
        return c
    c.exact("transverse", bool(torch.equal(bm[..., :4], coords[..., :4]) and torch.equal(back[..., :4], coords[..., :4])),
            "x, px, y, py changed by the conversion")
    c.exact("ones column", bool(torch.all(back[..., 6] == 1.0)), "7th component of the Cheetah vector is not 1")
    bm, p0c, back, en2 = [np.asarray(v.to(torch.float64).numpy()) for v in (bm, p0c, back, en2)]
    for b in _iter(batch):
        for i in range(P.shape[-2]):
            r = mp_cheetah_to_bmad(P[b + (i, 4)], P[b + (i, 5)], E0[b])
            bmin = min(float(r["beta"]), float(mp_ref(E0[b])["beta0"]))
            c.add("z", bm[b + (i, 4)], r["z"], "rel", bmin, i)
            c.add("pz", bm[b + (i, 5)], r["pz"], "one", bmin, i)
            c.add("p0c", p0c[b], r["p0c"], "rel", bmin, i)
            c.add("roundtrip tau", back[b + (i, 4)], mpf(P[b + (i, 4)]), "rel", bmin, i)
            c.add("roundtrip delta", back[b + (i, 5)], mpf(P[b + (i, 5)]), "one", bmin, i)
            c.add("roundtrip ref_energy", en2[b], mpf(E0[b]), "rel", bmin, i)
    return c


def _beam(case: dict):
    dtype = DT[case["dtype"]]
    P = np.asarray(case["particles"], dtype=float)
    E0 = np.asarray(case["energy"], dtype=float)
    return cheetah.ParticleBeam(_tt(P, dtype), _tt(E0, dtype), dtype=dtype)


def check_to_xyz(case: dict) -> Cmp:
    """to_xyz_pxpypz vs the SI definitions; from_xyz_pxpypz on the result returns coordinates and energy"""
    dtype = DT[case["dtype"]]
    u = float(torch.finfo(dtype).eps)
    batch = tuple(case["batch"])
    P = np.asarray(case["particles"], dtype=float)
    E0 = np.asarray(case["energy"], dtype=float)
    beam = _beam(case)
    keep = beam.particles.clone()
    xp = beam.to_xyz_pxpypz()
    back = cheetah.ParticleBeam.from_xyz_pxpypz(xp, beam.energy, dtype=dtype)
    c = Cmp(u)
    c.exact("input mutated", bool(torch.equal(beam.particles, keep)), "to_xyz_pxpypz modified the beam")
    c.exact("shape", tuple(xp.shape) == P.shape and tuple(back.particles.shape) == P.shape,
            f"shapes xp{tuple(xp.shape)} back{tuple(back.particles.shape)} for {P.shape}")
    if "shape" in c.worst:
        return c
    c.exact("ones column", bool(torch.all(xp[..., 6] == 1.0) and torch.all(back.particles[..., 6] == 1.0)),
            "7th component is not 1")
    xp = np.asarray(xp.to(torch.float64).numpy())
    bp = np.asarray(back.particles.to(torch.float64).numpy())
    be = np.asarray(back.energy.to(torch.float64).numpy())
    names = ["x", "Px", "y", "Py", "z", "Pz"]
    cn = ["x", "px", "y", "py", "tau", "delta"]
    for b in _iter(batch):
        for i in range(P.shape[-2]):
            r = mp_to_xyz(P[b + (i,)], E0[b])
            bmin = min(float(r["beta"]), float(mp_ref(E0[b])["beta0"]))
            for k, nm in enumerate(names):
                c.add(nm, xp[b + (i, k)], r[nm], "rel", bmin, i)
            for k, nm in enumerate(cn):
                c.add("roundtrip " + nm, bp[b + (i, k)], mpf(P[b + (i, k)]), "one" if nm == "delta" else "rel", bmin, i)
            c.add("roundtrip energy", be[b], mpf(E0[b]), "rel", bmin, i)
    return c


def check_from_xyz(case: dict) -> Cmp:
    """start from SI coordinates (the exact conversion of the case, dtype-rounded): from_xyz_pxpypz vs the
    definitions, then to_xyz_pxpypz returns the SI coordinates"""
    dtype = DT[case["dtype"]]
    u = float(torch.finfo(dtype).eps)
    batch = tuple(case["batch"])
    P = np.asarray(case["particles"], dtype=float)
    E0 = np.asarray(case["energy"], dtype=float)
    X = np.ones_like(P)
    for b in _iter(batch):
        for i in range(P.shape[-2]):
            r = mp_to_xyz(P[b + (i,)], E0[b])
            X[b + (i,)][:6] = [float(r[k]) for k in ("x", "Px", "y", "Py", "z", "Pz")]
    X = _round(X, dtype)
    xin = _tt(X, dtype)
    keep = xin.clone()
    beam = cheetah.ParticleBeam.from_xyz_pxpypz(xin, _tt(E0, dtype), dtype=dtype)
    xp2 = beam.to_xyz_pxpypz()
    c = Cmp(u)
    c.exact("input mutated", bool(torch.equal(xin, keep)), "from_xyz_pxpypz modified its input tensor")
    bp = np.asarray(beam.particles.to(torch.float64).numpy())
    be = np.asarray(beam.energy.to(torch.float64).numpy())
    xp2 = np.asarray(xp2.to(torch.float64).numpy())
    cn = ["x", "px", "y", "py", "tau", "delta"]
    names = ["x", "Px", "y", "Py", "z", "Pz"]
    c.exact("ones column", bool(np.all(bp[..., 6] == 1.0)), "7th component is not 1")
    for b in _iter(batch):
        for i in range(P.shape[-2]):
            r = mp_from_xyz(X[b + (i,)], E0[b])
            bmin = min(float(r["beta"]), float(mp_ref(E0[b])["beta0"]))
            for k, nm in enumerate(cn):
                c.add(nm, bp[b + (i, k)], r[nm], "one" if nm == "delta" else "rel", bmin, i)
            c.add("energy", be[b], mpf(E0[b]), "rel", bmin, i)
            for k, nm in enumerate(names):
                c.add("roundtrip " + nm, xp2[b + (i, k)], mpf(X[b + (i, k)]), "rel", bmin, i)
    return c


def check_energies(case: dict) -> Cmp:
    """per-particle energies E = E0 + delta p0c, momenta with E^2 = (pc)^2 + (mc^2)^2, p0c, gamma, beta"""
    dtype = DT[case["dtype"]]
    u = float(torch.finfo(dtype).eps)
    batch = tuple(case["batch"])
    P = np.asarray(case["particles"], dtype=float)
    E0 = np.asarray(case["energy"], dtype=float)
    beam = _beam(case)
    en = np.asarray(beam.energies.to(torch.float64).numpy())
    mo = np.asarray(beam.momenta.to(torch.float64).numpy())
    p0c = np.asarray(beam.p0c.to(torch.float64).numpy())
    ga = np.asarray(beam.relativistic_gamma.to(torch.float64).numpy())
    be = np.asarray(beam.relativistic_beta.to(torch.float64).numpy())
    c = Cmp(u)
    c.exact("shape", en.shape == P.shape[:-1] and mo.shape == P.shape[:-1] and p0c.shape == batch,
            f"shapes energies{en.shape} momenta{mo.shape} p0c{p0c.shape} for {P.shape[:-1]}")
    if "shape" in c.worst:
        return c
    for b in _iter(batch):
        r0 = mp_ref(E0[b])
        for i in range(P.shape[-2]):
            r = mp_cheetah_to_bmad(P[b + (i, 4)], P[b + (i, 5)], E0[b])
            bmin = min(float(r["beta"]), float(r0["beta0"]))
            c.add("energies", en[b + (i,)], r["E"], "rel", bmin, i)
            c.add("momenta", mo[b + (i,)], r["pc"], "rel", bmin, i)
            # the relation itself, on the returned numbers
            c.add("E^2-(pc)^2-(mc^2)^2", float((mpf(float(en[b + (i,)])) ** 2 - mpf(float(mo[b + (i,)])) ** 2) /
                                               mpf(MC2) ** 2 / (mpf(float(en[b + (i,)])) / mpf(MC2)) ** 2),
                  mpf(1) / (mpf(float(en[b + (i,)])) / mpf(MC2)) ** 2, "one", 1.0, i)
        c.add("p0c", p0c[b], r0["p0c"], "rel", float(r0["beta0"]), None)
        c.add("relativistic_gamma", ga[b], r0["gamma0"], "rel", 1.0, None)
        c.add("relativistic_beta", be[b], r0["beta0"], "rel", float(r0["beta0"]), None)
    return c


CHECKS = {
    "bmadx.cheetah_to_bmad_z_pz": check_zpz,
    "bmadx.bmad_to_cheetah_z_pz": check_zpz_inverse,
    "bmadx.cheetah_to_bmad_coords": check_coords,
    "ParticleBeam.to_xyz_pxpypz": check_to_xyz,
    "ParticleBeam.from_xyz_pxpypz": check_from_xyz,
    "ParticleBeam.energies/momenta": check_energies,
}


# ------------------------------------------------------------------------------------------------
# examine one (check, case): shrink, classify, report
# ------------------------------------------------------------------------------------------------
def _run_check(name: str, case: dict):
    """-> list of (observable, description) that fail"""
    try:
        c = CHECKS[name](case)
    except Exception as ex:  # a conversion that raises on physical input does not return the coordinates
        return [("raises " + type(ex).__name__, f"{type(ex).__name__}: {str(ex)[:160]}")]
    out = []
    for obs, w in c.bad():
        if w[0] == float("inf") and isinstance(w[1], str):
            out.append((obs, w[1]))
        else:
            out.append((obs, f"{w[1]!r} vs definition {w[2]!r} ({w[0]:.3g} units of eps/beta^2; allowed {UNITS:g})"))
    return out


def _sub_case(case: dict, b, i) -> dict:
    """single batch entry, single particle"""
    P = np.asarray(case["particles"], dtype=float)
    E0 = np.asarray(case["energy"], dtype=float)
    return dict(case, batch=[], energy=float(E0[b]), particles=[P[b + (i,)].tolist()])


def _shrink(name: str, case: dict, obs: str) -> dict:
    """smallest input that still fails on the same observable: un-batch, one particle, transverse coordinates -> 0"""
    def fails(cand):
        return any(o == obs for o, _ in _run_check(name, cand))
    batch = tuple(case["batch"])
    P = np.asarray(case["particles"], dtype=float)
    best = case
    found = False
    for b in _iter(batch):
        for i in range(P.shape[-2]):
            cand = _sub_case(case, b, i)
            if fails(cand):
                best, found = cand, True
                break
        if found:
            break
    if found:
        row = list(best["particles"][0])
        for k in (0, 2, 1, 3, 4):
            if row[k] != 0.0:
                cand = dict(best, particles=[row[:k] + [0.0] + row[k + 1:]])
                if fails(cand):
                    best, row = cand, cand["particles"][0]
    return best


def examine(rep, name: str, case: dict, do_shrink: bool = True) -> None:
    bad = _run_check(name, case)
    if not bad:
        return
    pred = []
    if _p2_subnormal(case) and name.startswith("ParticleBeam.") and "xyz" in name:
        pred.append("p2-subnormal")
    for obs, desc in bad:
        small = _shrink(name, case, obs) if do_shrink else case
        d2 = dict(_run_check(name, small)).get(obs, desc)
        vect = "vectorised" if small["batch"] else "scalar"
        # exceptions and structural failures (shape, mutated input ...) do not depend on the dtype
        structural = obs.startswith("raises") or obs in ("shape", "ones column", "transverse", "input mutated")
        sig = "|".join(["C18", name, "any-dtype" if structural else case["dtype"]] + pred + [vect, obs])
        rep.fail("falsifier", sig,
                 f"{name} [{case['dtype']}, E0={small['energy']}, particle={small['particles'][0] if not small['batch'] else '...'}]"
                 f": {obs} = {d2}",
                 {"kind": "conversion", "check": name, "case": small, "observable": obs})


REGIMES = ["near-rest", "low", "high"]
DREGIMES = ["small", "large", "zeros"]


def run(ctx) -> None:
    rep, rng = ctx.report, ctx.rng

    def one(dtn, regime, dregime, batch, n, sample):
        case = gen_case(rng, dtn, regime, dregime, batch, n=n)
        for name in CHECKS:
            rep.fals_cases += 1
            rep.count(f"{name}:{dtn}")
            rep.count(f"regime:{regime}/{dregime}/{'batch' if batch else 'scalar'}")
            rep.case((name, dtn, regime, dregime, bool(batch), n == (batch or (0,))[0]),
                     {"check": name, "dtype": dtn, "E0": case["energy"], "delta": dregime} if sample else None)
            examine(rep, name, case)

    # deterministic grid first (every seed covers: both dtypes x energy regimes x delta regimes x scalar/vectorised,
    # including a vectorised beam with as many particles as batch entries), then random combinations
    for dtn in ("float64", "float32"):
        for k, regime in enumerate(REGIMES):
            one(dtn, regime, DREGIMES[k], (), 5, True)
            one(dtn, regime, DREGIMES[(k + 1) % 3], (2,), 2 if regime == "low" else 4, False)
    for _ in range(ctx.n(6, 300)):
        for dtn in ("float64", "float32"):
            regime = REGIMES[int(rng.integers(3))]
            dregime = DREGIMES[int(rng.integers(3))]
            batch = () if rng.random() < 0.6 else (2,)
            one(dtn, regime, dregime, batch, int(rng.integers(2, 7)), False)


def corpus_case(ctx, r: dict) -> None:
    if r.get("kind") == "conversion" and r.get("check") in CHECKS:
        ctx.report.fals_cases += 1
        examine(ctx.report, r["check"], r["case"], do_shrink=False)
