"""C16 falsifier — splitting an element preserves its length and its action.

Code under test: `Element.split(resolution)` of every element class and `Segment.split`.

Oracle (independent of `split`): a second, freshly built copy of the element (same parameter record) is tracked as a
whole; the pieces returned by `split` are tracked one after the other (a plain Python fold of `piece.track`).
Lengths / angles are compared with the numbers of the parameter record.

Clauses checked (property text):
  (a) the lengths of the pieces add up to the original length (element-wise for vectorised lengths);
  (b) no piece of a splittable type (Drift, Quadrupole, Horizontal/VerticalCorrector) is longer than the resolution;
  (c) every buffer of every piece has the dtype of the original (float32 and float64);
  (d) tracking through the pieces in order == tracking through the whole, for drifts and quadrupoles (both tracking
      methods, tilt, misalignment) and for every unsplittable element, which must return `[self]`;
  (e) correctors: the total deflection angle is preserved (sum of the piece angles, and the px kick seen by a beam);
  (f) Segment.split: ordered concatenation — same clauses on the lattice level.
Not demanded: a particular number of pieces, piece names, equality of corrector tracking beyond the total kick.
"""
from __future__ import annotations

import copy

import numpy as np
import torch

import cheetah
from cheetah.accelerator import Element
import elements as E
import lattices as LT

torch.set_num_threads(1)      # tiny matmuls: multi-threaded dispatch costs milliseconds per call on a loaded machine

F64 = torch.float64
DT = {"float32": torch.float32, "float64": torch.float64}
SPLITTABLE = ("Drift", "Quadrupole", "HorizontalCorrector", "VerticalCorrector")
TRACK_EQ = ("Drift", "Quadrupole")           # tracking of the pieces must equal the whole
RTOL_TRACK = 1e-9      # per coordinate, relative to max(|coordinate|, beam size); measured round-off <= 1e-12 (n <= 80 pieces)
RTOL_LEN = {"float64": 1e-12, "float32": 2e-5}   # sum of n <= 80 rounded quotients: <= n*eps/2 ~ 1e-14 / 5e-6

META = {
    "rule": "element case = parameter record of one of 24 element kinds (every class; Bmad-X drift/quadrupole/dipole, "
            "cavity on/off, active diagnostics, blocking screen, space charge, custom map, TDC) x length in {0, menu, "
            "uniform} scalar or vectorised (2-3 entries, optionally one zero) x resolution in {> length, = length, "
            "length/k exactly, non-dividing, decimal menu 0.1/0.25/0.3, many pieces <= 80, length a hair over k resolutions} x dtype; lattice case = random "
            "(nested) lattice of real elements x resolution; distinct = distinct (kind, length class, resolution "
            "class, vectorised, dtype) / distinct class sequence",
    "assumptions": [
        "tracking of the pieces vs the whole: 1e-9 relative per coordinate (scale = max(|coordinate|, beam size)); "
        "measured round-off on the clean tree <= 1e-12 with up to 80 pieces (delta through the Bmad-X conversions)",
        "length / angle sums: 1e-12 relative in float64, 2e-5 in float32 (n <= 80 rounded quotients)",
        "a piece may exceed the resolution by 8 eps (the piece count is a ceil of a rounded quotient); resolutions are "
        "generated away from the case where length/resolution is an integer only up to round-off",
        "Bmad-X quadrupoles are generated with length > 0 (the unsplit zero-length Bmad-X quadrupole returns NaN)",
        "corrector pieces are only required to preserve the total angle (not the position offset the kick produces)",
    ],
}

KINDS = ["Drift", "BmadxDrift", "Quadrupole", "BmadxQuadrupole", "HorizontalCorrector", "VerticalCorrector",
         "Dipole", "BmadxDipole", "RBend", "Solenoid", "Undulator", "ActiveCavity", "OffCavity", "Marker", "BPM",
         "ActiveBPM", "Screen", "ActiveScreen", "BlockingScreen", "Aperture", "ActiveAperture", "SpaceChargeKick",
         "CustomTransferMap", "TransverseDeflectingCavity"]


# ------------------------------------------------------------------------------------------------
# generation
# ------------------------------------------------------------------------------------------------
def gen_kind(rng, kind: str) -> dict:
    if kind == "BmadxDipole":
        r = E.gen_params(rng, "Dipole", force={"method": "bmadx"})
        if r["angle"] == 0.0:
            r["angle"] = 0.05      # (Bmad-X dipole with angle 0 returns NaN: not this property's subject)
        if r["L"] == 0.0:
            r["L"] = 0.4
        return r
    if kind == "BlockingScreen":
        return E.gen_params(rng, "Screen", force={"active": True, "blocking": True})
    if kind == "TransverseDeflectingCavity":
        return E.gen_params(rng, kind)
    r = LT.gen_record(rng, kind)
    if kind == "BmadxQuadrupole" and r["L"] == 0.0:
        r["L"] = float(E.pick(rng, 0.1, 0.5))
    return r


def vectorise(rng, r: dict) -> dict:
    """turn length (and strength) of a splittable record into 2-3 entry vectors"""
    r = copy.deepcopy(r)
    m = int(rng.integers(2, 4))
    Ls = [E.length(rng, allow_zero=False) for _ in range(m)]
    if rng.random() < 0.3 and r.get("method") != "bmadx":
        Ls[int(rng.integers(m))] = 0.0
    r["L"] = Ls
    if r["cls"] == "Quadrupole":
        r["k1"] = [E.signed(rng, 0.05, 30.0, 0.1) for _ in range(m)]
        if r.get("method") == "bmadx":
            r["k1"] = [k if k != 0.0 else 1.5 for k in r["k1"]]
    if r["cls"] in ("HorizontalCorrector", "VerticalCorrector"):
        r["angle"] = [E.signed(rng, 1e-6, 1e-2, 0.1) for _ in range(m)]
    return r


def gen_resolution(rng, Lmax: float) -> tuple[float, str]:
    """(resolution, class)"""
    if Lmax == 0.0:
        return float(E.pick(rng, 0.1, 1.0, 0.01)), "L=0"
    c = E.pick(rng, "larger", "equal", "dividing", "dividing", "non-dividing", "non-dividing", "decimal", "many", "just-over")
    if c == "larger":
        return float(Lmax * E.pick(rng, 1.0000001, 1.5, 10.0, 1e3)), c
    if c == "equal":
        return float(Lmax), c
    if c == "dividing":
        # exactly representable quotient: resolution = Lmax / 2^k, or Lmax/k nudged up by a few ulps so that
        # length/resolution is safely below the integer
        if rng.random() < 0.5:
            return float(Lmax / 2 ** int(rng.integers(1, 6))), c
        k = int(E.pick(rng, 3, 5, 7, 10, 12))
        return float(Lmax / k * (1 + 1e-9)), c
    if c == "non-dividing":
        return float(Lmax * rng.uniform(0.02, 0.95)), c
    if c == "just-over":
        # the length is a hair more than k resolutions (k + 1e-5 … k + 4e-4: far above round-off in both dtypes, yet a
        # "tolerant" piece count would round it away): k + 1 pieces are needed, k pieces are each longer than the resolution
        k = int(E.pick(rng, 1, 2, 3, 5, 10))
        return float(Lmax / (k + float(E.pick(rng, 1e-5, 1e-4, 4e-4)))), c
    if c == "decimal":
        res = float(E.pick(rng, 0.1, 0.25, 0.3, 0.05))
        q = Lmax / res
        if abs(q - round(q)) < 1e-6 or q > 80:      # away from the integer-up-to-round-off edge / too many pieces
            return float(Lmax * 0.37), "non-dividing"
        return res, c
    return float(Lmax / rng.uniform(40.0, 80.0)), "many"


# ------------------------------------------------------------------------------------------------
# helpers
# ------------------------------------------------------------------------------------------------
def _np(x) -> np.ndarray:
    return np.asarray(torch.as_tensor(x).detach().to(F64).numpy())


def kind_label(r: dict) -> str:
    if r["cls"] == "Screen" and r.get("blocking"):
        return "Screen(active,blocking)"
    return LT.class_seq([r])


def make_beam(P, En, bt, dtype=F64):
    return LT.particle_beam(P, En, dtype=dtype) if bt == "ParticleBeam" else LT.parameter_beam_from(P, En, dtype=dtype)


def fold(pieces, b):
    for p in pieces:
        b = p.track(b)
    return b


def beams_differ(a, b, rtol: float):
    """like lattices.beams_differ, for any number of leading vector dimensions: None if equal within rtol * scale
    (scale per coordinate = max(|coordinate| over the beam, generator beam size)), else a description"""
    if type(a) is not type(b):
        return f"type {type(a).__name__} vs {type(b).__name__}"
    sig = LT.REF_SIG

    def cmp(name, x, y, scale):
        x, y = _np(x), _np(y)
        if x.shape != y.shape:
            return f"{name}: shape {x.shape} vs {y.shape}"
        if not np.array_equal(np.isfinite(x), np.isfinite(y)) or not np.array_equal(np.isnan(x), np.isnan(y)):
            return f"{name}: non-finite mismatch"
        fin = np.isfinite(x)
        d = np.where(fin, np.abs(np.where(fin, x, 0.0) - np.where(fin, y, 0.0)), 0.0) / scale
        if d.size and d.max() > rtol:
            i = np.unravel_index(int(np.argmax(d)), d.shape)
            return f"{name}{list(i)}: {x[i]!r} vs {y[i]!r}"
        return None

    if isinstance(a, cheetah.ParticleBeam):
        xa = _np(a.particles)
        fin = np.where(np.isfinite(xa), np.abs(xa), 0.0)
        scale = np.maximum(fin.reshape(-1, 7).max(axis=0), sig)
        items = [("particles", a.particles, b.particles, scale),
                 ("particle_charges", a.particle_charges, b.particle_charges, None),
                 ("survival", a.survival_probabilities, b.survival_probabilities, None)]
    else:
        ca = _np(a._cov)
        sg = np.sqrt(np.maximum(np.abs(np.diagonal(ca, axis1=-2, axis2=-1)), 0.0))
        sg = np.maximum(np.where(np.isfinite(sg), sg, 0.0), sig)
        ma = _np(a._mu)
        items = [("mu", a._mu, b._mu, np.maximum(np.where(np.isfinite(ma), np.abs(ma), 0.0), sig)),
                 ("cov", a._cov, b._cov, sg[..., :, None] * sg[..., None, :]),
                 ("total_charge", a.total_charge, b.total_charge, None)]
    items.append(("energy", a.energy, b.energy, None))
    for name, x, y, scale in items:
        if scale is None:
            xx = _np(x)
            fin = xx[np.isfinite(xx)]
            scale = max(float(np.max(np.abs(fin))) if fin.size else 0.0, 1e-300)
        d = cmp(name, x, y, scale)
        if d is not None:
            return d
    return None


def buffers_not(dtype, pieces) -> list[str]:
    bad = []
    for i, p in enumerate(pieces):
        for n, t in p.named_buffers():
            if t.is_floating_point() and t.dtype != dtype:
                bad.append(f"piece[{i}]:{type(p).__name__}.{n}:{str(t.dtype).replace('torch.', '')}")
    return bad


def supports(el, bt: str, r: dict) -> bool:
    if bt == "ParameterBeam" and (r.get("method") == "bmadx" or r["cls"] in ("SpaceChargeKick", "TransverseDeflectingCavity")):
        return False
    return True


# ------------------------------------------------------------------------------------------------
# one element case -> list of (observable, description)
# ------------------------------------------------------------------------------------------------
def check_element(r: dict, res: float, dtn: str, En: float, P: np.ndarray) -> list:
    dtype = DT[dtn]
    out = []
    cls = r["cls"]
    try:
        el = E.build(r, dtype=dtype)
        whole = E.build(r, dtype=dtype)
    except Exception:
        return []           # the record is not constructible: not a split case
    L0 = _np(el.length)
    try:
        pieces = el.split(torch.tensor(res, dtype=dtype))
    except Exception as ex:
        return [("raises " + type(ex).__name__, f"split({res}) raised {type(ex).__name__}: {str(ex)[:160]}")]
    if not isinstance(pieces, (list, tuple)) or not all(isinstance(p, Element) for p in pieces):
        return [("not a list of elements", f"split returned {type(pieces).__name__}")]
    eps = float(torch.finfo(dtype).eps)

    # (a) lengths add up (element-wise)
    tot = np.zeros_like(L0)
    for p in pieces:
        tot = tot + _np(p.length)
    if tot.shape != L0.shape or not np.all(np.abs(tot - L0) <= RTOL_LEN[dtn] * np.maximum(np.abs(L0), 1e-30)):
        out.append(("lengths-sum", f"piece lengths add up to {tot.tolist()} != original length {L0.tolist()} ({len(pieces)} pieces)"))
    # the original is unchanged by split
    if not np.array_equal(_np(el.length), _np(whole.length)):
        out.append(("original mutated", f"length of the split element changed to {_np(el.length).tolist()}"))

    if cls in SPLITTABLE:
        # (b) no piece longer than the resolution
        for i, p in enumerate(pieces):
            if type(p).__name__ != cls:
                out.append(("piece type", f"piece {i} is a {type(p).__name__}"))
                break
            lp = _np(p.length)
            if not np.all(lp <= res * (1 + 8 * eps)):
                out.append(("piece>resolution", f"piece {i} has length {lp.tolist()} > resolution {res} ({len(pieces)} pieces of {L0.tolist()})"))
                break
    else:
        # unsplittable elements return [self]
        if len(pieces) != 1 or pieces[0] is not el:
            out.append(("not [self]", f"unsplittable {cls}.split returned {len(pieces)} element(s), identical to self: "
                                      f"{len(pieces) == 1 and pieces[0] is el}"))

    # (c) dtype of every buffer of every piece
    bad = buffers_not(dtype, pieces) if cls in SPLITTABLE else []
    if bad:
        out.append(("dtype", f"buffers of the pieces not {dtn}: {bad[:4]}"))

    # (e) correctors: total angle
    if cls in ("HorizontalCorrector", "VerticalCorrector"):
        a0 = _np(whole.angle)
        at = np.zeros_like(a0)
        for p in pieces:
            at = at + _np(p.angle)
        if at.shape != a0.shape or not np.all(np.abs(at - a0) <= RTOL_LEN[dtn] * np.maximum(np.abs(a0), 1e-30)):
            out.append(("angle-sum", f"piece angles add up to {at.tolist()} != original angle {a0.tolist()} ({len(pieces)} pieces)"))

    # (d) tracking (float64 only; float32 is C12's subject)
    if dtn == "float64":
        for bt in ("ParticleBeam", "ParameterBeam"):
            if not supports(el, bt, r):
                continue
            try:
                ref = whole.track(make_beam(P, En, bt))
            except Exception:
                continue        # the unsplit element cannot track this beam: nothing to compare
            try:
                got = fold(pieces, make_beam(P, En, bt))
            except Exception as ex:
                out.append((f"track {bt} raises {type(ex).__name__}", f"tracking the pieces raised {type(ex).__name__}: {str(ex)[:160]}"))
                continue
            if cls in TRACK_EQ or cls not in SPLITTABLE:
                d = beams_differ(got, ref, RTOL_TRACK)
                if d is not None:
                    out.append((f"track {bt}", f"pieces vs whole: {d} ({len(pieces)} pieces)"))
            else:
                # correctors: the total deflection seen by the beam (px for horizontal, py for vertical)
                k = 1 if cls == "HorizontalCorrector" else 3
                if bt == "ParticleBeam":
                    a, b = _np(got.particles)[..., k], _np(ref.particles)[..., k]
                else:
                    a, b = _np(got._mu)[..., k], _np(ref._mu)[..., k]
                sc = max(float(np.max(np.abs(b))), 2e-5)
                if a.shape != b.shape or not (np.max(np.abs(a - b)) <= RTOL_TRACK * sc):
                    out.append((f"deflection {bt}", f"total kick of the pieces differs: max |d p| = {np.max(np.abs(a - b)) if a.shape == b.shape else 'shape'}"))
    return out


def length_class(r: dict) -> str:
    L = r.get("L", 0.0)
    if isinstance(L, list):
        return "vectorised"
    return "L=0" if L == 0.0 else "L>0"


def simplify_candidates(r: dict):
    """simpler variants of a record (snap parameters to 0 / simple values)"""
    if r.get("method") == "bmadx":
        yield dict(r, method="cheetah")
    for k, v in (("tilt", 0.0), ("mx", 0.0), ("my", 0.0), ("k1", 1.0), ("e1", 0.0), ("e2", 0.0), ("num_steps", 1)):
        if k in r and not isinstance(r[k], list) and r[k] != v:
            yield dict(r, **{k: v})
    if isinstance(r.get("L"), list):
        for i in range(len(r["L"])):
            c = copy.deepcopy(r)
            for k in ("L", "k1", "angle"):
                if isinstance(c.get(k), list):
                    c[k] = c[k][i]
            yield c
    elif isinstance(r.get("L"), float) and r["L"] not in (0.0, 1.0):
        yield dict(r, L=1.0)


def examine_element(rep, r: dict, res: float, rclass: str, dtn: str, En: float, P: np.ndarray, do_shrink=True) -> None:
    try:
        bad = check_element(r, res, dtn, En, P)
    except Exception as ex:
        rep.count(f"harness-exception:{type(ex).__name__}")
        rep.notes.append(f"C16 harness exception on {kind_label(r)}: {type(ex).__name__}: {str(ex)[:200]}")
        return
    for obs, desc in bad:
        small, sres = r, res
        if do_shrink:
            progress = True
            while progress:
                progress = False
                for cand in simplify_candidates(small):
                    cres = sres
                    if cand.get("L") != small.get("L") and not isinstance(cand.get("L"), list) and not isinstance(small.get("L"), list):
                        cres = sres / small["L"] * cand["L"] if small["L"] else sres
                    try:
                        still = any(o == obs for o, _ in check_element(cand, cres, dtn, En, P))
                    except Exception:
                        still = False
                    if still:
                        small, sres, progress = cand, cres, True
                        break
            desc = dict(check_element(small, sres, dtn, En, P)).get(obs, desc)
        # signature: element kind | length class | observable (the dtype only where the dtype is the observable);
        # resolution class and parameter values are in the replay, not in the signature
        obs_s = f"{obs}({dtn})" if obs == "dtype" else obs
        rep.fail("falsifier", f"C16|{kind_label(small)}.split|{length_class(small)}|{obs_s}",
                 f"{kind_label(small)}.split(resolution={sres}) [{dtn}, record {small}]: {desc}",
                 {"kind": "element", "record": small, "resolution": sres, "resolution_class": rclass, "dtype": dtn,
                  "energy": En, "particles": P.tolist(), "observable": obs})


# ------------------------------------------------------------------------------------------------
# lattices
# ------------------------------------------------------------------------------------------------
LATTICE_MIX = (["Drift"] * 3 + ["Quadrupole"] * 3 + ["BmadxDrift", "BmadxQuadrupole", "Dipole", "RBend", "Solenoid",
               "Undulator", "Marker", "ActiveCavity", "OffCavity", "ActiveAperture", "ActiveBPM", "ActiveScreen", "BPM",
               "Screen", "Aperture", "CustomTransferMap"])
CORRECTORS = ["HorizontalCorrector", "VerticalCorrector"]


def refinement_error(leaves: list, pieces: list):
    i = 0
    for li, r in enumerate(leaves):
        c = r["cls"]
        if c not in SPLITTABLE:
            if i >= len(pieces) or type(pieces[i]).__name__ != c:
                return (f"leaf {li} ({c}) should be piece {i}, found "
                        f"{type(pieces[i]).__name__ if i < len(pieces) else 'end of list'}")
            i += 1
            continue
        L = float(r.get("L", 0.0))
        acc = 0.0
        if L == 0.0:
            while i < len(pieces) and type(pieces[i]).__name__ == c and float(_np(pieces[i].length)) == 0.0:
                i += 1
            continue
        while acc < L * (1 - 1e-9):
            if i >= len(pieces) or type(pieces[i]).__name__ != c:
                return (f"leaf {li} ({c}, L={L}): pieces of this class add up to {acc} only, next piece is "
                        f"{type(pieces[i]).__name__ if i < len(pieces) else 'end of list'}")
            acc += float(_np(pieces[i].length))
            i += 1
        if acc > L * (1 + 1e-9):
            return f"leaf {li} ({c}, L={L}): its run of pieces adds up to {acc}"
    if i != len(pieces):
        return f"{len(pieces) - i} surplus piece(s) after the last leaf"
    return None


def check_lattice(recs: list, res: float, En: float, P: np.ndarray, with_tracking: bool) -> list:
    out = []
    seg = LT.build_segment(recs)
    whole = LT.build_segment(recs)
    try:
        pieces = seg.split(torch.tensor(res, dtype=F64))
    except Exception as ex:
        return [("raises " + type(ex).__name__, f"Segment.split({res}) raised {type(ex).__name__}: {str(ex)[:160]}")]
    leaves = LT.leaves(recs)
    L0 = sum(float(r.get("L", 0.0)) for r in leaves)
    tot = sum(float(_np(p.length)) for p in pieces)
    if not abs(tot - L0) <= 1e-11 * max(L0, 1e-30):
        out.append(("lengths-sum", f"piece lengths add up to {tot} != {L0}"))
    for i, p in enumerate(pieces):
        if type(p).__name__ in SPLITTABLE and float(_np(p.length)) > res * (1 + 1e-14):
            out.append(("piece>resolution", f"piece {i} ({type(p).__name__}) has length {float(_np(p.length))} > {res}"))
            break
    # order: walking the leaves in order, every unsplittable leaf is the next piece (itself), every splittable leaf is
    # the next run of pieces of its class whose lengths add up to the leaf's length
    why = refinement_error(leaves, pieces)
    if why:
        out.append(("order", why))
    bad = buffers_not(F64, [p for p in pieces if type(p).__name__ in SPLITTABLE])
    if bad:
        out.append(("dtype", f"buffers of the pieces not float64: {bad[:4]}"))
    # total corrector angles
    for cname, attr in (("HorizontalCorrector", "angle"), ("VerticalCorrector", "angle")):
        a0 = sum(float(r["angle"]) for r in leaves if r["cls"] == cname)
        a1 = sum(float(_np(p.angle)) for p in pieces if type(p).__name__ == cname)
        if not abs(a1 - a0) <= 1e-11 * max(abs(a0), 1e-30):
            out.append(("angle-sum", f"{cname} angles of the pieces add up to {a1} != {a0}"))
    if with_tracking:
        for bt in ("ParticleBeam", "ParameterBeam"):
            if bt == "ParameterBeam" and any(r.get("method") == "bmadx" for r in leaves):
                continue
            try:
                ref = whole.track(make_beam(P, En, bt))
            except Exception:
                continue
            try:
                got_b = fold(pieces, make_beam(P, En, bt))
                got_s = cheetah.Segment(list(pieces)).track(make_beam(P, En, bt)) if pieces else None
            except Exception as ex:
                out.append((f"track {bt} raises {type(ex).__name__}", f"tracking the pieces raised: {str(ex)[:160]}"))
                continue
            d = beams_differ(got_b, ref, RTOL_TRACK)
            if d is None and got_s is not None:
                d = beams_differ(got_s, ref, RTOL_TRACK)
            if d is not None:
                out.append((f"track {bt}", f"pieces vs whole: {d} ({len(pieces)} pieces)"))
    return out


def examine_lattice(rep, recs, res, En, P, with_tracking, do_shrink=True) -> None:
    try:
        bad = check_lattice(recs, res, En, P, with_tracking)
    except Exception as ex:
        rep.count(f"harness-exception:{type(ex).__name__}")
        rep.notes.append(f"C16 harness exception on lattice {LT.class_seq(recs)}: {type(ex).__name__}: {str(ex)[:200]}")
        return
    for obs, desc in bad:
        small = recs
        if do_shrink:
            def fails(cand, _o=obs):
                return any(o == _o for o, _ in check_lattice(cand, res, En, P, with_tracking))
            small = LT.shrink_tree(recs, fails)
            desc = dict(check_lattice(small, res, En, P, with_tracking)).get(obs, desc)
        # culprit: a single leaf class if the lattice shrinks to one element, else Segment.split itself
        who = LT.class_seq(small) if len(LT.leaves(small)) <= 1 or obs != "order" else "ordering"
        rep.fail("falsifier", f"C16|Segment.split|{who}|{obs}",
                 f"Segment([{LT.class_seq(small)}]).split({res}): {desc}",
                 {"kind": "lattice", "records": small, "resolution": res, "energy": En, "particles": P.tolist(),
                  "with_tracking": with_tracking, "observable": obs})


# ------------------------------------------------------------------------------------------------
def run(ctx) -> None:
    rep, rng = ctx.report, ctx.rng
    rounds = ctx.n(3, 60)
    for rnd in range(rounds):
        for kind in KINDS:
            r = gen_kind(rng, kind)
            splittable = r["cls"] in SPLITTABLE
            variants = [r]
            if splittable:
                variants.append(vectorise(rng, r))
                if r.get("method") != "bmadx" or r["cls"] == "Drift":
                    # zero length with a non-zero strength: the kick / focusing must not get lost
                    z = dict(r, L=0.0)
                    if "angle" in z and z["angle"] == 0.0:
                        z["angle"] = 1e-3
                    variants.append(z)
            for v in variants:
                Ls = v.get("L", 0.0)
                Lmax = max(Ls) if isinstance(Ls, list) else float(Ls)
                nres = 3 if splittable else 1
                for _ in range(nres):
                    res, rclass = gen_resolution(rng, Lmax)
                    En = E.energy(rng)
                    P = LT.gen_particles(rng, 10)
                    for dtn in (("float64", "float32") if splittable else ("float64",)):
                        rep.fals_cases += 1
                        rep.count(f"{kind_label(v)}:{rclass}:{dtn}")
                        rep.case((kind_label(v), length_class(v), rclass, dtn),
                                 {"kind": kind_label(v), "L": Ls, "resolution": res} if rnd == 0 and dtn == "float64" else None)
                        examine_element(rep, v, res, rclass, dtn, En, P)
    for _ in range(ctx.n(20, 400)):
        with_tracking = bool(rng.random() < 0.7)
        mix = LATTICE_MIX if with_tracking else LATTICE_MIX + CORRECTORS * 3
        recs = LT.nest(rng, LT.gen_lattice(rng, 7, mix=mix), p=0.25)
        for r in LT.leaves(recs):
            if r.get("method") == "bmadx" and r["cls"] == "Quadrupole" and r["L"] == 0.0:
                r["L"] = 0.3
        Lmax = max([float(r.get("L", 0.0)) for r in LT.leaves(recs)] + [0.0])
        res, rclass = gen_resolution(rng, Lmax)
        if Lmax / res > 40:
            res = Lmax / 40
        En = E.energy(rng)
        P = LT.gen_particles(rng, 10)
        rep.fals_cases += 1
        rep.count(f"lattice:{rclass}:{'track' if with_tracking else 'correctors'}")
        rep.case(("lattice", LT.class_seq(recs), rclass))
        examine_lattice(rep, recs, res, En, P, with_tracking)


def corpus_case(ctx, r: dict) -> None:
    rep = ctx.report
    if r.get("kind") == "element":
        rep.fals_cases += 1
        examine_element(rep, r["record"], r["resolution"], r.get("resolution_class", "replay"), r["dtype"], r["energy"],
                        np.array(r["particles"]), do_shrink=False)
    elif r.get("kind") == "lattice":
        rep.fals_cases += 1
        examine_lattice(rep, r["records"], r["resolution"], r["energy"], np.array(r["particles"]),
                        r.get("with_tracking", True), do_shrink=False)
