"""C11 falsifier — tracking has no side effects on its inputs and no hidden state.

A case is a random lattice (nested, all element classes) plus a random *history* of operations on it. The oracle is
independent of the object under test: bitwise snapshots (+ `_version` counters) taken before each track, and a lattice
that is freshly built from the parameter records (updated by every assignment) and sees only the last beam.
"""
from __future__ import annotations

import copy
import inspect
from typing import Optional

import numpy as np
import torch

import cheetah
from fals import _full as FU

META = {
    "rule": "case = random nested lattice (1..6 uniquely named leaves of all 16 classes, float64, active screens / BPMs / "
            "apertures / cavities / Bmad-X elements / space charge favoured) x pool of 2-3 persistent beams (both types, "
            "lost particles) x history of 4..14 ops drawn from {assign parameter (via element | via segment.<name>..., "
            "random / zero / flag flip / tracking-method switch), track beam i, read screen/BPM, clone-and-continue, "
            "clone-modify-track-discard, lattice optimisation (4 kinds, random except_for, optionally tracked)}; every "
            "history ends with a track and a read of every diagnostic; distinct = distinct (lattice classes, op-kind "
            "sequence)",
    "assumptions": [
        "repeat of a track and un-mutated objects: bitwise; history vs freshly built lattice: 1e-10 relative to the beam "
        "size per coordinate (same code, same float64 parameters: expected bitwise), readings 1e-9 of the image maximum",
        "the reading of a diagnostic is only checked when it was active during the last track of the root segment and "
        "none of its own parameters was assigned since, and not after an optimisation / clone (shared or new objects)",
        "a parameter that the constructor derives from another one when omitted (gap_exit, fringe_integral_exit, "
        "kde_bandwidth) is always given explicitly, so 'final parameter values' are unambiguous",
        "RBend.rbend_e1/e2 read-back: 8 ulps of max(|e|,|angle|) (stored as e + angle/2)",
    ],
}

DT = FU.F64
UNSPEC = "unspecified"
MIX = (["Drift", "Quadrupole", "Quadrupole", "Dipole", "RBend", "Solenoid", "HorizontalCorrector", "VerticalCorrector",
        "Undulator", "Cavity", "Cavity", "TransverseDeflectingCavity", "Marker", "BPM", "BPM", "Screen", "Screen", "Screen",
        "Aperture", "Aperture", "SpaceChargeKick", "CustomTransferMap"])
OPTS = ["merged", "no_markers", "no_zero_length", "as_drifts"]
NOT_ASSIGNABLE = {"SpaceChargeKick": ("num_grid_points_x", "num_grid_points_y", "num_grid_points_tau"),
                  "Dipole": ("fringe_type",), "RBend": ("fringe_type",)}


# ------------------------------------------------------------------------------------------------
# the history machine
# ------------------------------------------------------------------------------------------------
def _leaf_objs(seg) -> dict:
    return {el.name: el for _, el in FU.walk(seg) if not isinstance(el, cheetah.Segment)}


def _rec_of(recs, name):
    for r in FU.leaves(recs):
        if r["name"] == name:
            return r
    return None


def _as_attr(cls: str, p: str, v):
    kind = FU.SPEC[cls].get(p, "?")
    if kind in FU.TENSOR_KINDS:
        return torch.tensor(v, dtype=DT)
    if kind == "r":
        return tuple(v)
    return v


def _read(el):
    try:
        r = el.reading
        return r.detach().clone() if isinstance(r, torch.Tensor) else r
    except Exception as ex:
        return "exception " + type(ex).__name__


def _reading_equal(a, b, rtol=1e-9) -> bool:
    if isinstance(a, str) or isinstance(b, str):
        return isinstance(a, str) and isinstance(b, str) and a == b
    if a is None or b is None:
        return a is None and b is None
    if a.shape != b.shape or a.dtype != b.dtype:
        return False
    x, y = torch.nan_to_num(a.to(FU.F64)), torch.nan_to_num(b.to(FU.F64))
    sc = float(x.abs().max()) if x.numel() else 0.0
    return bool(torch.all((x - y).abs() <= rtol * max(sc, 1e-300)))


def _unspec(x) -> bool:
    return isinstance(x, str) and x == UNSPEC


def apply_opt(seg, kind, beam, except_for):
    if kind == "merged":
        return seg.transfer_maps_merged(beam, except_for=except_for)
    if kind == "no_markers":
        return seg.without_inactive_markers(except_for=except_for)
    if kind == "no_zero_length":
        return seg.without_inactive_zero_length_elements(except_for=except_for)
    return seg.inactive_elements_as_drifts(except_for=except_for)


def _single_culprit(recs, pred) -> str:
    for r in FU.leaves(recs):
        try:
            if pred(r):
                return r["cls"]
        except Exception:
            continue
    return "lattice"


class Rejected(Exception):
    pass


class _Stop(Exception):
    pass


def run_history(case: dict, only: Optional[str] = None) -> list:
    """execute the history up to its first failure of a tracking / read-out clause (everything after it is a
    consequence); read-back failures of an assignment are recorded and the history goes on with the values the element
    reports. Returns [(signature, what)]. With `only`, failures of other families are ignored."""
    fails: list = []
    try:
        _run_history(case, only, fails)
    except _Stop:
        pass
    return fails


def _run_history(case: dict, only: Optional[str], fails: list) -> None:
    recs = copy.deepcopy(case["records"])
    try:
        seg = FU.build_full({"cls": "Segment", "name": "root", "elements": recs}, DT)
        beams = [FU.make_beam(b["bt"], np.array(b["particles"]), b["energy"], DT, b.get("survival")) for b in case["beams"]]
    except Exception as ex:
        raise Rejected(type(ex).__name__) from ex
    expect: dict = {}                      # diagnostic name -> reading of a fresh diagnostic that saw only the last beam

    def add(sig, what, stop=True):
        if only is None or family(sig) == only:
            if all(s != sig for s, _ in fails):
                fails.append((sig, what))
            if stop:
                raise _Stop()

    def fresh_beam(i):
        b = case["beams"][i]
        return FU.make_beam(b["bt"], np.array(b["particles"]), b["energy"], DT, b.get("survival"))

    for step, op in enumerate(case["ops"]):
        kind = op["op"]
        if kind == "assign":
            r = _rec_of(recs, op["name"])
            if r is None:
                continue
            path = FU.find_path(recs, op["name"])
            if op.get("via") == "segment":          # segment.<sub>.<name>.<param> = value
                el = seg
                for nm in path:
                    el = getattr(el, nm)
            else:
                el = _leaf_objs(seg)[op["name"]]
            before = {p: getattr(el, p) for p in r["args"] if hasattr(el, p)}
            before = {p: (v.detach().clone() if isinstance(v, torch.Tensor) else copy.deepcopy(v)) for p, v in before.items()}
            setattr(el, op["param"], _as_attr(r["cls"], op["param"], op["value"]))
            r["args"][op["param"]] = op["value"]
            if r["cls"] in ("Screen", "BPM"):
                expect[op["name"]] = UNSPEC
            # ---- clause: the lattice holds exactly the assigned values: the assigned parameter reads back as given and
            #      the assignment leaves every other parameter as it was
            changed = []
            for p in r["args"]:
                if not hasattr(el, p):
                    continue
                tol = {}
                if r["cls"] == "RBend" and p in ("rbend_e1", "rbend_e2"):
                    tol = dict(ulps=8.0, eps=2.0 ** -52, scale=abs(float(el.angle)) + abs(float(torch.as_tensor(getattr(el, p)))))
                ref = _as_attr(r["cls"], p, op["value"]) if p == op["param"] else before.get(p)
                dv = FU.value_diff(ref, getattr(el, p), **tol)
                if dv:
                    changed.append((p, dv))
            if changed:
                who = ".".join(path) if op.get("via") == "segment" else op["name"]
                add(f"C11|assign {r['cls']}.{op['param']}|changes {','.join(sorted(p for p, _ in changed))}|read-back",
                    f"`{who}.{op['param']} = {op['value']!r}` changed what the element reports for "
                    + "; ".join(f"{p}: {dv}" for p, dv in changed), stop=False)
                # go on with the values the element now reports, so that what follows is independent of this failure
                for p, _ in changed:
                    r["args"][p] = FU.plain(getattr(el, p))
        elif kind == "track":
            i = op["beam"]
            b = beams[i]
            bt = case["beams"][i]["bt"]
            snap_b, snap_s = FU.Snapshot(b), FU.Snapshot(seg)
            out, exc = FU.safe_track(seg, b)
            # ---- clause: tracking never modifies the incoming beam
            d = snap_b.diff(b)
            if d:
                culprit = _single_culprit(recs, lambda r, _i=i: _modifies_beam(r, fresh_beam(_i)))
                add(f"C11|track|{culprit}|incoming {bt}.{d[0]}|{d[1]}", f"track modified the incoming {bt}: {d[2]}")
            # ---- clause: ... nor any parameter of the element or segment
            d = snap_s.diff(seg)
            if d:
                add(f"C11|track|{FU.field_class(seg, d[0])}|{d[1]}", f"track({bt}) modified the lattice: {d[2]}")
            readings_now = {n: _read(el) for n, el in _leaf_objs(seg).items()
                            if isinstance(el, (cheetah.Screen, cheetah.BPM)) and el.is_active} if exc is None else {}
            # ---- clause: repeating a track gives an identical result
            out2, exc2 = FU.safe_track(seg, b)
            if exc != exc2:
                add(f"C11|repeat|lattice|{bt}|exception", f"first track: {exc or 'ok'}, repeated track: {exc2 or 'ok'}")
            elif out is not None:
                dd = FU.beams_differ(out, out2, rtol=0.0)
                if dd:
                    culprit = _single_culprit(recs, lambda r, _i=i: _not_repeatable(r, fresh_beam(_i)))
                    add(f"C11|repeat|{culprit}|{bt}|{FU.observable(dd).split('[')[0]}", f"the same track twice: {dd}")
            # ---- clause: the result depends only on the current parameter values (freshly built lattice, fresh beam)
            try:
                fseg = FU.build_full({"cls": "Segment", "name": "root", "elements": recs}, DT)
            except Exception:
                fseg = None                 # the final values are not constructible: nothing to compare with
            if fseg is not None:
                fout, fexc = FU.safe_track(fseg, fresh_beam(i))
                if fexc != exc:
                    add(f"C11|history|{bt}|exception", f"after the history: {exc or 'tracks'}; freshly built lattice: {fexc or 'tracks'}")
                elif out is not None:
                    dd = FU.beams_differ(out, fout, rtol=1e-10)
                    if dd:
                        add(f"C11|history|{bt}|{FU.observable(dd).split('[')[0]}",
                            f"track after the history differs from the freshly built lattice with the final values: {dd}")
                # expected readings: a fresh diagnostic that saw only this beam
                for n, el in _leaf_objs(fseg).items():
                    if isinstance(el, (cheetah.Screen, cheetah.BPM)):
                        expect[n] = _read(el) if (el.is_active and fexc is None) else UNSPEC
                # ---- clause: a diagnostic's reading reflects the most recent beam (checked right after the track ...)
                for n, rd in readings_now.items():
                    if not _unspec(expect.get(n, UNSPEC)):
                        if not _reading_equal(rd, expect[n]):
                            add(f"C11|reading|{type(_leaf_objs(seg)[n]).__name__}|{bt}",
                                f"{n}.reading after track differs from a fresh diagnostic that saw only this beam: "
                                f"{FU._short(FU.plain(rd), 50)} vs {FU._short(FU.plain(expect[n]), 50)}")
        elif kind == "read":
            el = _leaf_objs(seg).get(op["name"])
            if el is None or not isinstance(el, (cheetah.Screen, cheetah.BPM)):
                continue
            snap_s = FU.Snapshot(seg)
            rd = _read(el)
            d = snap_s.diff(seg)
            if d:
                add(f"C11|read|{FU.field_class(seg, d[0])}|{d[1]}", f"reading {op['name']} modified the lattice: {d[2]}")
            ex = expect.get(op["name"], UNSPEC)
            # ---- ( ... and at any later read-out)
            if not _unspec(ex) and not _reading_equal(rd, ex):
                add(f"C11|reading|{type(el).__name__}|read-out", f"{op['name']}.reading does not show the most recent beam: "
                    f"{FU._short(FU.plain(rd), 50)} vs fresh diagnostic {FU._short(FU.plain(ex), 50)}")
        elif kind == "clone":
            if op["mode"] == "switch":              # go on with the clone
                try:
                    seg = seg.clone()
                except Exception:
                    continue                        # (C15's subject)
                expect = {n: UNSPEC for n in expect}
            else:                                   # clone, modify the clone, track through it, throw it away
                snap_s = FU.Snapshot(seg)
                try:
                    c = seg.clone()
                    cl = _leaf_objs(c)
                    for a in op.get("assign", []):
                        if a["name"] in cl:
                            setattr(cl[a["name"]], a["param"], _as_attr(type(cl[a["name"]]).__name__, a["param"], a["value"]))
                    FU.safe_track(c, beams[op["beam"]])
                except Exception:
                    pass
                d = snap_s.diff(seg)
                if d:
                    add(f"C11|clone-scratch|{FU.field_class(seg, d[0])}|{d[1]}", f"working on a clone modified the lattice: {d[2]}")
        elif kind == "optimise":
            snap_s = FU.Snapshot(seg)
            b = beams[op["beam"]]
            snap_b = FU.Snapshot(b)
            try:
                new = apply_opt(seg, op["kind"], b, list(op["except_for"]))
                if op.get("track"):
                    FU.safe_track(new, b)
            except Exception:
                pass
            tracks = bool(op.get("track")) or op["kind"] == "merged"       # (merging tracks the beam internally)
            where = "track" if tracks else f"optimise:{op['kind']}"
            d = snap_s.diff(seg)
            if d:
                add(f"C11|{where}|{FU.field_class(seg, d[0])}|{d[1]}", f"{op['kind']}{' + track' if op.get('track') else ''} modified the lattice: {d[2]}")
            d = snap_b.diff(b)
            if d:
                bt = case["beams"][op["beam"]]["bt"]
                culprit = _single_culprit(recs, lambda r, _i=op["beam"]: _modifies_beam(r, fresh_beam(_i)))
                add(f"C11|{where}|{culprit}|incoming {bt}.{d[0]}|{d[1]}", f"{op['kind']}{' + track' if op.get('track') else ''} modified the beam: {d[2]}")
            if op.get("track") or op["kind"] == "merged":
                expect = {n: UNSPEC for n in expect}        # the shared diagnostics have seen another pass


def _modifies_beam(r, beam) -> bool:
    s = FU.build_full({"cls": "Segment", "name": "root", "elements": [r]}, DT)
    sn = FU.Snapshot(beam)
    FU.safe_track(s, beam)
    return sn.diff(beam) is not None


def _not_repeatable(r, beam) -> bool:
    s = FU.build_full({"cls": "Segment", "name": "root", "elements": [r]}, DT)
    o1, e1 = FU.safe_track(s, beam)
    o2, e2 = FU.safe_track(s, beam)
    return e1 != e2 or (o1 is not None and FU.beams_differ(o1, o2, rtol=0.0) is not None)


def family(sig: str) -> str:
    p = sig.split("|")
    return "|".join(p[:2]) if p[1] in ("history", "reading", "repeat") else "|".join(p[:3])


# ------------------------------------------------------------------------------------------------
# generation
# ------------------------------------------------------------------------------------------------
def gen_assign(rng, r: dict) -> Optional[dict]:
    cls = r["cls"]
    cand = [p for p in FU.SPEC[cls] if p not in NOT_ASSIGNABLE.get(cls, ())]
    if not cand:
        return None
    p = cand[int(rng.integers(len(cand)))]
    kind = FU.SPEC[cls][p]
    u = rng.random()
    if kind == "b":
        v = bool(rng.random() < 0.5)
    elif kind.startswith("s:"):
        v = FU.pick(rng, *kind[2:].split(","))
    elif kind == "t" and u < 0.2 and p not in ("length", "effect_length", "frequency", "x_max", "y_max", "kde_bandwidth"):
        v = 0.0                                  # switches elements off (activity / skippability change)
    elif kind == "v2" and u < 0.2 and p != "pixel_size":
        v = [0.0, 0.0]
    else:
        v = FU._value(rng, cls, p, kind, {})
    return {"op": "assign", "name": r["name"], "param": p, "value": v, "via": "segment" if rng.random() < 0.5 else "element"}


def gen_case(rng) -> dict:
    n = int(rng.integers(1, 7))
    recs = []
    for j in range(n):
        cls = MIX[int(rng.integers(len(MIX)))]
        r = FU.gen_full(rng, cls, f"{cls[:4].lower()}_{j}", p_set=1.0 if cls in ("Dipole", "RBend", "Screen") or rng.random() < 0.5 else 0.5)
        a = r["args"]
        if cls in ("Screen", "BPM", "Aperture"):
            a["is_active"] = bool(rng.random() < 0.75)
        if cls == "Screen":
            a["is_blocking"] = bool(rng.random() < 0.15)
            a["method"] = FU.pick(rng, "histogram", "kde")
        if cls == "TransverseDeflectingCavity":
            a.pop("tracking_method", None)
        if cls in ("Dipole", "RBend", "Quadrupole", "Drift") and rng.random() < 0.65:
            a["tracking_method"] = "cheetah"
        if cls == "Cavity" and rng.random() < 0.25:
            a["voltage"] = 0.0
        recs.append(r)
    recs = FU.nest_full(rng, recs, p=float(FU.pick(rng, 0.0, 0.25, 0.5)))
    only_particles = any(r["args"].get("tracking_method") == "bmadx" or r["cls"] in ("SpaceChargeKick", "TransverseDeflectingCavity")
                         for r in FU.leaves(recs))
    beams = []
    for _ in range(int(rng.integers(2, 4))):
        bt = "ParticleBeam" if (only_particles and rng.random() < 0.85) or rng.random() < 0.5 else "ParameterBeam"
        nb = int(FU.pick(rng, 8, 12))
        b = {"bt": bt, "particles": FU.gen_particles(rng, nb).tolist(), "energy": float(np.exp(rng.uniform(np.log(2e7), np.log(2e9))))}
        if bt == "ParticleBeam" and rng.random() < 0.4:
            b["survival"] = [float(x) for x in rng.choice([0.0, 0.5, 1.0], size=nb, p=[0.2, 0.2, 0.6])]
        beams.append(b)
    lv = FU.leaves(recs)
    diags = [r["name"] for r in lv if r["cls"] in ("Screen", "BPM")]
    ops = []
    for _ in range(int(rng.integers(4, 15))):
        u = rng.random()
        if u < 0.35:
            a = gen_assign(rng, lv[int(rng.integers(len(lv)))])
            if a:
                ops.append(a)
        elif u < 0.65:
            ops.append({"op": "track", "beam": int(rng.integers(len(beams)))})
        elif u < 0.80:
            if diags:
                ops.append({"op": "read", "name": diags[int(rng.integers(len(diags)))]})
        elif u < 0.90:
            if rng.random() < 0.5:
                ops.append({"op": "clone", "mode": "switch"})
            else:
                asg = [a for a in (gen_assign(rng, lv[int(rng.integers(len(lv)))]) for _ in range(3)) if a]
                ops.append({"op": "clone", "mode": "scratch", "assign": asg, "beam": int(rng.integers(len(beams)))})
        else:
            names = [r["name"] for r in recs]
            k = int(rng.integers(0, min(2, len(names)) + 1))
            ops.append({"op": "optimise", "kind": FU.pick(rng, *OPTS), "beam": int(rng.integers(len(beams))),
                        "except_for": [str(x) for x in rng.choice(names, size=k, replace=False)] if k else [],
                        "track": bool(rng.random() < 0.6)})
    ops.append({"op": "track", "beam": int(rng.integers(len(beams)))})
    ops += [{"op": "read", "name": d} for d in diags]
    return {"kind": "history", "records": recs, "beams": beams, "ops": ops}


def op_kinds(ops) -> str:
    return ",".join(o["op"] + (":" + o["mode"] if o["op"] == "clone" else (":" + o["kind"] if o["op"] == "optimise" else ""))
                    for o in ops)


# ------------------------------------------------------------------------------------------------
# shrinking, reporting
# ------------------------------------------------------------------------------------------------
def _fails(case, fam) -> bool:
    try:
        return any(family(s) == fam for s, _ in run_history(case, only=fam))
    except Rejected:
        return False


def shrink_case(case: dict, sig: str) -> dict:
    fam = family(sig)
    ops = FU.shrink_list(case["ops"], lambda o: _fails(dict(case, ops=o), fam), min_len=1)
    cur = dict(case, ops=ops)
    # simplify scratch clones / optimisations
    ops2 = copy.deepcopy(ops)
    for o in ops2:
        for key, simple in (("assign", []), ("except_for", []), ("track", False)):
            if key in o and o["op"] in ("clone", "optimise") and o[key]:
                saved = o[key]
                o[key] = simple
                if not _fails(dict(cur, ops=ops2), fam):
                    o[key] = saved
    cur = dict(cur, ops=ops2)

    def with_recs(recs):
        names = {r["name"] for r in FU.leaves(recs)}
        tops = {r["name"] for r in recs}
        o2 = []
        for o in cur["ops"]:
            if o["op"] in ("assign", "read") and o["name"] not in names:
                continue
            o = dict(o)
            if o["op"] == "optimise":
                o["except_for"] = [x for x in o["except_for"] if x in tops]
            if o["op"] == "clone" and o["mode"] == "scratch":
                o["assign"] = [a for a in o.get("assign", []) if a["name"] in names]
            o2.append(o)
        return dict(cur, records=recs, ops=o2)
    recs = FU.shrink_tree(cur["records"], lambda rs: _fails(with_recs(rs), fam), max_steps=60)
    cur = with_recs(recs)
    # drop constructor arguments that are not needed (the assigned ones stay)
    recs = copy.deepcopy(cur["records"])
    assigned = {(o["name"], o["param"]) for o in cur["ops"] if o["op"] == "assign"}
    for leaf in FU.leaves(recs):
        sigp = inspect.signature(getattr(cheetah, leaf["cls"]).__init__).parameters
        for p in list(leaf["args"]):
            if (leaf["name"], p) in assigned or p not in sigp or sigp[p].default is inspect.Parameter.empty \
                    or p in ("length", "effect_length") or p.startswith("num_grid_points"):
                continue
            saved = leaf["args"].pop(p)
            if not _fails(dict(cur, records=recs), fam):
                leaf["args"][p] = saved
    cur = dict(cur, records=recs)
    used = sorted({o["beam"] for o in cur["ops"] if "beam" in o})
    remap = {b: i for i, b in enumerate(used)}
    cur = dict(cur, beams=[cur["beams"][b] for b in used],
               ops=[dict(o, beam=remap[o["beam"]]) if "beam" in o else o for o in cur["ops"]])
    return cur


def describe(case) -> str:
    def d(o):
        if o["op"] == "assign":
            return f"{o['name']}.{o['param']}={o['value']!r}" + ("(via segment)" if o.get("via") == "segment" else "")
        if o["op"] == "track":
            return f"track({case['beams'][o['beam']]['bt']}#{o['beam']})"
        if o["op"] == "read":
            return f"read({o['name']})"
        if o["op"] == "clone":
            return f"clone:{o['mode']}"
        return f"{o['kind']}(except_for={o['except_for']}{', then track' if o.get('track') else ''})"
    return f"lattice [{FU.shape_str(case['records'])}]; ops: " + "; ".join(d(o) for o in case["ops"])


def _refine(sig: str, case: dict) -> str:
    """history / reading signatures name what is left of the history after shrinking (seed independent)"""
    p = sig.split("|")
    if p[1] == "history":
        left = sorted({(f"assign {_rec_of(case['records'], o['name'])['cls']}.{o['param']}" if o["op"] == "assign" else
                        op_kinds([o])) for o in case["ops"] if o["op"] not in ("track", "read")})
        return "|".join([p[0], p[1], ",".join(left) or "tracks only (" + FU.shape_str(case["records"]) + ")"] + p[2:])
    if p[1] == "reading":
        n = sum(o["op"] in ("track", "read", "optimise", "clone") for o in case["ops"])
        return "|".join(p[:3] + ["after an earlier pass or read-out" if n > 1 else "first pass"])
    return sig


def examine(rep, case: dict, do_shrink: bool = True) -> None:
    try:
        fl = run_history(case)
    except Rejected as ex:
        rep.count(f"case-rejected:{ex}")
        return
    budget = rep.__dict__.setdefault("_c11_shrinks", {})
    for sig, what in fl:
        small, sig2, what2 = case, sig, what
        if any(f.signature == sig for f in rep.failures):
            rep.fail("falsifier", sig, what, {})
            continue
        key = sig if family(sig) != "|".join(sig.split("|")[:2]) else family(sig)
        budget[key] = budget.get(key, 0) + 1
        if do_shrink and budget[key] > 4:         # this family was minimised several times already in this run
            rep.count("unshrunk-repeat:" + family(sig))
            continue
        if do_shrink:
            cand = shrink_case(case, sig)
            again = [(s, w) for s, w in run_history(cand, only=family(sig))]
            if again:
                small, (sig2, what2) = cand, again[0]
        sig2 = _refine(sig2, small)
        rep.fail("falsifier", sig2, f"{what2}  [{describe(small)}]"[:900], small)


def run(ctx) -> None:
    rep, rng = ctx.report, ctx.rng
    torch.set_num_threads(1)      # tiny tensors: threads only cost (and the machine may be shared)
    for i in range(ctx.n(450, 9000)):
        case = gen_case(rng)
        rep.fals_cases += 1
        for r in FU.leaves(case["records"]):
            rep.count(r["cls"])
        for o in case["ops"]:
            rep.count("op:" + op_kinds([o]))
        rep.case((FU.shape_str(case["records"]), op_kinds(case["ops"])),
                 {"lattice": FU.shape_str(case["records"]), "ops": op_kinds(case["ops"])} if i % 30 == 0 else None)
        examine(rep, case)


def corpus_case(ctx, r: dict) -> None:
    if r.get("kind") == "history":
        torch.set_num_threads(1)
        ctx.report.fals_cases += 1
        examine(ctx.report, r, do_shrink=False)
