"""C09 falsifier — a switched-off element behaves as a drift of the same length.

Clauses (each is one `kind` of case):
  off    Element(all strengths == 0).track(beam) == Drift(length, same tracking method).track(beam) for both beam types,
         whatever tilt / misalignment / edge angles / fringe / phase / frequency / num_steps; outputs finite; a
         zero-length element of zero strength returns the incoming beam. Exact (round-off) for the linear method, the
         Bmad-X bend and the deflecting cavity; up to L*|p_perp|^3 for the paraxial Bmad-X quadrupole.
  limit  strength = +-10^-n, n = 1..15: every output is finite and its distance to the zero-strength output is bounded
         by C*|strength| (C from the two largest strengths), i.e. the zero-strength output is the limit.
The oracle is the Drift of the same length and method (whose own correctness is C02/C07's subject) and the incoming
beam itself for zero length.
"""
from __future__ import annotations

import copy
import math
from typing import Optional

import numpy as np
import torch

import cheetah
import elements as E
import lattices as LT

META = {
    "rule": "case = (clause in {off, limit}) x element variant in {Quadrupole, Quadrupole(bmadx), Dipole, RBend, "
            "Dipole(bmadx), RBend(bmadx), Solenoid, Horizontal/VerticalCorrector, Cavity, TransverseDeflectingCavity, "
            "Undulator, Drift, Drift(bmadx)} x beam type x record of the remaining parameters (tilt, misalignment, edge "
            "angles, gap/fringe integrals, fringe_at, phase, frequency, num_steps: zeros and both signs) x length "
            "(incl. 0) x reference energy (2 MeV .. 20 GeV) x correlated off-axis beam with |delta| up to 5 %; limit: "
            "30 strengths +-10^-n per case; distinct = distinct (clause, variant, beam type, sign/zero pattern of "
            "every parameter)",
    "assumptions": [
        "exact clauses: 1e-9 relative to max(|value|, reference beam size) per coordinate / sigma_i*sigma_j per "
        "covariance entry (clean tree: <= 1e-11, dominated by the linear code's k1 == 0 -> 1e-12 substitution)",
        "paraxial Bmad-X quadrupole: |difference to the Bmad-X drift| <= L*|p_perp|^3 per particle (x, y, tau) plus the "
        "floor; tau floor 1e-10 m because low_energy_z_correction truncates its series in pz after third order "
        "(measured <= 7e-13 m on axis)",
        "limit: distance(s) <= 10 * |s| * max(distance(0.1)/0.1, distance(0.01)/0.01) + floor, per observable",
        "a bend is switched off when angle == 0 and k1 == 0; voltage strengths are swept in volts",
    ],
}

COORD = ["x", "px", "y", "py", "tau", "delta", "w"]
REF = np.array([2e-4, 2e-5, 2e-4, 2e-5, 1e-4, 1e-3, 1.0])
STATS: dict = {}


def _stat(label: str, ratio: float) -> None:
    if ratio == ratio and ratio != float("inf"):
        STATS[label] = max(STATS.get(label, 0.0), float(ratio))


# ------------------------------------------------------------------------------------------------
# element variants
# ------------------------------------------------------------------------------------------------
# tag -> (class, strength key or None, tracking method, beam types)
BOTH = ("ParticleBeam", "ParameterBeam")
VARIANTS = {
    "Quadrupole": ("Quadrupole", "k1", "cheetah", BOTH),
    "Quadrupole(bmadx)": ("Quadrupole", "k1", "bmadx", ("ParticleBeam",)),
    "Dipole": ("Dipole", "angle", "cheetah", BOTH),
    "RBend": ("RBend", "angle", "cheetah", BOTH),
    "Dipole(bmadx)": ("Dipole", "angle", "bmadx", ("ParticleBeam",)),
    "RBend(bmadx)": ("RBend", "angle", "bmadx", ("ParticleBeam",)),
    "Solenoid": ("Solenoid", "k", "cheetah", BOTH),
    "HorizontalCorrector": ("HorizontalCorrector", "angle", "cheetah", BOTH),
    "VerticalCorrector": ("VerticalCorrector", "angle", "cheetah", BOTH),
    "Cavity": ("Cavity", "V", "cheetah", BOTH),
    "TransverseDeflectingCavity": ("TransverseDeflectingCavity", "V", "bmadx", ("ParticleBeam",)),
    "Undulator": ("Undulator", None, "cheetah", BOTH),
    "Drift": ("Drift", None, "cheetah", BOTH),
    "Drift(bmadx)": ("Drift", None, "bmadx", ("ParticleBeam",)),
}
SWEEPABLE = [t for t, v in VARIANTS.items() if v[1] is not None]


def gen_off_record(rng, tag: str) -> dict:
    cls, key, method, _ = VARIANTS[tag]
    force = {}
    if key is not None:
        force[key] = 0.0
    if cls in ("Dipole", "RBend"):
        force["k1"] = 0.0
    if cls in ("Drift", "Quadrupole", "Dipole", "RBend"):
        force["method"] = method
    p = E.gen_params(rng, cls, force=force)
    if cls == "Quadrupole":
        p["num_steps"] = int(E.pick(rng, 1, 2, 5))
    if cls == "Dipole" and method == "bmadx":
        p["fringe_at"] = str(E.pick(rng, "both", "both", "neither", "entrance", "exit"))
    if cls in ("Cavity", "TransverseDeflectingCavity") and rng.random() < 0.08:
        p["L"] = 0.0
    return p


def build(p: dict):
    q = dict(p)
    extra = {}
    fa = q.pop("fringe_at", None)
    if fa is not None:
        extra["fringe_at"] = fa
    return E.build(q, **extra)


def drift_for(p: dict):
    method = "bmadx" if (p.get("method") == "bmadx" or p["cls"] == "TransverseDeflectingCavity") else "cheetah"
    return cheetah.Drift(length=E.t(p["L"]), tracking_method=method, dtype=torch.float64)


def make_beam(P: np.ndarray, En: float, bt: str):
    return LT.particle_beam(P, En) if bt == "ParticleBeam" else LT.parameter_beam_from(P, En)


# ------------------------------------------------------------------------------------------------
# observables of a beam: ordered (name, values, scale)
# ------------------------------------------------------------------------------------------------
def observables(b) -> list:
    """[(name, values (1-d array), scale (float))] in a canonical order (comparisons use the reference beam's scales)"""
    out = []
    if isinstance(b, cheetah.ParticleBeam):
        X = b.particles.detach().numpy().reshape(-1, 7)
        sc = np.maximum(np.max(np.abs(X), axis=0, initial=0.0), REF)
        sc = np.where(np.isfinite(sc), sc, REF)
        sc[0] = sc[2] = max(sc[0], sc[2])
        sc[1] = sc[3] = max(sc[1], sc[3])
        for j in range(7):
            out.append((COORD[j], X[:, j].copy(), float(sc[j])))
        out.append(("charges", b.particle_charges.detach().numpy().reshape(-1).copy(),
                    float(max(1e-300, np.max(np.abs(b.particle_charges.detach().numpy()), initial=0.0)))))
        out.append(("survival", b.survival_probabilities.detach().numpy().reshape(-1).copy(), 1.0))
    else:
        mu = b._mu.detach().numpy().reshape(7)
        C = b._cov.detach().numpy().reshape(7, 7)
        sg = np.maximum(np.sqrt(np.abs(np.diag(C))), REF)
        sg = np.where(np.isfinite(sg), sg, REF)
        sg[0] = sg[2] = max(sg[0], sg[2])
        sg[1] = sg[3] = max(sg[1], sg[3])
        sm = np.maximum(np.abs(mu), sg)
        sm = np.where(np.isfinite(sm), sm, sg)
        for j in range(7):
            out.append((f"mu[{COORD[j]}]", np.array([mu[j]]), float(sm[j])))
        for i in range(7):
            for j in range(7):
                out.append((f"cov[{COORD[i]},{COORD[j]}]", np.array([C[i, j]]), float(sg[i] * sg[j])))
        out.append(("charge", np.array([float(b.total_charge)]), max(1e-300, abs(float(b.total_charge)))))
    out.append(("energy", np.array([float(b.energy)]), abs(float(b.energy))))
    return out


def guard_allowance(p: dict, P: np.ndarray) -> np.ndarray:
    """the linear code (track_methods.base_rmatrix) replaces k1 == 0 by 1e-12 (documented): a switched-off element is
    a quadrupole of that strength. Allowed absolute deviation per coordinate, with 100x head-room:
    1e-10 * L * A for px, py and 1e-10 * L^2 * A for x, y; A = largest transverse offset from the element axis."""
    L = abs(p.get("L", 0.0))
    A = float(np.max(np.abs(P[:, [0, 2]]))) + L * float(np.max(np.abs(P[:, [1, 3]]))) \
        + max(abs(p.get("mx", 0.0)), abs(p.get("my", 0.0)))
    a = np.zeros(7)
    a[0] = a[2] = 1e-10 * L * L * A
    a[1] = a[3] = 1e-10 * L * A
    return a


def third_order_allowance(P: np.ndarray, L: float) -> np.ndarray:
    """paraxial quadrupole vs exact drift: L * |p_perp|^3 per particle (covers 0.5*L*P^3/(1+pz)^3 for |delta| <= 5 %)"""
    pp = np.sqrt(P[:, 1] ** 2 + P[:, 3] ** 2)
    return abs(L) * pp ** 3


# ------------------------------------------------------------------------------------------------
# clause "off"
# ------------------------------------------------------------------------------------------------
def check_off(c: dict):
    """None, or (kind, observable, human line)"""
    p, En, bt = c["params"], c["energy"], c["beam"]
    P = np.array(c["particles"], dtype=float)
    b = make_beam(P, En, bt)
    out = build(p).track(b)
    # clause: ... transforms every beam like a Drift of the same length tracked with the same method;
    #         a zero-length element of zero strength is the identity
    ref = b if p.get("L", 0.0) == 0.0 else drift_for(p).track(b)
    what_ref = "the incoming beam (zero length)" if p.get("L", 0.0) == 0.0 else "the drift"
    if type(out) is not type(ref):
        return "type", type(out).__name__, f"returns a {type(out).__name__}"
    o, r = observables(out), observables(ref)
    paraxial = p["cls"] == "Quadrupole" and p.get("method") == "bmadx"
    allow = third_order_allowance(P, p["L"]) if paraxial else None
    rtol = 1e-9
    # clause: outputs at zero strength are finite
    for (name, v, _), (_, w, _) in zip(o, r):
        if v.shape != w.shape:
            return "shape", name, f"{name}: shape {v.shape} vs {w.shape}"
        if not np.all(np.isfinite(v)):
            return "non-finite", "track", f"{name} = {v[int(np.argmax(~np.isfinite(v)))]!r}, {what_ref} gives finite values"
    label = "off:" + c["tag"]
    guard = guard_allowance(p, P) if p.get("method", "cheetah") == "cheetah" else np.zeros(7)
    sgm = {n[3:-1]: sc for n, _, sc in r if n.startswith("mu[")}
    for (name, v, _), (_, w, sc) in zip(o, r):
        tol = np.full(v.shape, rtol * sc)
        if name in COORD:
            tol = tol + guard[COORD.index(name)]
        elif name.startswith("mu["):
            tol = tol + guard[COORD.index(name[3:-1])]
        elif name.startswith("cov["):
            i, j = name[4:-1].split(",")
            tol = tol + guard[COORD.index(i)] * sgm[j] + guard[COORD.index(j)] * sgm[i]
        if paraxial and name in ("x", "y", "tau"):
            tol = tol + allow
            if name == "tau":
                tol = tol + 1e-10
        d = np.abs(v - w) / tol
        _stat(label, float(d.max(initial=0.0)))
        if d.max(initial=0.0) > 1.0:
            i = int(np.argmax(d))
            return "differs", name, f"{name} = {v[i]!r}, {what_ref} gives {w[i]!r}"
    return None


# ------------------------------------------------------------------------------------------------
# clause "limit"
# ------------------------------------------------------------------------------------------------
LEVELS = list(range(1, 16))


def strength_value(c: dict, s: float) -> float:
    """`unit` "abs": the strength parameter itself is +-10^-n (1/m^2, rad, 1/m, V); "rel" (voltages only): the
    dimensionless strength voltage / reference energy is +-10^-n"""
    return s * c["energy"] if c.get("unit", "abs") == "rel" else s


def check_limit(c: dict) -> list:
    """list of (kind, observable class, human line); empty when the clause holds"""
    p, En, bt, key = c["params"], c["energy"], c["beam"], c["key"]
    P = np.array(c["particles"], dtype=float)
    b = make_beam(P, En, bt)
    tag = c["tag"]
    out0 = build(dict(p, **{key: 0.0})).track(b)
    ob0 = observables(out0)
    if not all(np.all(np.isfinite(v)) for _, v, _ in ob0):
        # the zero-strength output itself is broken (reported by the clause "off"): the limit is the drift
        ob0 = observables(drift_for(p).track(b))
    names = [n for n, _, _ in ob0]
    floor = np.array([1e-9 * sc for _, _, sc in ob0])
    if tag == "Quadrupole(bmadx)":
        floor[names.index("tau")] += 1e-10
    nl, nk = len(LEVELS), len(names)
    D = np.full((nl, nk), np.nan)     # distance per level (max over both signs and particles)
    V: list = []                      # signed differences: V[level][sign][observable] (None where not finite)
    nonfinite = None
    label = key + ("/E" if c.get("unit", "abs") == "rel" else "")
    for li, n in enumerate(LEVELS):
        row = np.zeros(nk)
        V.append([])
        for sg in (1.0, -1.0):
            s = sg * 10.0 ** (-n)
            try:
                ob = observables(build(dict(p, **{key: strength_value(c, s)})).track(b))
            except Exception as ex:
                return [("exception", type(ex).__name__, f"{label} = {s!r}: {type(ex).__name__}: {ex}")]
            vs = []
            for k, ((name, v, _), (_, w, _)) in enumerate(zip(ob, ob0)):
                if v.shape != w.shape or not np.all(np.isfinite(v)):
                    row[k] = np.inf
                    vs.append(None)
                    if nonfinite is None:
                        nonfinite = (name, s)
                else:
                    vs.append(v - w)
                    row[k] = max(row[k], float(np.max(np.abs(v - w), initial=0.0)))
            V[li].append(vs)
        D[li] = row
    res = []
    # clause: outputs ... for vanishing strength are finite (they must have a limit)
    if nonfinite is not None:
        res.append(("non-finite", "track", f"{nonfinite[0]} is not finite at {label} = {nonfinite[1]!r}"))
    S = np.array([10.0 ** (-n) for n in LEVELS])
    seen = set()
    for k, name in enumerate(names):
        d = D[:, k]
        fin = np.isfinite(d)
        if not fin[0] or not fin[1]:
            continue
        # clause: the zero-strength output is the limit: distance <= C * |strength|, C from the two largest strengths
        slope = max(d[0] / S[0], d[1] / S[1])
        bound = 10.0 * S * slope + floor[k]
        g = group(name)
        # a jump: the same offset (every particle, both signs, within 20 %) over four decades of the strength
        dd = d
        for n0 in range(nl - 3):
            vecs = [V[n][sg][k] for n in range(n0, n0 + 4) for sg in (0, 1)]
            if any(v is None for v in vecs):
                break
            a = float(np.max(np.abs(vecs[0]), initial=0.0))
            if a > 100.0 * floor[k] and a > bound[n0 + 3] and \
                    all(float(np.max(np.abs(v - vecs[0]), initial=0.0)) <= 0.2 * a for v in vecs):
                if ("jump", g) not in seen:
                    seen.add(("jump", g))
                    res.append(("jump", g, f"{name}: the output differs from the {key} = 0 output by the same {a:.3g} for "
                                           f"|{label}| = {S[n0]:.0e} .. {S[n0 + 3]:.0e} (both signs): discontinuous at 0"))
                # what remains once the jump is taken out must still converge
                dd = np.array([max((float(np.max(np.abs(V[n][sg][k] - V[n0][sg][k]), initial=0.0))
                                    if V[n][sg][k] is not None else np.inf) for sg in (0, 1)) if n > n0 else 0.0
                               for n in range(nl)])
                break
        with np.errstate(invalid="ignore"):
            ratio = np.where(np.isfinite(dd), dd / bound, 0.0)
        _stat("limit:" + tag, float(ratio.max()))
        if ratio.max() <= 1.0 or ("limit", g) in seen:
            continue
        seen.add(("limit", g))
        li = int(np.argmax(ratio))
        res.append(("limit", g,
                    f"{name}: distance to the {key} = 0 output{' (jump taken out)' if dd is not d else ''} is {dd[li]:.3g} "
                    f"at |{label}| = {S[li]:.0e} (it is {d[0]:.3g} at 1e-01 and {d[1]:.3g} at 1e-02; allowed "
                    f"{bound[li]:.3g})"))
    return res


LONG = ("tau", "delta")


def group(name: str) -> str:
    """coarse class of an observable (the limit clause reports one failure per class: round-off noise decides which
    single coordinate is hit first, the class is stable)"""
    if name in ("energy", "charge", "charges", "survival"):
        return name
    inner = name[name.index("[") + 1:-1].split(",") if "[" in name else [name]
    if "w" in inner:
        return "affine"
    return "longitudinal" if any(i in LONG for i in inner) else "transverse"


# ------------------------------------------------------------------------------------------------
# shrinking and signatures
# ------------------------------------------------------------------------------------------------
NEUTRAL = [("tilt", 0.0), ("mx", 0.0), ("my", 0.0), ("e1", 0.0), ("e2", 0.0), ("gap", 0.0), ("fint", 0.0),
           ("fintx", 0.0), ("phase", 0.0)]


def candidates(c: dict):
    p = c["params"]
    for k, val in NEUTRAL:
        if k in p and p[k] != val:
            yield {**c, "params": {**p, k: val}}
    if p.get("fringe_at", "neither") != "neither":
        yield {**c, "params": {**p, "fringe_at": "neither"}}
    if p.get("num_steps", 1) != 1:
        yield {**c, "params": {**p, "num_steps": 1}}
    if p.get("freq", 1.3e9) != 1.3e9:
        yield {**c, "params": {**p, "freq": 1.3e9}}
    if p["cls"] == "RBend":      # the same magnet written as a Dipole: is the failure RBend's own?
        yield {**c, "tag": c["tag"].replace("RBend", "Dipole"),
               "params": {**p, "cls": "Dipole", "e1": p["e1"] + p["angle"] / 2, "e2": p["e2"] + p["angle"] / 2}}
    if p.get("L", 1.0) != 1.0 and (c["kind"] == "off" or p.get("L") != 0.0):
        yield {**c, "params": {**p, "L": 1.0}}
    if c["kind"] == "limit" and c["energy"] != 5e6:
        yield {**c, "energy": 5e6}        # (not part of the signature; low energy shows longitudinal effects best)
    if c["kind"] == "off":
        if c["energy"] not in (1e8, 5e6):
            yield {**c, "energy": 1e8}
            yield {**c, "energy": 5e6}
        elif c["energy"] == 5e6:
            yield {**c, "energy": 1e8}
        P = c["particles"]
        if c["beam"] == "ParticleBeam":
            if len(P) > 1:
                for row in P:
                    yield {**c, "particles": [row]}
            else:
                for j in (5, 4, 0, 1, 2, 3):
                    if P[0][j] != 0.0:
                        row = list(P[0])
                        row[j] = 0.0
                        yield {**c, "particles": [row]}


def results(c: dict) -> list:
    try:
        if c["kind"] == "off":
            r = check_off(c)
            return [r] if r is not None else []
        return check_limit(c)
    except Exception as ex:
        return [("exception", type(ex).__name__, f"{type(ex).__name__}: {ex}")]


def shrink_case(c: dict, target: tuple, max_evals: int) -> tuple:
    """greedy snapping while a failure with the same (kind, observable) persists"""
    cur = c
    res = [r for r in results(c) if r[:2] == target][0]
    evals, progress = 0, True
    while progress and evals < max_evals:
        progress = False
        for cand in candidates(cur):
            evals += 1
            hit = [r for r in results(cand) if r[:2] == target]
            if hit:
                cur, res, progress = cand, hit[0], True
                break
            if evals >= max_evals:
                break
    return cur, res


def predicate(c: dict) -> str:
    p = c["params"]
    key = VARIANTS[c["tag"]][1]
    f = []
    if p.get("L") == 0.0:
        f.append("L==0")
    if key is not None:
        f.append(f"{key}==0" if c["kind"] == "off" else f"{key}->0")
    if p.get("fringe_at", "neither") != "neither":
        f.append("fringe")
    for k in ("e1", "e2"):
        if p.get(k, 0.0) != 0.0:
            f.append(k + "!=0")
    if p.get("gap", 0.0) != 0.0 and (p.get("fint", 0.0) != 0.0 or p.get("fintx", 0.0) != 0.0):
        f.append("fint*gap!=0")
    if p.get("num_steps", 1) != 1:
        f.append("num_steps>1")
    if p.get("tilt", 0.0) != 0.0:
        f.append("tilt!=0")
    if p.get("mx", 0.0) != 0.0 or p.get("my", 0.0) != 0.0:
        f.append("misaligned")
    if p.get("phase", 0.0) != 0.0:
        f.append("phase!=0")
    if p.get("freq", 1.3e9) != 1.3e9:
        f.append("freq==0" if p["freq"] == 0.0 else "freq!=1.3e9")
    if c["kind"] == "off":
        if c["energy"] != 1e8:
            f.append("E<20MeV" if c["energy"] < 2e7 else "E!=1e8")
        if c["beam"] == "ParticleBeam" and len(c["particles"]) == 1:
            if c["particles"][0][5] != 0.0:
                f.append("delta!=0")
            if c["particles"][0][4] != 0.0:
                f.append("tau!=0")
    return "&".join(f) or "generic"


def desc(p: dict) -> str:
    return "(" + ", ".join(f"{k}={v!r}" for k, v in p.items() if k not in ("cls", "method", "name")) + ")"


def sig_tag(tag: str) -> str:
    return tag.replace("RBend(bmadx)", "Dipole(bmadx)")     # RBend inherits Dipole's Bmad-X tracking


def examine(rep, c: dict, done: Optional[dict] = None, do_shrink: bool = True) -> None:
    for r in results(c):
        pre = (sig_tag(c["tag"]), c["kind"], c["beam"], r[0], r[1], c["params"].get("L") == 0.0)
        if done is not None:
            done[pre] = done.get(pre, 0) + 1
            if done[pre] > 3:           # the same failure class was already minimised three times in this run
                continue
        small, r2 = (c, r)
        if do_shrink and r[0] != "exception":
            small, r2 = shrink_case(c, r[:2], 40 if c["kind"] == "limit" else 120)
        obs = "non-finite" if r2[0] == "non-finite" else f"{r2[0]}:{r2[1]}"
        sig = f"C09|{sig_tag(small['tag'])}|{predicate(small)}|{small['beam']}|{obs}"
        rep.fail("falsifier", sig,
                 f"{small['kind']}: {small['tag']} {desc(small['params'])} at E = {small['energy']:.6g} eV, {small['beam']}: "
                 f"{r2[2]}", {**small, "failure": list(r2)})


# ------------------------------------------------------------------------------------------------
# generation
# ------------------------------------------------------------------------------------------------
def gen_particles(rng, n: int, En: float) -> list:
    P = LT.gen_particles(rng, n)
    P[:, 5] *= float(E.pick(rng, 1.0, 1.0, 10.0, 30.0))
    P[:, :4] *= float(E.pick(rng, 1.0, 1.0, 5.0, 50.0))
    P[:, 5] = np.clip(P[:, 5], -0.05, 0.05)
    p0 = math.sqrt(En ** 2 - E.MC2 ** 2)
    P[:, 5] = np.maximum(P[:, 5], (1.2 * E.MC2 - En) / p0)
    return P.tolist()


def cfg_key(kind: str, tag: str, bt: str, p: dict) -> tuple:
    return (kind, tag, bt) + E.config_key(p) + (p.get("fringe_at"), p.get("num_steps"))


def run(ctx) -> None:
    rep, rng = ctx.report, ctx.rng
    done: dict = {}
    n_off = ctx.n(40, 800)
    for tag, (cls, key, method, beams) in VARIANTS.items():
        for i in range(n_off if key is not None else max(4, n_off // 5)):
            p = gen_off_record(rng, tag)
            if i == 0:
                p["L"] = 0.0                      # every variant meets the zero-length identity clause in every run
            En = E.energy(rng, low=(i % 4 == 1))
            P = gen_particles(rng, 10, En)
            for bt in beams:
                c = {"kind": "off", "tag": tag, "params": p, "energy": En, "beam": bt, "particles": P}
                rep.fals_cases += 1
                rep.count(f"off:{tag}:{bt}" + (":L=0" if p.get("L") == 0.0 else ""))
                rep.case(cfg_key("off", tag, bt, p),
                         {"kind": "off", "tag": tag, "params": p, "energy": En, "beam": bt} if rng.random() < 0.01 else None)
                examine(rep, c, done)
    n_lim = ctx.n(3, 40)
    for tag in SWEEPABLE:
        cls, key, method, beams = VARIANTS[tag]
        for i in range(n_lim):
            p = gen_off_record(rng, tag)
            if p["L"] == 0.0:
                p["L"] = float(E.pick(rng, 0.3, 1.0))
            En = [5e6, 1e8][i] if i < 2 else E.energy(rng)   # the sweep always meets a low and a high energy
            P = gen_particles(rng, 6, En)
            for bt in beams:
                for unit in (("abs", "rel") if key == "V" else ("abs",)):
                    c = {"kind": "limit", "tag": tag, "key": key, "unit": unit, "params": p, "energy": En, "beam": bt,
                         "particles": P}
                    rep.fals_cases += 1
                    rep.count(f"limit:{tag}:{bt}:{unit}")
                    rep.case(cfg_key("limit:" + unit, tag, bt, p))
                    examine(rep, c, done)


def corpus_case(ctx, r: dict) -> None:
    if r.get("kind") in ("off", "limit") and "params" in r and r.get("tag") in VARIANTS:
        ctx.report.fals_cases += 1
        c = {k: v for k, v in r.items() if k not in ("failure", "more_cases")}
        examine(ctx.report, copy.deepcopy(c))
