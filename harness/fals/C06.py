"""C06 falsifier — ParameterBeam tracking equals the moments of ParticleBeam tracking.

Case = (lattice of linear-method elements, reference energy, particle set).  The particle set is tracked as a
ParticleBeam; the ParameterBeam built from its sample mean / unbiased sample covariance (numpy) is tracked through a
freshly built copy of the same lattice.  Oracle = numpy mean / cov(ddof=1) of the tracked particle array.
"""
from __future__ import annotations

import os

import numpy as np
import torch

import cheetah
import elements as E
import lattices as LT

META = {
    "rule": "case = lattice (1 element of every linear class in turn, or a random nested segment of 2..6 of them) x "
            "reference energy x particle set (correlated / off-axis / far off-axis / chirped / on-axis / cold plane / "
            "fewer particles than dimensions); distinct = distinct (class sequence with on/off/active flags, beam "
            "variant)",
    "assumptions": [
        "moments compared with |d mean_i| <= 1e-9*s_i + 1e-12*m_i and |d cov_ij| <= 1e-9*s_i*s_j + 1e-12*(m_i*q_j + "
        "q_i*m_j + q_i*q_j): s = outgoing rms size (floored at 1e-6 of the generator's beam size), m / q = magnitude of "
        "the coordinates / of the spreads propagated through |R| of every element (bound of the round-off of either "
        "route; + 1e-24*m_i*m_j for the square of the round-off of a coordinate without spread); measured round-off on "
        "the clean tree <= 4e-12*s (dipoles, mean) and <= 1e-12*s_i*s_j",
        "active cavity: only the 4 transverse means and 10 transverse second moments are compared; lattices never put "
        "a dispersive element (Dipole, RBend) after an active cavity and keep the running energy above 3 MeV",
        "positive semi-definite: smallest eigenvalue of the covariance normalised to unit diagonal >= -(1e-9 + "
        "1e-11*max_i (q_i/s_i)^2)",
        "active apertures are only generated with an opening that no particle reaches (a finite aperture acting on a "
        "ParameterBeam is documented as unsupported)",
        "one report per case: the first violated clause in the order energy, total charge, means, second moments, "
        "symmetry, positive semi-definiteness; signature = C06|<culprit>|<clause>, culprit = the first element of the "
        "shrunk lattice that violates the clause on its own given the particles that reach it (else the shrunk lattice)",
        "all round-off tolerances keep >= 100x head-room on the clean tree (VERIF_TOL_SCALE=0.01 passes seeds 0..7)",
    ],
}

# development knob: VERIF_TOL_SCALE=0.01 verifies the 100x head-room of every tolerance on the clean tree
TS = float(os.environ.get("VERIF_TOL_SCALE", "1"))
GEN_SIG = np.array([2e-4, 2e-5, 2e-4, 2e-5, 1e-4, 1e-3])

SINGLE_KINDS = ["Drift", "Quadrupole", "Dipole", "RBend", "Solenoid", "HorizontalCorrector", "VerticalCorrector",
                "Undulator", "Marker", "BPM", "ActiveBPM", "Screen", "ActiveScreen", "BlockingScreen", "Aperture",
                "OpenAperture", "OffCavity", "ActiveCavity", "CustomTransferMap"]
# segments: everything above; the dispersive kinds are not drawn after an active cavity
SEG_MIX = (["Drift"] * 3 + ["Quadrupole"] * 4 + ["Dipole", "RBend", "Solenoid", "HorizontalCorrector",
           "VerticalCorrector", "Undulator", "Marker", "BPM", "ActiveBPM", "Screen", "ActiveScreen", "Aperture",
           "OpenAperture", "OffCavity", "OffCavity", "ActiveCavity", "ActiveCavity", "CustomTransferMap"])
DISPERSIVE = ("Dipole", "RBend")
E_MIN = 3e6

GROUPS = ["energy", "total_charge", "mean:transverse", "mean:longitudinal", "cov:transverse", "cov:longitudinal",
          "cov:transverse-longitudinal", "cov:symmetry", "cov:psd"]


# ------------------------------------------------------------------------------------------------
# generation
# ------------------------------------------------------------------------------------------------
def gen_record(rng, kind: str) -> dict:
    if kind == "BlockingScreen":
        return E.gen_params(rng, "Screen", force={"active": True, "blocking": True})
    if kind == "Aperture":
        return E.gen_params(rng, "Aperture", force={"active": False})
    if kind == "OpenAperture":
        # active, but with an opening no particle can reach (strong lattices blow the beam up to kilometres)
        return E.gen_params(rng, "Aperture", force={"active": True, "xmax": float("inf"), "ymax": float("inf"),
                                                    "shape": E.pick(rng, "rectangular", "elliptical")})
    if kind == "ActiveCavity":
        p = E.gen_params(rng, "Cavity")
        if p["V"] == 0.0:
            p["V"] = float(E.pick(rng, 1e5, -2e6, 1e7))
        return p
    return LT.gen_record(rng, kind)


def gain(r: dict) -> float:
    return r["V"] * float(np.cos(np.deg2rad(r["phase"]))) if r["cls"] == "Cavity" else 0.0


def gen_lattice(rng, En: float) -> list[dict]:
    n = int(rng.integers(2, 7))
    recs, seen_cav, e = [], False, En
    while len(recs) < n:
        kind = SEG_MIX[int(rng.integers(len(SEG_MIX)))]
        if seen_cav and kind in DISPERSIVE:
            continue
        r = gen_record(rng, kind)
        if e + gain(r) < E_MIN:
            continue
        e += gain(r)
        seen_cav = seen_cav or (r["cls"] == "Cavity" and r["V"] != 0.0)
        r["name"] = f"el{len(recs)}"
        recs.append(r)
    return LT.nest(rng, recs, p=0.25)


BEAM_VARIANTS = ["correlated", "correlated", "far-off-axis", "chirped", "on-axis", "cold-plane", "few-particles"]


def gen_particles(rng, variant: str) -> np.ndarray:
    n = int(rng.integers(8, 40))
    if variant == "few-particles":
        n = int(rng.integers(2, 7))          # rank-deficient sample covariance
    mix = np.eye(6) + 0.3 * rng.normal(size=(6, 6))
    if variant == "chirped":
        c = float(E.pick(rng, 0.9, -0.9, 0.99, -0.99))
        mix[4, 5] += c / np.sqrt(1 - c * c)  # strong tau-p correlation
    z = rng.normal(size=(n, 6))
    P = (z @ mix.T) * GEN_SIG
    if variant == "cold-plane":
        k = int(rng.integers(0, 6))
        P[:, k] = 0.0                        # zero spread in one coordinate
    if variant == "far-off-axis":
        P += rng.normal(size=6) * 10.0 * GEN_SIG
    elif variant != "on-axis":
        P += rng.normal(size=6) * 0.5 * GEN_SIG
    out = np.ones((n, 7))
    out[:, :6] = P
    return out


# ------------------------------------------------------------------------------------------------
# the check
# ------------------------------------------------------------------------------------------------
def active_cavity_in(recs) -> bool:
    return any(r["cls"] == "Cavity" and r["V"] != 0.0 for r in LT.leaves(recs))


def magnitudes(recs, P, En):
    """(m, q): magnitude of the coordinates / of their spreads, propagated through |R_k| of every leaf element
    (used only to scale the round-off part of the tolerance)."""
    m = np.abs(P).max(axis=0)
    q = np.zeros(7)
    q[:6] = np.maximum(P[:, :6].std(axis=0), 0.0) if P.shape[0] > 1 else 0.0
    q[:6] = np.maximum(q[:6], np.abs(P[:, :6] - P[:, :6].mean(axis=0)).max(axis=0))
    e = En
    for r in LT.leaves(recs):
        try:
            R = np.abs(E.build(r).transfer_map(E.t(e)).numpy().reshape(7, 7))
        except Exception:
            R = np.eye(7)
        m, q = R @ m, R @ q
        # the cavity's track adds second-order terms to tau and replaces delta: cover them generously
        if r["cls"] == "Cavity" and r["V"] != 0.0:
            m[4:6] = m[4:6] * 2
            q[4:6] = q[4:6] * 2
        e += gain(r)
    return m, q


def compare(recs, P, En):
    """-> list of (group, description) of violated clauses (empty = property holds on this case)."""
    bp = LT.particle_beam(P, En)
    bm = LT.parameter_beam_from(P, En)
    if len(recs) == 1 and recs[0]["cls"] != "Segment":
        op = E.build(recs[0]).track(bp)
        om = E.build(recs[0]).track(bm)
    else:
        op = LT.build_segment(recs).track(bp)
        om = LT.build_segment(recs).track(bm)
    bad = []
    # clause: reference energy and total charge of the two outgoing beams agree for every element
    ep, em = float(op.energy), float(om.energy)
    if not abs(ep - em) <= TS * 1e-12 * max(abs(ep), abs(em)):
        bad.append(("energy", f"energy ParticleBeam {ep!r} vs ParameterBeam {em!r}"))
    qp, qm = float(op.total_charge), float(om.total_charge)
    if not abs(qp - qm) <= TS * 1e-9 * max(abs(qp), abs(qm), 1e-30):
        bad.append(("total_charge", f"total_charge ParticleBeam {qp!r} vs ParameterBeam {qm!r}"))
    if not isinstance(om, cheetah.ParameterBeam) or not isinstance(op, cheetah.ParticleBeam):
        bad.append(("energy", f"outgoing beam types {type(op).__name__}, {type(om).__name__}"))
        return bad

    X = op.particles.detach().numpy().reshape(-1, 7)
    n = X.shape[0]
    mu_s = X[:, :6].mean(axis=0)                                  # oracle: ordinary sample statistics
    C_s = np.cov(X[:, :6].T) if n > 1 else np.zeros((6, 6))
    mu_m = om._mu.detach().numpy().reshape(7)[:6]
    C_m = om._cov.detach().numpy().reshape(7, 7)[:6, :6]
    if not (np.all(np.isfinite(mu_m)) and np.all(np.isfinite(C_m)) and np.all(np.isfinite(X))):
        if np.all(np.isfinite(X)) != (np.all(np.isfinite(mu_m)) and np.all(np.isfinite(C_m))):
            bad.append(("mean:transverse", "non-finite moments in one beam type only"))
        return bad

    m, q = magnitudes(recs, P, En)
    m, q = m[:6], q[:6]
    s = np.sqrt(np.maximum(np.abs(np.diag(C_s)), np.abs(np.diag(C_m))))
    s = np.maximum(s, 1e-6 * GEN_SIG)
    tol_mu = TS * (1e-9 * s + 1e-12 * m)
    tol_C = TS * (1e-9 * np.outer(s, s) + 1e-12 * (np.outer(m, q) + np.outer(q, m) + np.outer(q, q)) + 1e-24 * np.outer(m, m))
    dmu = np.abs(mu_s - mu_m)
    dC = np.abs(C_s - C_m)
    cav = active_cavity_in(recs)
    T, L = [0, 1, 2, 3], [4, 5]

    def worst(D, tol, rows, cols, name, A, B):
        sub = (D / tol)[np.ix_(rows, cols)] if D.ndim == 2 else (D / tol)[rows]
        if sub.max() > 1.0:
            i = np.unravel_index(np.argmax(sub), sub.shape)
            idx = (rows[i[0]], cols[i[1]]) if D.ndim == 2 else (rows[i[0]],)
            return f"{name}{list(idx)}: tracked particles give {float(A[idx])!r}, tracked ParameterBeam has {float(B[idx])!r}"
        return None

    # clause: exactly the sample mean and covariance of the tracked ParticleBeam (all 6 means, 21 second moments);
    # active cavity: the transverse moments only
    w = worst(dmu, tol_mu, T, None, "mean", mu_s, mu_m)
    if w:
        bad.append(("mean:transverse", w))
    w = worst(dC, tol_C, T, T, "cov", C_s, C_m)
    if w:
        bad.append(("cov:transverse", w))
    if not cav:
        w = worst(dmu, tol_mu, L, None, "mean", mu_s, mu_m)
        if w:
            bad.append(("mean:longitudinal", w))
        w = worst(dC, tol_C, L, L, "cov", C_s, C_m)
        if w:
            bad.append(("cov:longitudinal", w))
        w = worst(dC, tol_C, T, L, "cov", C_s, C_m)
        if w:
            bad.append(("cov:transverse-longitudinal", w))
    # clause: the outgoing covariance is symmetric ...
    asym = np.abs(C_m - C_m.T) / tol_C
    if asym.max() > 1.0:
        i = np.unravel_index(np.argmax(asym), asym.shape)
        bad.append(("cov:symmetry", f"cov[{i[0]},{i[1]}]={float(C_m[i])!r} vs cov[{i[1]},{i[0]}]={float(C_m.T[i])!r}"))
    # ... positive semi-definite
    d = np.diag(C_m)
    sd = np.maximum(np.sqrt(np.abs(d)), 1e-6 * GEN_SIG)
    N = 0.5 * (C_m + C_m.T) / np.outer(sd, sd)
    lam = float(np.linalg.eigvalsh(N).min())
    tol_psd = TS * (1e-9 + 1e-11 * float(np.max((q / s) ** 2)))
    if lam < -tol_psd:
        k = int(np.argmin(d / (sd * sd)))
        extra = f"; diagonal cov[{k},{k}]={float(d[k])!r}" if d[k] / (sd[k] ** 2) < -tol_psd else ""
        if not extra:
            Rn = np.abs(C_m) / np.outer(sd, sd)
            np.fill_diagonal(Rn, 0.0)
            i, j = np.unravel_index(np.argmax(Rn), Rn.shape)
            if Rn[i, j] > 1.0:
                extra = (f"; |cov[{i},{j}]| = {abs(float(C_m[i, j])):.6g} > sqrt(cov[{i},{i}]*cov[{j},{j}]) = "
                         f"{float(np.sqrt(abs(d[i] * d[j]))):.6g}")
        bad.append(("cov:psd", f"smallest eigenvalue of the normalised outgoing covariance {lam:.3e} < 0{extra}"))
    return bad


def safe_compare(recs, P, En):
    try:
        return compare(recs, P, En)
    except Exception as ex:  # an exception in one beam type for a valid configuration
        return [("exception", f"{type(ex).__name__}: {str(ex)[:200]}")]


SNAP = {"L": (1.0,), "k1": (0.0, 1.0), "angle": (0.0, 0.1), "e1": (0.0,), "e2": (0.0,), "tilt": (0.0,), "gap": (0.0,),
        "fint": (0.0,), "fintx": (0.0,), "mx": (0.0,), "my": (0.0,), "k": (0.0, 1.0), "V": (1e6,), "phase": (0.0,),
        "freq": (1.3e9,)}


def minimise(recs, P, En, group):
    """smaller replay with the same culprit and the same violated clause: fewer particles, simple parameter values"""
    sig = LT.class_seq(recs)

    def same(r_, P_, E_):
        return LT.class_seq(r_) == sig and any(g == group for g, _ in safe_compare(r_, P_, E_)[:1])
    for k in (2, 3, 4, 8):
        if k < P.shape[0] and same(recs, P[:k], En):
            P = P[:k]
            break
    for e_ in (1e8, 1e9):
        if e_ != En and same(recs, P, e_):
            En = e_
            break
    if all(r["cls"] != "Segment" for r in recs):
        recs = [dict(r) for r in recs]
        for i, r in enumerate(recs):
            for key, cands in SNAP.items():
                if key in r and isinstance(r[key], float):
                    for v in cands:
                        if r[key] != v:
                            trial = recs[:i] + [dict(r, **{key: v})] + recs[i + 1:]
                            if En + sum(gain(x) for x in trial) >= E_MIN and same(trial, P, En):
                                recs, r = trial, trial[i]
                                break
    return recs, P, En


def examine(rep, recs, P, En, variant, do_shrink=True) -> None:
    # one report per case: the first violated clause (in the order energy, charge, means, second moments, symmetry,
    # positive semi-definiteness); the later ones are as a rule consequences of the first
    bad = safe_compare(recs, P, En)[:1]
    for group, desc in bad:
        small = recs
        if do_shrink:
            def fails(cand, _g=group):
                return any(g == _g for g, _ in safe_compare(cand, P, En)[:1])
            if len(recs) > 1 or recs[0]["cls"] == "Segment":
                small = LT.shrink_tree(recs, fails)
                # culprit: the first element that violates the clause on its own, given the particles that reach it
                cur = LT.particle_beam(P, En)
                for r in LT.leaves(small) if len(LT.leaves(small)) > 1 else []:
                    Pk, Ek = cur.particles.detach().numpy().reshape(-1, 7).copy(), float(cur.energy)
                    if any(g == group for g, _ in safe_compare([r], Pk, Ek)[:1]):
                        small, P, En = [r], Pk, Ek
                        break
                    try:
                        cur = E.build(r).track(cur)
                    except Exception:
                        break
            sig = f"C06|{LT.class_seq(small)}|{group}"
            if any(f.signature == sig for f in rep.failures):     # already reported with a minimised replay
                rep.fail("falsifier", sig, "", {})
                continue
            small, P, En = minimise(small, P, En, group)
            desc = next((d for g, d in safe_compare(small, P, En)[:1] if g == group), desc)
        rep.fail("falsifier", f"C06|{LT.class_seq(small)}|{group}",
                 f"[{LT.class_seq(small)}] at {En:.6g} eV, {P.shape[0]} particles ({variant}): {desc}",
                 {"kind": "lattice", "records": small, "energy": En, "particles": P.tolist(), "variant": variant,
                  "group": group})


def run(ctx) -> None:
    # small tensors only: intra-op threading costs far more than it gives (x100 on a loaded machine)
    nthreads = torch.get_num_threads()
    torch.set_num_threads(1)
    try:
        _run(ctx)
    finally:
        torch.set_num_threads(nthreads)


def _run(ctx) -> None:
    rep, rng = ctx.report, ctx.rng
    # single elements: every class in turn
    for _ in range(ctx.n(15, 400)):
        for kind in SINGLE_KINDS:
            while True:
                r = gen_record(rng, kind)
                En = E.energy(rng)
                if En + gain(r) >= E_MIN and En >= E_MIN:
                    break
            variant = BEAM_VARIANTS[int(rng.integers(len(BEAM_VARIANTS)))]
            P = gen_particles(rng, variant)
            rep.fals_cases += 1
            rep.count("single:" + LT.class_seq([r]))
            rep.count("beam:" + variant)
            rep.case(("single", LT.class_seq([r]), variant), None)
            examine(rep, [r], P, En, variant)
    # segments
    for _ in range(ctx.n(250, 6000)):
        En = max(E.energy(rng), E_MIN)
        recs = gen_lattice(rng, En)
        variant = BEAM_VARIANTS[int(rng.integers(len(BEAM_VARIANTS)))]
        P = gen_particles(rng, variant)
        rep.fals_cases += 1
        rep.count("segment:len%d" % len(LT.leaves(recs)))
        rep.count("segment:with-active-cavity" if active_cavity_in(recs) else "segment:linear")
        rep.count("beam:" + variant)
        rep.case(("segment", LT.class_seq(recs), variant), {"lattice": LT.class_seq(recs), "beam": variant,
                                                            "energy": En})
        examine(rep, recs, P, En, variant)


def corpus_case(ctx, r: dict) -> None:
    if r.get("kind") == "lattice":
        ctx.report.fals_cases += 1
        examine(ctx.report, r["records"], np.array(r["particles"], dtype=float), float(r["energy"]),
                r.get("variant", "stored"), do_shrink=False)
