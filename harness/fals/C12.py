"""C12 falsifier — dtype is preserved and float64 simulations are float64-accurate.

Three independent detectors, all on the real code:

(A) dtype audit.  Scenarios (element construction / clone / split / transfer_map / track / readings for every element
    kind, beam constructors and transformations for both beam types, the lattice optimisations of Segment, the
    importers) are run in float32 and float64; every floating tensor of every result (buffers, parameters, tensor
    attributes such as BPM.reading, returned tensors) must have the working dtype; a stage that raises in exactly one
    of the two dtypes is a failure (dtype mix inside the library).
(B) float32 inside float64.  While a float64 scenario runs, a TorchDispatchMode watches every aten op issued from
    cheetah code: a float32 tensor with non-trivial values (not only 0, +-1, small integers, inf) that is created
    (factory), used as an operand (module constants ...), or that receives float64 data (lossy down-cast) means the
    simulation is not carried out in float64.  The signature names the cheetah file and function.  In addition every
    float64 result is inspected for "float32 granularity" (values that are exactly float32 numbers with a long
    mantissa), which reveals a float32 intermediate irrespective of how it was produced.
(C) accuracy.  float64 results vs an mpmath (50 digits) evaluation of the same closed formulas (drift, quadrupole
    with tilt and misalignment, Bmad-X drift and quadrupole, SI momenta and the to/from_xyz_pxpypz round trip, beam
    constructors and transformations, imported parameter values vs the decimal in the file); the float32 result of
    the same simulation vs the same reference at float32 round-off.
"""
from __future__ import annotations

import contextlib
import io
import math
import re
import sys
import tempfile
from pathlib import Path

import numpy as np
import torch
from mpmath import mp, mpf
from scipy import constants as _sc
from scipy.constants import physical_constants as _pc
from torch.utils._python_dispatch import TorchDispatchMode

import cheetah
import elements as E
import lattices as LT
from cheetah.accelerator import Element
from common import REPO

mp.dps = 50
torch.set_num_threads(1)

F32, F64 = torch.float32, torch.float64
DT = {"float32": F32, "float64": F64}
MC2 = _pc["electron mass energy equivalent in MeV"][0] * 1e6
M_E, CL = _sc.electron_mass, _sc.speed_of_light
RES = Path(REPO) / "tests" / "resources"

META = {
    "rule": "scenario = (element kind in 27 variants: every class, Bmad-X, cavity on/off, active diagnostics, histogram/"
            "kde/blocking screens, space charge, TDC, custom map) x {ctor, minimal ctor, clone, split, transfer_map, "
            "track ParticleBeam, track ParameterBeam, readings} | beam constructor/transformation/property scenarios of "
            "both beam types (scalar and vectorised) | random lattice x {clone, split, flattened, merged, no-markers, "
            "no-zero-length, as-drifts, subcell} + track | importers (sample files and generated elegant/Bmad files "
            "covering every converter branch, Astra beams, NX tables) — each in float32 and float64; accuracy cases = "
            "random parameters x {drift, quadrupole, Bmad-X drift/quadrupole, xyz conversions, constructors, "
            "transformations}; distinct = distinct (scenario, stage, dtype)",
    "assumptions": [
        "float64 vs mpmath: |err| <= 4000 eps64 * scale (8.9e-13), scale = sum_j |R_ij||x_j| (linear maps) or the magnitude of the "
        "quantity (1+|v| for delta, pz; 1/beta^2 conditioning of sqrt(E^2-m^2) included); measured round-off <= 40 eps",
        "float32 vs the same reference on float32-rounded inputs: 4000 eps32 * scale (4.8e-4 of the scale); quantities "
        "whose float32 evaluation underflows (SI momenta squared) are C18's subject and are not compared here",
        "a float32 tensor whose values are all in {0, +-1, integers |v|<=16, +-inf} is a structural constant and not "
        "an accuracy leak (reported only if the dtype of a *result* is wrong)",
        "float32-granularity: a float64 tensor is flagged when >= half of its non-integer, non-zero entries are exactly "
        "float32 numbers with more than 12 significant bits",
    ],
}


# ================================================================================================
# walking tensors
# ================================================================================================
def tensors_of(obj, path: str = "", seen=None) -> list:
    """(path, tensor, owner-class) for every tensor reachable from obj (modules: buffers, parameters, tensor
    attributes incl. readings; containers)"""
    out = []
    seen = seen if seen is not None else set()
    if obj is None or isinstance(obj, (str, int, float, bool)):
        return out
    if id(obj) in seen:
        return out
    seen.add(id(obj))
    if isinstance(obj, torch.Tensor):
        return [(path or "tensor", obj, "")]
    if isinstance(obj, torch.nn.Module):
        for mname, mod in obj.named_modules():
            cls = type(mod).__name__
            for n, t in list(mod.named_buffers(recurse=False)) + list(mod.named_parameters(recurse=False)):
                out.append((f"{path}:{cls}.{n}", t, cls))
            for n, v in vars(mod).items():
                if n.startswith("_") and n not in ("_read_beam",):
                    continue
                if isinstance(v, torch.Tensor):
                    out.append((f"{path}:{cls}.{n}", v, cls))
                elif isinstance(v, (list, tuple)) and v and all(isinstance(q, torch.Tensor) for q in v):
                    for q in v:
                        out.append((f"{path}:{cls}.{n}", q, cls))
        return out
    if isinstance(obj, dict):
        for k, v in obj.items():
            out += tensors_of(v, f"{path}[{k}]", seen)
        return out
    if isinstance(obj, (list, tuple)):
        for i, v in enumerate(obj):
            out += tensors_of(v, path, seen)
        return out
    return out


def is_float(t: torch.Tensor) -> bool:
    return t.is_floating_point() or t.is_complex()


def dtype_ok(t: torch.Tensor, dtype) -> bool:
    if t.is_complex():
        return t.dtype == (torch.complex128 if dtype == F64 else torch.complex64)
    return t.dtype == dtype


def f32_granular(t: torch.Tensor) -> bool:
    """float64 tensor whose generic entries are all float32 numbers (see META)"""
    if t.dtype != F64 or t.numel() == 0:
        return False
    v = t.detach().reshape(-1).numpy()
    v = v[np.isfinite(v) & (v != 0.0) & (v != np.round(v))]
    if v.size == 0:
        return False
    rep = v.astype(np.float32).astype(np.float64) == v
    if not rep.any():
        return False
    m, _ = np.frexp(v[rep])
    k = np.abs(m * 2.0 ** 53).astype(np.int64)
    tz = np.zeros_like(k)
    for b in range(53):                      # trailing zero bits
        low = (k >> b) & 1
        tz = np.where((tz == b) & (low == 0), b + 1, tz)
    long_mantissa = (53 - tz) > 12
    return int(long_mantissa.sum()) >= max(1, int(math.ceil(0.5 * v.size)))


def trivial(t: torch.Tensor) -> bool:
    """structural constant: only 0, +-1, small integers, +-inf"""
    if t.numel() == 0:
        return True
    v = t.detach()
    if v.is_complex():
        v = torch.view_as_real(v)
    v = v.reshape(-1).to(F64)
    fin = torch.isfinite(v)
    if torch.isnan(v).any():
        return False
    w = v[fin]
    return bool(torch.all((w == torch.round(w)) & (w.abs() <= 16)))


# ================================================================================================
# (B) tracer
# ================================================================================================
_CHEETAH_DIR = str(Path(cheetah.__file__).resolve().parent) + "/"


def _module_constants() -> dict:
    out = {}
    for mn, mod in list(sys.modules.items()):
        if mn == "cheetah" or mn.startswith("cheetah."):
            for n, v in list(vars(mod).items()):
                if isinstance(v, torch.Tensor):
                    out.setdefault(id(v), f"{mn.split('.')[-1]}.{n}")
    return out


def _flat(x, acc):
    if isinstance(x, torch.Tensor):
        acc.append(x)
    elif isinstance(x, (list, tuple)):
        for q in x:
            _flat(q, acc)
    elif isinstance(x, dict):
        for q in x.values():
            _flat(q, acc)
    return acc


class Tracer(TorchDispatchMode):
    """records float32 participation in a float64 simulation (only ops issued from cheetah code)"""

    NARROW = (torch.float32, torch.float16, torch.bfloat16, torch.complex64)
    WIDE = (torch.float64, torch.complex128)

    def __init__(self):
        super().__init__()
        self.events = {}           # (site, kind) -> description
        self.taint = {}            # storage address -> a tensor on it (float32 data already attributed)
        self.consts = _module_constants()

    # float32 tensors already attributed to a site are remembered by storage (views share it); the tensors are kept
    # alive for the (short) life of the tracer so that a storage address cannot be reused
    def _tainted(self, t) -> bool:
        try:
            return t.numel() > 0 and t.untyped_storage().data_ptr() in self.taint
        except Exception:
            return False

    def _mark(self, t) -> None:
        try:
            if t.numel() > 0:
                self.taint[t.untyped_storage().data_ptr()] = t
        except Exception:
            pass

    @staticmethod
    def _site():
        """innermost cheetah frame; constructors (`__init__`) only convert what they are handed, so the caller is
        blamed when the constructor was called from cheetah code"""
        f = sys._getframe(2)
        first = None
        while f is not None:
            fn = f.f_code.co_filename
            if fn.startswith(_CHEETAH_DIR):
                here = (fn[len(_CHEETAH_DIR):], getattr(f.f_code, "co_qualname", f.f_code.co_name), f.f_lineno)
                if f.f_code.co_name != "__init__":
                    return here
                first = first or here
            f = f.f_back
        return first

    def __torch_dispatch__(self, func, types, args=(), kwargs=None):
        kwargs = kwargs or {}
        ins = [t for t in _flat(args, _flat(kwargs, [])) if is_float(t)]
        # state of the float32 inputs *before* the op (in-place ops overwrite them)
        pre = {}
        for t in ins:
            if t.dtype in self.NARROW:
                try:
                    pre[id(t)] = (self._tainted(t), trivial(t), t.detach().reshape(-1)[:3].tolist())
                except Exception:
                    pre[id(t)] = (False, False, [])
        out = func(*args, **kwargs)
        try:
            self._inspect(func, ins, out, pre)
        except Exception:
            pass
        return out

    def _inspect(self, func, ins, out, pre) -> None:
        outs = [t for t in _flat(out, []) if is_float(t)]
        narrow_in = [t for t in ins if t.dtype in self.NARROW]
        wide_in = [t for t in ins if t.dtype in self.WIDE]
        narrow_out = [t for t in outs if t.dtype in self.NARROW]
        if not narrow_in and not narrow_out:
            return
        site = self._site()
        if site is None:
            for t in narrow_out:        # produced by the harness itself: never attributed to cheetah
                self._mark(t)
            return
        op = str(func).replace("aten.", "")
        where = f"{site[0]}:{site[1]}"

        def ev(kind, text):
            self.events.setdefault((where, kind), f"{text} at cheetah/{site[0]}:{site[2]} ({site[1]})")

        # operands: float32 tensors of unknown origin with non-trivial values
        for t in narrow_in:
            was_tainted, was_trivial, head = pre.get(id(t), (False, False, []))
            if was_tainted or was_trivial:
                continue
            name = self.consts.get(id(t))
            if name:
                ev(f"const:{name}", f"module-level {str(t.dtype).replace('torch.', '')} constant {name} "
                                    f"(= {t.detach().reshape(-1)[:2].tolist()}) used in {op}")
                continue            # named constants are reported at every function that uses them
            else:
                ev(f"operand:{op}", f"{str(t.dtype).replace('torch.', '')} operand {head} in {op}")
            self._mark(t)
        if narrow_out:
            inherited = any(pre.get(id(t), (False,))[0] for t in narrow_in)
            if wide_in:
                # float64 data written into / converted to float32: lossy unless exactly representable
                lossy = False
                for w in wide_in:
                    v = w.detach()
                    v = torch.view_as_real(v) if v.is_complex() else v
                    v = v[torch.isfinite(v)]
                    if v.numel() and not torch.equal(v.to(F32).to(F64), v.to(F64)):
                        lossy = True
                if lossy and not inherited:
                    ev(f"downcast:{op}", f"float64 data stored in a float32 tensor by {op}")
                for t in narrow_out:
                    self._mark(t)
            elif not narrow_in:
                # factory
                fresh = [t for t in narrow_out if not trivial(t)] if "empty" not in op else []
                if fresh:
                    ev(f"factory:{op}", f"float32 tensor {fresh[0].detach().reshape(-1)[:3].tolist()} created by {op}")
                    for t in narrow_out:
                        self._mark(t)
            else:
                if inherited or any(not pre.get(id(t), (False, True))[1] for t in narrow_in):
                    for t in narrow_out:
                        self._mark(t)


# ================================================================================================
# scenario runner
# ================================================================================================
class Run:
    """one scenario in one dtype: guarded stages, dtype / granularity checks, tracer events"""

    def __init__(self, scen: str, dtn: str, trace: bool = True):
        self.scen, self.dtn, self.dtype = scen, dtn, DT[dtn]
        self.raised = {}            # stage -> "Type: msg"
        self.labels = {}            # stage key -> label used in signatures
        self.ran = set()
        self.findings = []          # (signature, what)
        self.tracer = Tracer() if (dtn == "float64" and trace) else None

    def name(self, stage: str) -> str:
        return f"{self.scen}.{stage}" if self.scen else stage

    def stage(self, name: str, fn, label: str = None):
        self.ran.add(name)
        self.labels[name] = label or name
        try:
            if self.tracer is not None:
                with self.tracer:
                    return fn()
            return fn()
        except Exception as ex:
            self.raised[name] = f"{type(ex).__name__}: {str(ex)[:200]}"
            return None

    def check(self, stage: str, obj, placeholders=(), granular: bool = True) -> None:
        """every floating tensor of obj has the working dtype; float64: no float32 granularity"""
        if obj is None:
            return
        wrong, rounded, scalars = {}, {}, set()
        for path, t, owner in tensors_of(obj):
            if not is_float(t):
                continue
            leaf = path.split(":")[-1] if ":" in path else path
            if leaf.endswith(".length") and owner in placeholders and t.dtype == F32 and t.dim() == 0 and float(t) == 0.0:
                continue        # Element.__init__ placeholder, reported once by the dedicated scenario
            if not dtype_ok(t, self.dtype):
                wrong[leaf] = str(t.dtype).replace("torch.", "")
            elif granular and self.dtype == F64 and f32_granular(t):
                rounded[leaf] = [x for x in t.detach().reshape(-1).tolist() if x != 0 and x != round(x)][:2]
                if t.numel() == 1:
                    scalars.add(leaf)
        if rounded:
            base = re.sub(r"\([^()]*\)$", "", self.name(stage))
            # a single number can be a float32 number by chance (1e8 is one): scalars do not enter the signature when
            # whole arrays are affected
            named = sorted(k for k in rounded if k not in scalars) or sorted(rounded)
            self.findings.append((f"C12|float32-rounded|{base}|{'+'.join(named)}",
                                  f"{self.name(stage)} in float64: the values of {sorted(rounded)} are float32 numbers "
                                  f"(e.g. {next(iter(rounded.values()))}): a float32 intermediate rounded them"))
        if wrong:
            leafs = "+".join(sorted(wrong))
            self.findings.append((f"C12|dtype|{self.name(stage)}|{self.dtn}|{leafs}",
                                  f"{self.name(stage)} in {self.dtn}: tensor(s) {wrong} do not have the working dtype"))

    def trace_findings(self) -> list:
        if self.tracer is None:
            return []
        return [(f"C12|trace|{where}|{kind}", f"float64 scenario {self.scen or 'beams'}: {text}")
                for (where, kind), text in self.tracer.events.items()]


def collect(scen: str, body, rep=None) -> list:
    """run `body(run)` in float32 and float64 -> [(signature, what)]: dtype findings, one-sided exceptions, tracer
    events"""
    runs = {}
    for dtn in ("float32", "float64"):
        r = Run(scen, dtn)
        try:
            body(r)
        except Exception as ex:          # scenario code itself (not a guarded stage) failed
            r.raised["<scenario>"] = f"{type(ex).__name__}: {str(ex)[:200]}"
            if rep is not None:
                rep.count(f"scenario-exception:{scen}")
                rep.notes.append(f"C12 scenario {scen} [{dtn}] raised outside a stage: {type(ex).__name__}: {str(ex)[:160]}")
        runs[dtn] = r
    out = []
    if rep is not None:
        for st in runs["float64"].raised:
            if st in runs["float32"].raised and st != "<scenario>":
                rep.count("raised-in-both-dtypes:" + runs["float64"].name(runs["float64"].labels.get(st, st)))
    for dtn, other in (("float64", "float32"), ("float32", "float64")):
        r, o = runs[dtn], runs[other]
        out += r.findings
        for st, msg in r.raised.items():
            if st == "<scenario>":
                continue
            if st in o.ran and st not in o.raised:
                lab = r.name(r.labels.get(st, st))
                out.append((f"C12|raises|{lab}|{dtn}|{msg.split(':')[0]}",
                            f"{lab} raises in {dtn} but works in {other}: {msg}"))
        out += r.trace_findings()
    seen, uniq = set(), []
    for sig, what in out:
        if sig not in seen:
            seen.add(sig)
            uniq.append((sig, what))
    return uniq


def report(rep, findings: list, replay: dict) -> None:
    for sig, what in findings:
        rep.fail("falsifier", sig, what, dict(replay, signature=sig))


# ================================================================================================
# (A) scenarios: elements
# ================================================================================================
def _variant_record(rng, variant: str):
    """(record, extra ctor kwargs) of an element variant"""
    ex = {}
    if variant == "Drift(bmadx)":
        r = LT.gen_record(rng, "BmadxDrift")
    elif variant == "Quadrupole(bmadx)":
        r = LT.gen_record(rng, "BmadxQuadrupole")
        r["L"] = r["L"] or 0.3
        r["k1"] = r["k1"] or 1.5
    elif variant == "Dipole(bmadx)":
        r = E.gen_params(rng, "Dipole", force={"method": "bmadx"})
        r["angle"] = r["angle"] or 0.05
        r["L"] = r["L"] or 0.4
    elif variant == "Cavity(on)":
        r = LT.gen_record(rng, "ActiveCavity")
    elif variant == "Cavity(V=0)":
        r = LT.gen_record(rng, "OffCavity")
    elif variant == "BPM(active)":
        r = LT.gen_record(rng, "ActiveBPM")
    elif variant.startswith("Screen"):
        r = E.gen_params(rng, "Screen", force={"active": variant != "Screen(inactive)",
                                                "blocking": variant == "Screen(blocking)"})
        ex = {"method": "kde"} if variant == "Screen(kde)" else {}
    elif variant.startswith("Aperture"):
        r = E.gen_params(rng, "Aperture", force={"active": variant == "Aperture(active)", "xmax": 1e-3, "ymax": 5e-4})
    else:
        r = E.gen_params(rng, variant)
    return r, ex


ELEMENT_VARIANTS = ["Drift", "Drift(bmadx)", "Quadrupole", "Quadrupole(bmadx)", "Dipole", "Dipole(bmadx)", "RBend",
                    "Solenoid", "HorizontalCorrector", "VerticalCorrector", "Undulator", "Cavity(on)", "Cavity(V=0)",
                    "Marker", "BPM(active)", "Screen(inactive)", "Screen(histogram)", "Screen(kde)", "Screen(blocking)",
                    "Aperture(active)", "Aperture(inactive)", "SpaceChargeKick", "CustomTransferMap",
                    "TransverseDeflectingCavity"]


def _minimal(rec: dict, dtype):
    """constructor call with only the required tensor argument and NO dtype keyword (dtype must be inferred and
    every defaulted buffer must follow it)"""
    c = rec["cls"]
    t = lambda x: torch.tensor(x, dtype=dtype)  # noqa: E731
    L = float(rec.get("L", 0.5))
    if c in ("Drift", "Quadrupole", "Dipole", "RBend", "Solenoid", "HorizontalCorrector", "VerticalCorrector",
             "Undulator", "Cavity", "TransverseDeflectingCavity"):
        return getattr(cheetah, c)(length=t(L))
    if c == "Screen":
        return cheetah.Screen(resolution=(40, 30), pixel_size=t([1e-4, 1e-4]))
    if c == "Aperture":
        return cheetah.Aperture(x_max=t(1e-3))
    if c == "SpaceChargeKick":
        return cheetah.SpaceChargeKick(effect_length=t(L))
    if c == "CustomTransferMap":
        return cheetah.CustomTransferMap(torch.eye(7, dtype=dtype))
    raise TypeError("no tensor argument")


def placeholder_classes() -> tuple:
    """classes whose `length` buffer is the default-dtype placeholder of Element.__init__ even when built in float64"""
    out = []
    rng = np.random.default_rng(0)
    for c in ("Marker", "BPM", "Screen", "Aperture", "SpaceChargeKick"):
        try:
            el = E.build(E.gen_params(rng, c), dtype=F64)
            if el.length.dtype != F64 and el.length.dim() == 0 and float(el.length) == 0.0:
                out.append(c)
        except Exception:
            pass
    try:
        s = cheetah.Segment([cheetah.Drift(length=torch.tensor(1.0, dtype=F64))])
        if dict(s.named_buffers(recurse=False)).get("length", torch.zeros(1, dtype=F64)).dtype != F64:
            out.append("Segment")
    except Exception:
        pass
    return tuple(out)


def scen_element(run: Run, rec: dict, extra: dict, En: float, P: np.ndarray, PH: tuple) -> None:
    dtype = run.dtype
    el = run.stage("ctor", lambda: E.build(rec, dtype=dtype, **extra))
    if el is None:
        return
    # dtype-carrying classes must not keep the float32 placeholder; dtype-less ones (Marker, BPM) are skipped here
    takes_dtype = rec["cls"] not in ("Marker", "BPM")
    run.check("ctor", el, () if takes_dtype else PH)
    if dtype == F64 and takes_dtype:
        # forced dtype: float32 parameter tensors, `dtype=torch.float64` requested.  Everything the element stores must be
        # what it stores when it is handed the same numbers as float64 tensors — i.e. the cast comes first and all derived
        # settings (pole-face angles of an RBend, exit gap ...) are computed in float64
        try:
            a = E._build(rec, F64, extra=extra, tensor=lambda x: torch.tensor(x, dtype=F32))
            b = E._build(rec, F64, extra=extra, tensor=lambda x: torch.tensor(x, dtype=F32).to(F64))
        except Exception:  # noqa: BLE001  (a class that refuses mixed dtypes is the dtype audit's business)
            a = b = None
        if a is not None:
            run.ran.add("forced-ctor")
            run.check("forced-ctor", a, PH, granular=False)
            ta = {pth: t for pth, t, _ in tensors_of(a) if is_float(t)}
            tb = {pth: t for pth, t, _ in tensors_of(b) if is_float(t)}
            for k in sorted(ta):
                if k in tb and ta[k].shape == tb[k].shape and not torch.equal(torch.nan_to_num(ta[k].to(F64)), torch.nan_to_num(tb[k].to(F64))):
                    leaf = k.split(":")[-1] if ":" in k else k
                    run.findings.append((f"C12|forced-dtype|{rec['cls']}.ctor|{leaf}",
                                         f"{rec['cls']}(float32 tensors, dtype=float64) stores {leaf} = {ta[k].reshape(-1)[:2].tolist()}, "
                                         f"the same numbers given as float64 tensors give {tb[k].reshape(-1)[:2].tolist()}: "
                                         "a derived setting was computed before the cast to float64"))
                    break
    run.check("minimal-ctor", run.stage("minimal-ctor", lambda: _minimal(rec, dtype)), PH)
    run.check("clone", run.stage("clone", lambda: el.clone()), PH)
    run.check("split", run.stage("split", lambda: el.split(torch.tensor(0.37 * max(float(rec.get("L", 1.0)), 0.1), dtype=dtype))), PH)
    run.check("transfer_map", run.stage("transfer_map", lambda: el.transfer_map(torch.tensor(En, dtype=dtype))))
    for bt in ("ParticleBeam", "ParameterBeam"):
        beam = LT.particle_beam(P, En, dtype=dtype) if bt == "ParticleBeam" else LT.parameter_beam_from(P, En, dtype=dtype)
        el2 = E.build(rec, dtype=dtype, **extra)
        out = run.stage(f"track({bt})", lambda: el2.track(beam))
        run.check(f"track({bt})", out, PH)
        if out is None:
            continue
        if isinstance(el2, cheetah.Screen):
            run.check(f"reading({bt})", run.stage(f"reading({bt})", lambda: el2.reading))
        run.check(f"state-after-track({bt})", el2, PH)      # BPM.reading, Screen read beam, Aperture.lost_particles ...


# ================================================================================================
# scenarios: lattices
# ================================================================================================
LATTICE_MIX = (["Drift"] * 3 + ["Quadrupole"] * 3 + ["Dipole", "RBend", "Solenoid", "HorizontalCorrector",
               "VerticalCorrector", "Undulator", "Marker", "Marker", "ActiveCavity", "OffCavity", "ActiveAperture",
               "Aperture", "ActiveBPM", "BPM", "Screen", "CustomTransferMap", "BmadxDrift", "BmadxQuadrupole"])


def gen_c12_lattice(rng) -> list:
    recs = LT.gen_lattice(rng, 6, mix=LATTICE_MIX, n_min=2)
    for r in recs:
        u = rng.random()
        if r["cls"] == "Quadrupole" and r.get("method") != "bmadx" and u < 0.3:
            r["k1"] = 0.0                       # inactive: replaced by a drift
        if r["cls"] in ("HorizontalCorrector", "VerticalCorrector") and u < 0.4:
            r["angle"] = 0.0
        if r["cls"] == "Solenoid" and u < 0.4:
            r["k"] = 0.0
        if r.get("method") == "bmadx" and r["cls"] == "Quadrupole":
            r["L"] = r["L"] or 0.3
            r["k1"] = r["k1"] or 1.5
    return LT.nest(rng, recs, p=0.15)


def scen_lattice(run: Run, recs: list, En: float, P: np.ndarray, PH: tuple) -> None:
    dtype = run.dtype
    seg = run.stage("build", lambda: LT.build_segment(recs, dtype=dtype))
    if seg is None:
        return
    run.check("build", seg, PH)
    leaves = LT.leaves(recs)
    bts = ["ParticleBeam"]
    if not any(r.get("method") == "bmadx" for r in leaves):
        bts.append("ParameterBeam")
    mk = lambda bt: (LT.particle_beam(P, En, dtype=dtype) if bt == "ParticleBeam"  # noqa: E731
                     else LT.parameter_beam_from(P, En, dtype=dtype))
    names = [e.name for e in seg.elements]
    ops = {
        "clone": lambda: seg.clone(),
        "split": lambda: cheetah.Segment(seg.split(torch.tensor(0.4, dtype=dtype))),
        "flattened": lambda: seg.flattened(),
        "transfer_maps_merged": lambda: seg.transfer_maps_merged(mk("ParticleBeam")),
        "transfer_maps_merged(ParameterBeam)": (lambda: seg.transfer_maps_merged(mk("ParameterBeam"))) if len(bts) > 1 else None,
        "without_inactive_markers": lambda: seg.without_inactive_markers(),
        "without_inactive_zero_length_elements": lambda: seg.without_inactive_zero_length_elements(),
        "inactive_elements_as_drifts": lambda: seg.inactive_elements_as_drifts(),
        "subcell": lambda: seg.subcell(names[0], names[-1]),
    }
    run.check("length", run.stage("length", lambda: seg.length)) if any(float(r.get("L", 0.0)) > 0 for r in leaves) else None
    run.check("transfer_map", run.stage("transfer_map", lambda: seg.transfer_map(torch.tensor(En, dtype=dtype))))
    for bt in bts:
        run.check(f"track({bt})", run.stage(f"track({bt})", lambda: seg.track(mk(bt))), PH)
    for name, fn in ops.items():
        if fn is None:
            continue
        new = run.stage(name, fn)
        run.check(name, new, PH)
        if new is None:
            continue
        for bt in bts:
            run.check(f"{name}.track({bt})", run.stage(f"{name}.track({bt})", lambda: new.track(mk(bt))), PH)


# ================================================================================================
# scenarios: beams
# ================================================================================================
PROPS_COMMON = ["mu_x", "mu_px", "mu_y", "mu_py", "mu_tau", "mu_p", "sigma_x", "sigma_px", "sigma_y", "sigma_py",
                "sigma_tau", "sigma_p", "sigma_xpx", "sigma_ypy", "energy", "total_charge", "relativistic_gamma",
                "relativistic_beta", "p0c", "emittance_x", "emittance_y", "normalized_emittance_x",
                "normalized_emittance_y", "beta_x", "beta_y", "alpha_x", "alpha_y"]
PROPS_PARTICLE = ["x", "px", "y", "py", "tau", "p", "energies", "momenta", "num_particles_survived"]


def _props(run: Run, base: str, beam) -> None:
    cls = type(beam).__name__
    names = PROPS_COMMON + (PROPS_PARTICLE if isinstance(beam, cheetah.ParticleBeam) else [])
    for n in names:
        run.check(f"{cls}.{n}", run.stage(f"{base}>{n}", lambda: getattr(beam, n), label=f"{cls}.{n}"))


def _beam_transformations(run: Run, base: str, beam, q: dict, vectorised: bool) -> None:
    """transformed_to / linspaced / clone / indexing / conversions on a beam built by `base`; signatures carry the
    operation (`ParticleBeam.linspaced`), not the constructor the beam came from"""
    dtype = run.dtype
    cls = type(beam).__name__
    shp = tuple(beam.energy.shape)
    full = lambda x: torch.full(shp, x, dtype=dtype)  # noqa: E731

    def do(op, fn):
        lab = f"{cls}.{op}"
        res = run.stage(f"{base}>{op}", fn, label=lab)
        run.check(lab, res)
        return res

    do("clone", lambda: beam.clone())
    do("transformed_to()", lambda: beam.transformed_to())
    do("transformed_to(args)", lambda: beam.transformed_to(mu_x=full(q["mu"]), sigma_y=full(q["sig"]), sigma_p=full(q["sigp"]),
                                                          energy=full(q["E2"]), total_charge=full(q["Q2"])))
    do("linspaced", lambda: beam.linspaced(7))
    if isinstance(beam, cheetah.ParticleBeam):
        xp = do("to_xyz_pxpypz", lambda: beam.to_xyz_pxpypz())
        if xp is not None:
            do("from_xyz_pxpypz(dtype=)", lambda: cheetah.ParticleBeam.from_xyz_pxpypz(
                xp, beam.energy, particle_charges=beam.particle_charges, dtype=dtype))
            # no dtype keyword: like every other constructor the dtype of the given tensors must be kept
            do("from_xyz_pxpypz(inferred)", lambda: cheetah.ParticleBeam.from_xyz_pxpypz(
                xp, beam.energy, particle_charges=beam.particle_charges))
        if vectorised:
            do("__getitem__(int)", lambda: beam[0])
            do("__getitem__(slice)", lambda: beam[:1])
    _props(run, base, beam)


def scen_particle_beam(run: Run, q: dict) -> None:
    dtype = run.dtype
    t = lambda x: torch.tensor(x, dtype=dtype)  # noqa: E731
    PB = cheetah.ParticleBeam
    P = np.array(q["particles"])
    n = P.shape[0]
    kw = dict(sigma_x=t(q["sx"]), sigma_px=t(q["spx"]), sigma_y=t(q["sy"]), sigma_py=t(q["spy"]), sigma_tau=t(q["st"]),
              sigma_p=t(q["sp"]), mu_x=t(q["mu"]), energy=t(q["E"]), total_charge=t(q["Q"]))
    cases = {
        "ParticleBeam(dtype=)": lambda: PB(t(P), t(q["E"]), particle_charges=t(np.full(n, q["Q"] / n)), dtype=dtype),
        "ParticleBeam(inferred)": lambda: PB(t(P), t(q["E"])),
        "ParticleBeam.from_parameters(dtype=)": lambda: PB.from_parameters(num_particles=40, **kw, dtype=dtype),
        "ParticleBeam.from_parameters(defaults,dtype=)": lambda: PB.from_parameters(num_particles=40, dtype=dtype),
        "ParticleBeam.from_parameters(inferred)": lambda: PB.from_parameters(num_particles=40, **kw),
        "ParticleBeam.from_parameters(vectorised)": lambda: PB.from_parameters(
            num_particles=40, sigma_x=t([q["sx"], 2 * q["sx"]]), energy=t([q["E"], q["E2"]]), total_charge=t([q["Q"], q["Q2"]]), dtype=dtype),
        "ParticleBeam.from_twiss(dtype=)": lambda: PB.from_twiss(
            num_particles=40, beta_x=t(q["bx"]), alpha_x=t(q["ax"]), emittance_x=t(q["ex"]), beta_y=t(q["by"]),
            alpha_y=t(q["ay"]), emittance_y=t(q["ey"]), energy=t(q["E"]), total_charge=t(q["Q"]), dtype=dtype),
        "ParticleBeam.from_twiss(inferred)": lambda: PB.from_twiss(
            num_particles=40, beta_x=t(q["bx"]), alpha_x=t(q["ax"]), emittance_x=t(q["ex"]), beta_y=t(q["by"]),
            alpha_y=t(q["ay"]), emittance_y=t(q["ey"]), energy=t(q["E"])),
        "ParticleBeam.uniform_3d_ellipsoid(dtype=)": lambda: PB.uniform_3d_ellipsoid(
            num_particles=40, radius_x=t(q["sx"]), radius_y=t(q["sy"]), radius_tau=t(q["st"]), sigma_px=t(q["spx"]),
            sigma_py=t(q["spy"]), sigma_p=t(q["sp"]), energy=t(q["E"]), total_charge=t(q["Q"]), dtype=dtype),
        "ParticleBeam.uniform_3d_ellipsoid(defaults,dtype=)": lambda: PB.uniform_3d_ellipsoid(num_particles=40, dtype=dtype),
        "ParticleBeam.make_linspaced(dtype=)": lambda: PB.make_linspaced(num_particles=9, **kw, dtype=dtype),
        "ParticleBeam.make_linspaced(defaults,dtype=)": lambda: PB.make_linspaced(num_particles=9, dtype=dtype),
        "ParticleBeam.make_linspaced(inferred)": lambda: PB.make_linspaced(num_particles=9, **kw),
        "ParticleBeam.make_linspaced(vectorised)": lambda: PB.make_linspaced(
            num_particles=9, sigma_x=t([q["sx"], 2 * q["sx"]]), mu_y=t([q["mu"], 0.0]), energy=t([q["E"], q["E2"]]), dtype=dtype),
    }
    for label, fn in cases.items():
        b = run.stage(label, fn)
        run.check(label, b)
        if b is None:
            continue
        if label in ("ParticleBeam(dtype=)", "ParticleBeam.from_parameters(vectorised)"):
            _beam_transformations(run, label, b, q, vectorised="vectorised" in label)


def scen_parameter_beam(run: Run, q: dict) -> None:
    dtype = run.dtype
    t = lambda x: torch.tensor(x, dtype=dtype)  # noqa: E731
    MB = cheetah.ParameterBeam
    P = np.array(q["particles"])
    mu = P.mean(axis=0)
    cov = np.zeros((7, 7))
    cov[:6, :6] = np.cov(P[:, :6].T)
    kw = dict(sigma_x=t(q["sx"]), sigma_px=t(q["spx"]), sigma_y=t(q["sy"]), sigma_py=t(q["spy"]), sigma_tau=t(q["st"]),
              sigma_p=t(q["sp"]), mu_x=t(q["mu"]), energy=t(q["E"]), total_charge=t(q["Q"]))
    cases = {
        "ParameterBeam(dtype=)": lambda: MB(t(mu), t(cov), t(q["E"]), total_charge=t(q["Q"]), dtype=dtype),
        "ParameterBeam(inferred)": lambda: MB(t(mu), t(cov), t(q["E"])),
        "ParameterBeam.from_parameters(dtype=)": lambda: MB.from_parameters(**kw, dtype=dtype),
        "ParameterBeam.from_parameters(defaults,dtype=)": lambda: MB.from_parameters(dtype=dtype),
        "ParameterBeam.from_parameters(inferred)": lambda: MB.from_parameters(**kw),
        "ParameterBeam.from_parameters(vectorised)": lambda: MB.from_parameters(
            sigma_x=t([q["sx"], 2 * q["sx"]]), energy=t([q["E"], q["E2"]]), total_charge=t([q["Q"], q["Q2"]]), dtype=dtype),
        "ParameterBeam.from_twiss(dtype=)": lambda: MB.from_twiss(
            beta_x=t(q["bx"]), alpha_x=t(q["ax"]), emittance_x=t(q["ex"]), beta_y=t(q["by"]), alpha_y=t(q["ay"]),
            emittance_y=t(q["ey"]), energy=t(q["E"]), total_charge=t(q["Q"]), dtype=dtype),
        "ParameterBeam.from_twiss(defaults,dtype=)": lambda: MB.from_twiss(dtype=dtype),
        "ParameterBeam.from_twiss(inferred)": lambda: MB.from_twiss(beta_x=t(q["bx"]), alpha_x=t(q["ax"]), energy=t(q["E"])),
    }
    for label, fn in cases.items():
        b = run.stage(label, fn)
        run.check(label, b)
        if b is None:
            continue
        if label in ("ParameterBeam(dtype=)", "ParameterBeam.from_parameters(vectorised)"):
            _beam_transformations(run, label, b, q, vectorised="vectorised" in label)


def gen_beam_params(rng) -> dict:
    u = lambda lo, hi: float(np.exp(rng.uniform(np.log(lo), np.log(hi))))  # noqa: E731
    return {"particles": LT.gen_particles(rng, 12).tolist(), "E": E.energy(rng), "E2": E.energy(rng), "Q": u(1e-13, 1e-9),
            "Q2": u(1e-13, 1e-9), "sx": u(5e-5, 1e-3), "spx": u(1e-6, 1e-4), "sy": u(5e-5, 1e-3), "spy": u(1e-6, 1e-4),
            "st": u(1e-6, 1e-3), "sp": u(1e-5, 5e-3), "mu": float(rng.normal() * 3e-4), "sig": u(5e-5, 1e-3),
            "sigp": u(1e-5, 5e-3), "bx": u(0.5, 30), "by": u(0.5, 30), "ax": float(rng.normal()), "ay": float(rng.normal()),
            "ex": u(1e-10, 1e-7), "ey": u(1e-10, 1e-7)}


# ================================================================================================
# scenarios: importers
# ================================================================================================
_NUM = re.compile(r"(?<![\w.])[-+]?(?:\d+\.\d*|\.\d+|\d+)(?:[eEdD][-+]?\d+)?(?![\w.])")


def _dec(rng, lo: float, hi: float, signed: bool = False) -> str:
    """a 12-digit decimal literal that is not a float32 number"""
    while True:
        v = float(np.exp(rng.uniform(np.log(lo), np.log(hi))))
        if signed and rng.random() < 0.5:
            v = -v
        s = f"{v:.12g}"
        if float(np.float32(float(s))) != float(s):
            return s


def synth_elegant(rng) -> tuple[str, str]:
    d = lambda lo=0.05, hi=3.0, sg=False: _dec(rng, lo, hi, sg)  # noqa: E731
    lines = [
        f"e_sole: sole, l={d()}",
        f"e_hkick: hkick, l={d()}, kick={d(1e-5, 1e-2, True)}",
        f"e_vkick: vkick, l={d()}, kick={d(1e-5, 1e-2, True)}",
        "e_mark: mark",
        f"e_kick: kick, l={d()}",
        f"e_drift: drift, l={d()}",
        f"e_csrdrift: csrdrift, l={d()}",
        f"e_lscdrift: lscdrift, l={d()}",
        f"e_ecol: ecol, l={d()}, x_max={d(1e-4, 1e-2)}, y_max={d(1e-4, 1e-2)}",
        f"e_rcol: rcol, l={d()}, x_max={d(1e-4, 1e-2)}, y_max={d(1e-4, 1e-2)}",
        f"e_quad: quad, l={d()}, k1={d(0.1, 20, True)}, tilt={d(1e-3, 1.0, True)}",
        f"e_sext: sext, l={d()}",
        f"e_moni: moni, l={d()}",
        f"e_ematrix: ematrix, l={d()}, order=1, c2={d(1e-4, 1e-2, True)}, r11=1, r12={d()}, r21={d(1e-3, 0.1, True)}, "
        f"r22=1, r33=1, r34={d()}, r44=1, r55=1, r56={d(1e-5, 1e-3, True)}, r66=1",
        f"e_rfca: rfca, l={d()}, phase={d(10, 170)}, volt={d(1e5, 3e7)}, freq={d(1e9, 3e9)}",
        f"e_rfcw: rfcw, l={d()}, phase={d(10, 170)}, volt={d(1e5, 3e7)}, freq={d(1e9, 3e9)}",
        f"e_rfdf: rfdf, l={d()}, phase={d(10, 170)}, voltage={d(1e5, 3e6)}, frequency={d(1e9, 3e9)}",
        f"e_sben: sben, l={d()}, angle={d(1e-3, 0.5, True)}, k1={d(0.05, 5, True)}, e1={d(1e-3, 0.5, True)}, "
        f"e2={d(1e-3, 0.5, True)}, tilt={d(1e-3, 1.0, True)}",
        f"e_rben: rben, l={d()}, angle={d(1e-3, 0.5, True)}, e1={d(1e-3, 0.5, True)}, e2={d(1e-3, 0.5, True)}, "
        f"tilt={d(1e-3, 1.0, True)}",
        f"e_csrcsben: csrcsben, l={d()}, angle={d(1e-3, 0.5, True)}, e1={d(1e-3, 0.5, True)}, "
        f"e2={d(1e-3, 0.5, True)}, tilt={d(1e-3, 1.0, True)}",
        "e_watch: watch",
    ]
    names = [ln.split(":")[0] for ln in lines]
    lines.append("synth: line=(" + ",".join(names) + ")")
    return "\n".join(lines) + "\n", "synth"


def synth_bmad(rng) -> str:
    d = lambda lo=0.05, hi=3.0, sg=False: _dec(rng, lo, hi, sg)  # noqa: E731
    lines = [
        "parameter[geometry] = open",
        "b_marker: marker",
        f"b_monitor: monitor, l = {d()}",
        f"b_instrument: instrument, l = {d()}",
        f"b_pipe: pipe, l = {d()}",
        f"b_drift: drift, l = {d()}",
        "b_hkicker: hkicker",
        "b_vkicker: vkicker",
        f"b_sbend: sbend, l = {d()}, angle = {d(1e-3, 0.5, True)}, e1 = {d(1e-3, 0.5, True)}, e2 = {d(1e-3, 0.5, True)}, "
        f"hgap = {d(1e-3, 3e-2)}, fint = {d(0.1, 0.9)}, fintx = {d(0.1, 0.9)}, ref_tilt = {d(1e-3, 1.0, True)}",
        f"b_quadrupole: quadrupole, l = {d()}, k1 = {d(0.1, 20, True)}, tilt = {d(1e-3, 1.0, True)}",
        f"b_solenoid: solenoid, l = {d()}, ks = {d(0.05, 5, True)}",
        f"b_lcavity: lcavity, l = {d()}, voltage = {d(1e5, 3e7)}, phi0 = {d(1e-3, 0.2, True)}, rf_frequency = {d(1e9, 3e9)}",
        f"b_rcollimator: rcollimator, l = {d()}, x_limit = {d(1e-4, 1e-2)}, y_limit = {d(1e-4, 1e-2)}",
        f"b_ecollimator: ecollimator, l = {d()}, x_limit = {d(1e-4, 1e-2)}, y_limit = {d(1e-4, 1e-2)}",
        f"b_wiggler: wiggler, l = {d()}",
    ]
    names = [ln.split(":")[0] for ln in lines[1:]]
    lines.append("lat: line = (" + ", ".join(names) + ")")
    lines.append("use, lat")
    return "\n".join(lines) + "\n"


def synth_astra(rng, n: int = 12) -> str:
    """Astra particle file: x y z px py pz clock charge index status; row 0 = reference, others relative to it"""
    rows = []
    pref = float(np.exp(rng.uniform(np.log(5e6), np.log(5e8))))
    rows.append([0.0, 0.0, float(rng.uniform(0.5, 3.0)), 0.0, 0.0, pref, 0.0, -1e-4 * float(rng.uniform(0.5, 2)), 1, 5])
    for _ in range(n - 1):
        rows.append([rng.normal() * 2e-4, rng.normal() * 2e-4, rng.normal() * 1e-5, rng.normal() * 1e-4 * pref,
                     rng.normal() * 1e-4 * pref, rng.normal() * 1e-3 * pref, 0.0, -1e-4 * float(rng.uniform(0.5, 2)), 1, 5])
    return "\n".join(" ".join(f"{v:.15e}" if isinstance(v, float) else str(v) for v in r) for r in rows) + "\n"


def literal_candidates(text: str) -> np.ndarray:
    """values an importer may legitimately produce from the numeric literals of the file"""
    vals = set()
    for m in _NUM.finditer(text):
        try:
            x = float(m.group(0).lower().replace("d", "e"))
        except ValueError:
            continue
        for y in (x, x / 2, 2 * x, x - 90.0, -360.0 * x, x * 1e6, x * 1e9, -x):
            vals.add(y)
    return np.array(sorted(vals))


def import_value_findings(seg, text: str, conv: str, prefix: str) -> list:
    """float64 import: a buffer value that equals float32(literal) but not the literal itself lost precision"""
    cand = literal_candidates(text)
    cand32 = cand.astype(np.float32).astype(np.float64)
    types = {m.group(1).lower(): m.group(2).lower()
             for m in re.finditer(r"^\s*([A-Za-z_]\w*)\s*:\s*([A-Za-z_]\w*)", text, flags=re.M)}
    out = {}
    for mod in seg.modules():
        if not isinstance(mod, Element) or isinstance(mod, cheetah.Segment):
            continue
        nm = mod.name.lower()
        typ = types.get(nm)
        while typ is None and "_" in nm:         # derived names: <name>_drift, <name>_aperture, <name>_predrift ...
            nm = nm.rsplit("_", 1)[0]
            typ = types.get(nm)
        typ = typ or type(mod).__name__
        for bn, t in mod.named_buffers(recurse=False):
            if t.dtype != F64:
                continue
            for v in t.detach().reshape(-1).tolist():
                if v == 0.0 or not math.isfinite(v) or v == round(v):
                    continue
                if np.any(np.abs(cand - v) <= 4e-16 * abs(v)):
                    continue
                hit = np.nonzero(cand32 == v)[0]
                if hit.size:
                    out.setdefault(typ, []).append(f"{type(mod).__name__}.{bn}={v!r} (file: {cand[hit[0]]!r})")
    return [(f"C12|import-value|converters/{conv}.py:convert_element|{typ}",
             f"{conv} import with dtype=float64: {typ} -> {'; '.join(items[:3])}: the decimal of the file went through float32")
            for typ, items in sorted(out.items())]


IMPORTS = ["elegant:fodo.lte", "elegant:cavity.lte", "elegant:synthetic", "bmad:bmad_tutorial_lattice.bmad",
           "bmad:synthetic", "nxtables:Stage4v3_9.txt", "astra:ParticleBeam", "astra:ParameterBeam"]


def scen_import(run: Run, which: str, seed: int, PH: tuple, extra_findings: list) -> None:
    dtype = run.dtype
    rng = np.random.default_rng(seed)
    kind, what = which.split(":")
    quiet = contextlib.redirect_stdout(io.StringIO())
    with tempfile.TemporaryDirectory(prefix="c12-") as td, quiet:
        if kind == "elegant":
            if what == "synthetic":
                text, root = synth_elegant(rng)
                path = Path(td) / "synth.lte"
                path.write_text(text)
            else:
                path, root = RES / what, what.split(".")[0]
                text = path.read_text()
            seg = run.stage(f"Segment.from_elegant({what})", lambda: cheetah.Segment.from_elegant(str(path), root, dtype=dtype))
            conv, prefix = "elegant", "e_"
        elif kind == "bmad":
            if what == "synthetic":
                text = synth_bmad(rng)
                path = Path(td) / "synth.bmad"
                path.write_text(text)
            else:
                path = RES / what
                text = path.read_text()
            seg = run.stage(f"Segment.from_bmad({what})", lambda: cheetah.Segment.from_bmad(str(path), dtype=dtype))
            conv, prefix = "bmad", "b_"
        elif kind == "nxtables":
            path = RES / what
            # the importer has to accept the dtype like the other importers do
            seg = run.stage("Segment.from_nx_tables(dtype=)", lambda: cheetah.Segment.from_nx_tables(str(path), dtype=dtype))
            if seg is None and "TypeError" in run.raised.get("Segment.from_nx_tables(dtype=)", ""):
                if dtype == F64:
                    extra_findings.append((
                        "C12|raises|Segment.from_nx_tables(dtype=)|float64|TypeError",
                        "Segment.from_nx_tables has no dtype parameter: " + run.raised["Segment.from_nx_tables(dtype=)"]
                        + " — an NX-tables lattice can only be imported in the default dtype"))
                del run.raised["Segment.from_nx_tables(dtype=)"]
            run.check("Segment.from_nx_tables(dtype=)", seg, PH)
            return
        else:
            path = Path(td) / "beam.ini"
            path.write_text(synth_astra(rng))
            cls = getattr(cheetah, what)
            b = run.stage(f"{what}.from_astra", lambda: cls.from_astra(str(path), dtype=dtype))
            run.check(f"{what}.from_astra", b)
            return
        lab = [k for k in run.labels if k.startswith("Segment.from_")][-1]
        run.check(lab, seg, PH, granular=False)      # values: see import_value_findings (names the converter branch)
        if seg is None:
            return
        if dtype == F64:
            extra_findings.extend(import_value_findings(seg, text, conv, prefix))
        # an imported lattice tracks in its dtype
        P = LT.gen_particles(rng, 6)
        for bt in ("ParticleBeam", "ParameterBeam"):
            beam = LT.particle_beam(P, 1e8, dtype=dtype) if bt == "ParticleBeam" else LT.parameter_beam_from(P, 1e8, dtype=dtype)
            run.check(f"{lab}.track({bt})", run.stage(f"{lab}.track({bt})", lambda: seg.track(beam)), PH)


# ================================================================================================
# (C) accuracy: float64 (and float32) results vs mpmath evaluation of the same closed formulas
# ================================================================================================
K_TOL = 4000.0        # threshold in eps(dtype) * scale; measured round-off on the clean formulas <= 40 eps


def r32(x, dtn: str):
    """the number the code receives when the value is stored in the working dtype"""
    a = np.asarray(x, dtype=float)
    return a if dtn == "float64" else a.astype(np.float32).astype(np.float64)


def _mpm(rows):
    return [[mpf(float(v)) if not isinstance(v, mpf) else v for v in r] for r in rows]


def mp_eye():
    return [[mpf(1) if i == j else mpf(0) for j in range(7)] for i in range(7)]


def mp_mul(A, B):
    return [[sum((A[i][k] * B[k][j] for k in range(7)), mpf(0)) for j in range(7)] for i in range(7)]


def mp_cs(k2, L):
    """cos-like / sin-like focusing functions for k2 of either sign"""
    if k2 > 0:
        k = mp.sqrt(k2)
        return mp.cos(k * L), mp.sin(k * L) / k
    if k2 < 0:
        k = mp.sqrt(-k2)
        return mp.cosh(k * L), mp.sinh(k * L) / k
    return mpf(1), L


def mp_rot(a):
    R = mp_eye()
    c, s = mp.cos(a), mp.sin(a)
    R[0][0] = c; R[0][2] = s; R[1][1] = c; R[1][3] = s; R[2][0] = -s; R[2][2] = c; R[3][1] = -s; R[3][3] = c  # noqa: E702
    return R


def mp_drift_R(L, En):
    L, g = mpf(float(L)), mpf(float(En)) / mpf(MC2)
    ig2 = 1 / g ** 2
    R = mp_eye()
    R[0][1] = L; R[2][3] = L; R[4][5] = -L / (1 - ig2) * ig2  # noqa: E702
    return R


def mp_quad_R(L, k1, tilt, mx, my, En):
    L, k1, tilt, mx, my = [mpf(float(v)) for v in (L, k1, tilt, mx, my)]
    g = mpf(float(En)) / mpf(MC2)
    ig2 = 1 / g ** 2
    cx, sx = mp_cs(k1, L)
    cy, sy = mp_cs(-k1, L)
    R = mp_eye()
    R[0][0] = cx; R[0][1] = sx; R[1][0] = -k1 * sx; R[1][1] = cx  # noqa: E702
    R[2][2] = cy; R[2][3] = sy; R[3][2] = k1 * sy; R[3][3] = cy  # noqa: E702
    R[4][5] = -L / (1 - ig2) * ig2
    if tilt != 0:
        R = mp_mul(mp_rot(-tilt), mp_mul(R, mp_rot(tilt)))
    if mx != 0 or my != 0:
        Rin, Rout = mp_eye(), mp_eye()
        Rin[0][6] = -mx; Rin[2][6] = -my; Rout[0][6] = mx; Rout[2][6] = my  # noqa: E702
        R = mp_mul(Rout, mp_mul(R, Rin))
    return R


def lin_particles(R, X):
    """reference particles X R^T and the forward-error scale sum_j |R_ij||x_j|"""
    ref, sc = [], []
    for row in X:
        xr = [mpf(float(v)) for v in row]
        ref.append([sum((R[i][j] * xr[j] for j in range(7)), mpf(0)) for i in range(7)])
        sc.append([float(sum((abs(R[i][j]) * abs(xr[j]) for j in range(7)), mpf(0))) for i in range(7)])
    return ref, np.array(sc)


def lin_moments(R, mu, cov):
    m = [mpf(float(v)) for v in mu]
    C = _mpm(cov)
    rm = [sum((R[i][j] * m[j] for j in range(7)), mpf(0)) for i in range(7)]
    sm = [float(sum((abs(R[i][j]) * abs(m[j]) for j in range(7)), mpf(0))) for i in range(7)]
    RC = [[sum((R[i][k] * C[k][j] for k in range(7)), mpf(0)) for j in range(7)] for i in range(7)]
    rc = [[sum((RC[i][k] * R[j][k] for k in range(7)), mpf(0)) for j in range(7)] for i in range(7)]
    aRC = [[sum((abs(R[i][k]) * abs(C[k][j]) for k in range(7)), mpf(0)) for j in range(7)] for i in range(7)]
    sc = [[float(sum((aRC[i][k] * abs(R[j][k]) for k in range(7)), mpf(0))) for j in range(7)] for i in range(7)]
    return rm, np.array(sm), rc, np.array(sc)


def worst(got, ref, scale, eps: float):
    """max |got - ref| / (eps * scale) and its index; entries with scale 0 must be exact"""
    got = np.asarray(got, dtype=float)
    scale = np.asarray(scale, dtype=float)
    w, wi = 0.0, None
    it = np.ndindex(*got.shape) if got.shape else [()]
    for idx in it:
        r = ref
        for k in idx:
            r = r[k]
        g = float(got[idx])
        if not math.isfinite(g):
            return float("inf"), idx
        e = abs(float(mpf(g) - r))
        s = float(scale[idx]) if scale.shape else float(scale)
        q = (0.0 if e == 0.0 else float("inf")) if s == 0.0 else e / (eps * s)
        if q > w:
            w, wi = q, idx
    return w, wi


COORD = ["x", "px", "y", "py", "tau", "delta", "one"]


def acc_linear(kind: str, q: dict, dtn: str) -> list:
    """drift / quadrupole (cheetah method), both beam types -> list of (observable, text)"""
    dtype = DT[dtn]
    eps = float(torch.finfo(dtype).eps)
    t = lambda x: torch.tensor(x, dtype=dtype)  # noqa: E731
    En = float(r32(q["E"], dtn))
    X = r32(q["particles"], dtn)
    if kind == "Drift":
        el = cheetah.Drift(length=t(q["L"]), dtype=dtype)
        R = mp_drift_R(r32(q["L"], dtn), En)
    else:
        el = cheetah.Quadrupole(length=t(q["L"]), k1=t(q["k1"]), tilt=t(q["tilt"]), misalignment=t([q["mx"], q["my"]]), dtype=dtype)
        R = mp_quad_R(r32(q["L"], dtn), r32(q["k1"], dtn), r32(q["tilt"], dtn), r32(q["mx"], dtn), r32(q["my"], dtn), En)
    out = []
    pb = el.track(cheetah.ParticleBeam(t(X), t(En), dtype=dtype))
    ref, sc = lin_particles(R, X)
    got = pb.particles.to(F64).numpy()
    for k in range(6):
        w, wi = worst(got[:, k], [r[k] for r in ref], sc[:, k], eps)
        if not w <= K_TOL:
            out.append((f"ParticleBeam {COORD[k]}", f"{float(got[wi[0], k])!r} vs reference {float(ref[wi[0]][k])!r} "
                                                    f"({w:.3g} eps x scale {sc[wi[0], k]:.3g})"))
    mu = X.mean(axis=0)
    cov = np.zeros((7, 7))
    cov[:6, :6] = np.cov(X[:, :6].T)
    mu, cov = r32(mu, dtn), r32(cov, dtn)
    mb = el.track(cheetah.ParameterBeam(t(mu), t(cov), t(En), dtype=dtype))
    rm, sm, rc, scc = lin_moments(R, mu, cov)
    w, wi = worst(mb._mu.to(F64).numpy()[:6], rm[:6], sm[:6], eps)
    if not w <= K_TOL:
        out.append((f"ParameterBeam mu {COORD[wi[0]]}", f"{float(mb._mu[wi[0]])!r} vs reference {float(rm[wi[0]])!r} ({w:.3g} eps x scale)"))
    w, wi = worst(mb._cov.to(F64).numpy()[:6, :6], [r[:6] for r in rc[:6]], scc[:6, :6], eps)
    if not w <= K_TOL:
        out.append(("ParameterBeam cov", f"cov[{wi[0]},{wi[1]}] = {float(mb._cov[wi])!r} vs reference {float(rc[wi[0]][wi[1]])!r} ({w:.3g} eps x scale)"))
    return out


# ------------------------------------------------------------------------------------------------
# Bmad-X drift and quadrupole (ports of the formulas of cheetah/utils/bmadx.py to mpmath), per particle
# ------------------------------------------------------------------------------------------------
def mp_to_bmad(tau, delta, E0):
    m = mpf(MC2)
    p0c = mp.sqrt(E0 ** 2 - m ** 2)
    En = E0 + delta * p0c
    p = mp.sqrt(En ** 2 - m ** 2)
    beta = p / En
    return -beta * tau, (p - p0c) / p0c, p0c, beta


def mp_from_bmad(z, pz, p0c):
    m = mpf(MC2)
    E0 = mp.sqrt(p0c ** 2 + m ** 2)
    p = (1 + pz) * p0c
    En = mp.sqrt(p ** 2 + m ** 2)
    beta = p / En
    return -z / beta, (En - E0) / p0c, E0


def mp_bmadx_drift(row, L, E0):
    x, px, y, py, tau, delta = [mpf(float(v)) for v in row[:6]]
    L, E0, m = mpf(float(L)), mpf(float(E0)), mpf(MC2)
    z, pz, p0c, beta = mp_to_bmad(tau, delta, E0)
    P = 1 + pz
    Px, Py = px / P, py / P
    Pl = mp.sqrt(1 - Px ** 2 - Py ** 2)
    # z = z + L (beta/beta_ref - 1/Pl)
    beta0 = p0c / E0
    dz = L * (beta / beta0 - 1 / Pl)
    x2, y2, z2 = x + L * Px / Pl, y + L * Py / Pl, z + dz
    tau2, delta2, _ = mp_from_bmad(z2, pz, p0c)
    b2 = float(min(beta, beta0)) ** 2
    ref = [x2, px, y2, py, tau2, delta2]
    sc = [float(abs(x) + abs(L * Px / Pl)), float(abs(px)), float(abs(y) + abs(L * Py / Pl)), float(abs(py)),
          float(abs(tau) + abs(L) * (abs(beta / beta0 - 1) + abs(1 / Pl - 1) + (m / E0) ** 2 * (1 + abs(delta))) / beta) / b2,
          float(1 + abs(delta)) / b2]
    return ref, sc


def mp_bmadx_quad(row, L, k1, tilt, mx, my, num_steps, E0):
    x, px, y, py, tau, delta = [mpf(float(v)) for v in row[:6]]
    L, k1, tilt, mx, my, E0, m = [mpf(float(v)) for v in (L, k1, tilt, mx, my, E0, MC2)]
    z, pz, p0c, beta = mp_to_bmad(tau, delta, E0)
    beta0 = p0c / E0
    s, c = mp.sin(tilt), mp.cos(tilt)
    xi, yi = x - mx, y - my
    x, y = xi * c + yi * s, -xi * s + yi * c
    px, py = px * c + py * s, -px * s + py * c
    step = L / num_steps
    rel_p = 1 + pz
    kq = k1 / rel_p                       # b1/(L rel_p), b1 = k1 L
    zabs = abs(z)
    amp = [abs(x), abs(px), abs(y), abs(py)]
    for _ in range(int(num_steps)):
        # horizontal: coefficients for -kq, vertical: +kq  (k > 0 defocuses in this convention)
        res = []
        for kk, (u, pu) in ((-kq, (x, px)), (kq, (y, py))):
            cu, su = mp_cs(-kk, step)      # kk <= 0: cos/sin of sqrt|kk|; kk > 0: cosh/sinh
            a11, a12, a21, a22 = cu, su / rel_p, kk * su * rel_p, cu
            c1 = kk * (-cu * su + step) / 4
            c2 = -kk * su ** 2 / (2 * rel_p)
            c3 = -(cu * su + step) / (4 * rel_p ** 2)
            dzu = c1 * u ** 2 + c2 * u * pu + c3 * pu ** 2
            zabs += abs(c1 * u ** 2) + abs(c2 * u * pu) + abs(c3 * pu ** 2)
            res.append((a11 * u + a12 * pu, a21 * u + a22 * pu, dzu, abs(a11 * u) + abs(a12 * pu), abs(a21 * u) + abs(a22 * pu)))
        z = z + res[0][2] + res[1][2]
        x, px, y, py = res[0][0], res[0][1], res[1][0], res[1][1]
        amp = [max(amp[0], res[0][3]), max(amp[1], res[0][4]), max(amp[2], res[1][3]), max(amp[3], res[1][4])]
        # low-energy correction ds (beta - beta0)/beta0; bmadx.low_energy_z_correction replaces it by its 3rd-order
        # series in pz when mc2 (beta0 pz)^2 < 3e-7 E0 (truncation error ~ pz^3, above float64 round-off): the
        # reference follows the same formula, this check is about the arithmetic, not about the series
        if m * (beta0 * pz) ** 2 < mpf("3e-7") * E0:
            dzl = step * pz * (1 - 3 * (pz * beta0 ** 2) / 2 + pz ** 2 * beta0 ** 2 * (2 * beta0 ** 2 - (m / E0) ** 2 / 2)) * (m / E0) ** 2
            zabs += abs(dzl)
        else:
            dzl = step * (beta - beta0) / beta0
            zabs += step * (beta + beta0) / beta0       # difference of two numbers of size 1: absolute error eps * ds
        z = z + dzl
    x2 = x * c - y * s + mx
    y2 = x * s + y * c + my
    px2, py2 = px * c - py * s, px * s + py * c
    tau2, delta2, _ = mp_from_bmad(z, pz, p0c)
    b2 = float(min(beta, beta0)) ** 2
    axy = float(amp[0] + amp[2] + abs(mx) + abs(my))
    apxy = float(amp[1] + amp[3])
    ref = [x2, px2, y2, py2, tau2, delta2]
    zabs += abs(L) * (m / E0) ** 2 * (1 + abs(delta))     # conditioning of the path length on the round-off of pz
    sc = [axy, apxy, axy, apxy, float(zabs / beta) / b2, float(1 + abs(delta)) / b2]
    return ref, sc


def acc_bmadx(kind: str, q: dict, dtn: str) -> list:
    dtype = DT[dtn]
    eps = float(torch.finfo(dtype).eps)
    t = lambda x: torch.tensor(x, dtype=dtype)  # noqa: E731
    En = float(r32(q["E"], dtn))
    X = r32(q["particles"], dtn)
    if kind == "Drift(bmadx)":
        el = cheetah.Drift(length=t(q["L"]), tracking_method="bmadx", dtype=dtype)
        fn = lambda row: mp_bmadx_drift(row, r32(q["L"], dtn), En)  # noqa: E731
    else:
        el = cheetah.Quadrupole(length=t(q["L"]), k1=t(q["k1"]), tilt=t(q["tilt"]), misalignment=t([q["mx"], q["my"]]),
                                num_steps=q["num_steps"], tracking_method="bmadx", dtype=dtype)
        fn = lambda row: mp_bmadx_quad(row, r32(q["L"], dtn), r32(q["k1"], dtn), r32(q["tilt"], dtn), r32(q["mx"], dtn),  # noqa: E731
                                       r32(q["my"], dtn), q["num_steps"], En)
    pb = el.track(cheetah.ParticleBeam(t(X), t(En), dtype=dtype))
    got = pb.particles.to(F64).numpy()
    out = []
    refs = [fn(row) for row in X]
    for k in range(6):
        w, wi = worst(got[:, k], [r[0][k] for r in refs], np.array([r[1][k] for r in refs]), eps)
        if not w <= K_TOL:
            out.append((f"ParticleBeam {COORD[k]}", f"{float(got[wi[0], k])!r} vs reference {float(refs[wi[0]][0][k])!r} ({w:.3g} eps x scale)"))
    e_ref = mpf(En)
    w, _ = worst(pb.energy.to(F64).numpy(), e_ref, abs(En) / min(1.0, 1 - (MC2 / En) ** 2), eps)
    if not w <= K_TOL:
        out.append(("energy", f"{float(pb.energy)!r} vs {En!r} ({w:.3g} eps)"))
    return out


# ------------------------------------------------------------------------------------------------
# beam constructors / transformations / SI conversion vs mpmath
# ------------------------------------------------------------------------------------------------
def mp_stats(col):
    """mean and unbiased standard deviation (all survival probabilities 1)"""
    v = [mpf(float(x)) for x in col]
    n = len(v)
    m = sum(v, mpf(0)) / n
    s = mp.sqrt(sum(((x - m) ** 2 for x in v), mpf(0)) / (n - 1))
    return m, s


def acc_beam_ops(q: dict, dtn: str) -> list:
    """-> list of (operation, observable, text)"""
    dtype = DT[dtn]
    eps = float(torch.finfo(dtype).eps)
    t = lambda x: torch.tensor(x, dtype=dtype)  # noqa: E731
    R = lambda x: mpf(float(r32(x, dtn)))  # noqa: E731
    out = []

    def cmp(op, obs, got, ref, scale):
        w, wi = worst(got, ref, scale, eps)
        if not w <= K_TOL:
            g = np.asarray(got, dtype=float)
            r = ref
            for k in (wi or ()):
                r = r[k]
            out.append((op, obs, f"{float(g[wi]) if wi is not None and g.shape else float(g)!r} vs reference {float(r)!r} ({w:.3g} eps x scale)"))

    # --- ParameterBeam.from_parameters / from_twiss: second moments
    mb = cheetah.ParameterBeam.from_parameters(sigma_x=t(q["sx"]), sigma_px=t(q["spx"]), sigma_y=t(q["sy"]), sigma_py=t(q["spy"]),
                                               sigma_tau=t(q["st"]), sigma_p=t(q["sp"]), mu_x=t(q["mu"]), energy=t(q["E"]),
                                               total_charge=t(q["Q"]), dtype=dtype)
    for k, nm in enumerate(["sx", "spx", "sy", "spy", "st", "sp"]):
        cmp("ParameterBeam.from_parameters", f"cov[{k},{k}]", float(mb._cov[k, k]), R(q[nm]) ** 2, float(R(q[nm]) ** 2))
    cmp("ParameterBeam.from_parameters", "mu_x", float(mb._mu[0]), R(q["mu"]), abs(q["mu"]))
    cmp("ParameterBeam.from_parameters", "energy", float(mb.energy), R(q["E"]), q["E"])
    tw = cheetah.ParameterBeam.from_twiss(beta_x=t(q["bx"]), alpha_x=t(q["ax"]), emittance_x=t(q["ex"]), beta_y=t(q["by"]),
                                          alpha_y=t(q["ay"]), emittance_y=t(q["ey"]), energy=t(q["E"]), dtype=dtype)
    bx, ax, ex = R(q["bx"]), R(q["ax"]), R(q["ex"])
    cmp("ParameterBeam.from_twiss", "cov[0,0]", float(tw._cov[0, 0]), ex * bx, float(ex * bx))
    cmp("ParameterBeam.from_twiss", "cov[1,1]", float(tw._cov[1, 1]), ex * (1 + ax ** 2) / bx, float(ex * (1 + ax ** 2) / bx))
    cmp("ParameterBeam.from_twiss", "cov[0,1]", float(tw._cov[0, 1]), -ex * ax, float(abs(ex * ax)))

    # --- ParticleBeam.make_linspaced
    n = 9
    lb = cheetah.ParticleBeam.make_linspaced(num_particles=n, mu_x=t(q["mu"]), sigma_x=t(q["sx"]), sigma_px=t(q["spx"]),
                                             sigma_tau=t(q["st"]), sigma_p=t(q["sp"]), energy=t(q["E"]), dtype=dtype)
    g = lb.particles.to(F64).numpy()
    for k, (m0, s0) in {0: (R(q["mu"]), R(q["sx"])), 1: (mpf(0), R(q["spx"])), 4: (mpf(0), R(q["st"])), 5: (mpf(0), R(q["sp"]))}.items():
        ref = [m0 - s0 + 2 * s0 * i / (n - 1) for i in range(n)]
        cmp("ParticleBeam.make_linspaced", COORD[k], g[:, k], ref, np.full(n, float(abs(m0) + s0)))

    # --- statistics, transformed_to, linspaced of a ParticleBeam
    X = r32(q["particles"], dtn)
    npart = X.shape[0]
    pb = cheetah.ParticleBeam(t(X), t(q["E"]), particle_charges=t(np.full(npart, q["Q"] / npart)), dtype=dtype)
    st = [mp_stats(X[:, k]) for k in range(6)]
    cond = [float(npart * (1 + (m / s) ** 2)) for m, s in st]
    props = ["x", "px", "y", "py", "tau", "p"]
    for k, nm in enumerate(props):
        cmp("ParticleBeam.mu/sigma", f"mu_{nm}", float(getattr(pb, f"mu_{nm}")), st[k][0], float(sum(abs(v) for v in X[:, k]) / npart))
        cmp("ParticleBeam.mu/sigma", f"sigma_{nm}", float(getattr(pb, f"sigma_{nm}")), st[k][1], float(st[k][1]) * cond[k])
    new = {0: (R(q["mu"]), None), 2: (None, R(q["sig"])), 5: (None, R(q["sigp"]))}
    tb = pb.transformed_to(mu_x=t(q["mu"]), sigma_y=t(q["sig"]), sigma_p=t(q["sigp"]), energy=t(q["E2"]), total_charge=t(q["Q2"]))
    g = tb.particles.to(F64).numpy()
    for k in range(6):
        m, s = st[k]
        m_old = m if k < 4 else mpf(0)          # transformed_to keeps the longitudinal centre (its formula uses 0)
        m_new = new.get(k, (None, None))[0]
        s_new = new.get(k, (None, None))[1]
        m_new = m_old if m_new is None else m_new
        s_new = s if s_new is None else s_new
        ref = [(mpf(float(x)) - m_old) / s * s_new + m_new for x in X[:, k]]
        sc = np.array([float((abs(mpf(float(x))) + abs(m_old)) / s * s_new + abs(m_new)) * cond[k] for x in X[:, k]])
        cmp("ParticleBeam.transformed_to", COORD[k], g[:, k], ref, sc)
    cmp("ParticleBeam.transformed_to", "energy", float(tb.energy), R(q["E2"]), q["E2"])
    cmp("ParticleBeam.transformed_to", "particle_charges", tb.particle_charges.to(F64).numpy(),
        [R(q["Q2"]) / npart] * npart, np.full(npart, q["Q2"] / npart))
    n = 7
    sb = pb.linspaced(n)
    g = sb.particles.to(F64).numpy()
    for k in range(6):
        m, s = st[k]
        m = m if k < 4 else mpf(0)
        ref = [m - s + 2 * s * i / (n - 1) for i in range(n)]
        cmp("ParticleBeam.linspaced", COORD[k], g[:, k], ref, np.full(n, float(abs(m) + s) * cond[k]))

    # --- ParameterBeam.linspaced / transformed_to
    mu = r32(X.mean(axis=0), dtn)
    cov = np.zeros((7, 7))
    cov[:6, :6] = np.cov(X[:, :6].T)
    cov = r32(cov, dtn)
    mb = cheetah.ParameterBeam(t(mu), t(cov), t(q["E"]), total_charge=t(q["Q"]), dtype=dtype)
    sb = mb.linspaced(n)
    g = sb.particles.to(F64).numpy()
    for k in range(6):
        m = mpf(float(mu[k])) if k < 4 else mpf(0)
        s = mp.sqrt(mpf(float(cov[k, k])))
        ref = [m - s + 2 * s * i / (n - 1) for i in range(n)]
        cmp("ParameterBeam.linspaced", COORD[k], g[:, k], ref, np.full(n, float(abs(m) + s)))
    tb = mb.transformed_to(mu_x=t(q["mu"]), sigma_y=t(q["sig"]), energy=t(q["E2"]))
    cmp("ParameterBeam.transformed_to", "cov[2,2]", float(tb._cov[2, 2]), R(q["sig"]) ** 2, float(R(q["sig"]) ** 2))
    cmp("ParameterBeam.transformed_to", "cov[0,0]", float(tb._cov[0, 0]), mpf(float(cov[0, 0])), float(cov[0, 0]))
    cmp("ParameterBeam.transformed_to", "mu_x", float(tb._mu[0]), R(q["mu"]), abs(q["mu"]))
    cmp("ParameterBeam.transformed_to", "energy", float(tb.energy), R(q["E2"]), q["E2"])

    # --- SI momenta and round trip (float64 only: in float32 the squared SI momenta underflow, see C18)
    if dtn == "float64":
        E0 = mpf(float(q["E"]))
        g0 = E0 / mpf(MC2)
        b0 = mp.sqrt(1 - 1 / g0 ** 2)
        p0 = g0 * b0 * mpf(M_E) * mpf(CL)
        xp = pb.to_xyz_pxpypz()
        g = xp.numpy()
        refs = {1: [], 3: [], 4: [], 5: []}
        for row in X:
            ga = g0 * (1 + mpf(float(row[5])) * b0)
            P = mp.sqrt(ga ** 2 - 1) * mpf(M_E) * mpf(CL)
            Px, Py = mpf(float(row[1])) * p0, mpf(float(row[3])) * p0
            refs[1].append(Px); refs[3].append(Py); refs[4].append(-b0 * mpf(float(row[4])))  # noqa: E702
            refs[5].append(mp.sqrt(P ** 2 - Px ** 2 - Py ** 2))
        b2 = float(b0) ** 2
        for k, nm in ((1, "Px"), (3, "Py"), (4, "z"), (5, "Pz")):
            cmp("ParticleBeam.to_xyz_pxpypz", nm, g[:, k], refs[k], np.array([abs(float(v)) / b2 for v in refs[k]]))
        back = cheetah.ParticleBeam.from_xyz_pxpypz(xp, pb.energy, dtype=dtype)
        g = back.particles.numpy()
        for k in (1, 3, 4, 5):
            cmp("from_xyz_pxpypz(to_xyz_pxpypz)", COORD[k], g[:, k], [mpf(float(v)) for v in X[:, k]],
                np.array([((1 + abs(v)) if k == 5 else abs(v)) / b2 for v in X[:, k]]))
    return out


def gen_acc_params(rng) -> dict:
    while True:
        L, k1 = E.length(rng, allow_zero=False), E.signed(rng, 0.05, 30.0, 0.0)
        if 0.15 <= math.sqrt(abs(k1)) * L <= 6.0:      # away from the weakly conditioned sinh(kL)/k at kL -> 0
            break
    q = gen_beam_params(rng)
    q.update({"L": L, "k1": k1, "tilt": E.signed(rng, 1e-3, 1.5, 0.3), "mx": E.signed(rng, 1e-5, 5e-3, 0.4),
              "my": E.signed(rng, 1e-5, 5e-3, 0.4), "num_steps": int(E.pick(rng, 1, 2, 5))})
    return q


def accuracy_findings(q: dict) -> list:
    """all accuracy checks on one parameter set -> list of (signature, what)"""
    out = []
    for dtn in ("float64", "float32"):
        for kind, fn in (("Drift", acc_linear), ("Quadrupole", acc_linear), ("Drift(bmadx)", acc_bmadx), ("Quadrupole(bmadx)", acc_bmadx)):
            try:
                res = fn(kind, q, dtn)
            except Exception as ex:
                res = [(f"raises {type(ex).__name__}", str(ex)[:160])]
            for obs, txt in res:
                out.append((f"C12|accuracy|{kind}.track|{dtn}|{obs.split()[0]}", f"{kind}.track in {dtn} vs mpmath: {obs}: {txt}"))
        try:
            res = acc_beam_ops(q, dtn)
        except Exception as ex:
            res = [("beam operations", f"raises {type(ex).__name__}", str(ex)[:160])]
        for op, obs, txt in res:
            out.append((f"C12|accuracy|{op}|{dtn}|values", f"{op} in {dtn} vs mpmath: {obs}: {txt}"))
    seen, uniq = set(), []
    for sig, what in out:
        if sig not in seen:
            seen.add(sig)
            uniq.append((sig, what))
    return uniq


# ================================================================================================
# driver
# ================================================================================================
_PH = None


def _ph() -> tuple:
    global _PH
    if _PH is None:
        _PH = placeholder_classes()
    return _PH


def findings_element(r: dict, rep=None) -> list:
    rec, ex, En, P = r["record"], r.get("extra", {}), r["energy"], np.array(r["particles"])
    return collect(r["variant"], lambda run: scen_element(run, rec, ex, En, P, _ph()), rep)


def findings_lattice(r: dict, rep=None) -> list:
    recs, En, P = r["records"], r["energy"], np.array(r["particles"])
    return collect("Segment", lambda run: scen_lattice(run, recs, En, P, _ph()), rep)


def findings_beams(r: dict, rep=None) -> list:
    q = r["params"]
    fn = scen_particle_beam if r["which"] == "ParticleBeam" else scen_parameter_beam
    return collect("", lambda run: fn(run, q), rep)


def findings_import(r: dict, rep=None) -> list:
    extra = []
    out = collect("", lambda run: scen_import(run, r["which"], r["seed"], _ph(), extra), rep)
    seen = {s for s, _ in out}
    for sig, what in extra:
        if sig not in seen:
            seen.add(sig)
            out.append((sig, what))
    return out


def findings_placeholder(r: dict, rep=None) -> list:
    """dtype-less elements (Marker, BPM, Segment) inside a float64 lattice carry the default-dtype `length`
    placeholder of Element.__init__"""
    def body(run: Run):
        seg = run.stage("Segment([Drift, Marker, BPM])", lambda: cheetah.Segment(
            [cheetah.Drift(length=torch.tensor(1.0, dtype=run.dtype), dtype=run.dtype), cheetah.Marker(), cheetah.BPM()]))
        run.check("Segment([Drift, Marker, BPM])", seg, ())
    return collect("", body, rep)


FINDERS = {"element": findings_element, "lattice": findings_lattice, "beams": findings_beams, "import": findings_import,
           "placeholder": findings_placeholder, "accuracy": lambda r, rep=None: accuracy_findings(r["params"])}


def shrink_lattice(r: dict, sig: str) -> dict:
    def fails(cand):
        return any(s == sig for s, _ in findings_lattice(dict(r, records=cand)))
    try:
        small = LT.shrink_tree(r["records"], fails, max_steps=40)
    except Exception:
        small = r["records"]
    return dict(r, records=small)


def run(ctx) -> None:
    rep, rng = ctx.report, ctx.rng
    known = set()

    def handle(kind: str, r: dict, key, sample=None) -> None:
        r = dict(r, kind=kind)
        rep.fals_cases += 2                  # float32 and float64
        rep.count(f"{kind}:{key if isinstance(key, str) else key[0]}")
        rep.case((kind, key) if isinstance(key, str) else (kind,) + tuple(key), sample)
        fs = FINDERS[kind](r, rep)
        for sig, what in fs:
            if sig in known:
                continue
            known.add(sig)
            rr = r
            if kind == "lattice" and len(LT.leaves(r["records"])) > 1:
                rr = shrink_lattice(r, sig)
            rep.fail("falsifier", sig, what, dict(rr, signature=sig))

    handle("placeholder", {}, "dtype-less elements")
    for rnd in range(ctx.n(3, 25)):
        for v in ELEMENT_VARIANTS:
            rec, ex = _variant_record(rng, v)
            handle("element", {"variant": v, "record": rec, "extra": ex, "energy": E.energy(rng),
                               "particles": LT.gen_particles(rng, 8).tolist()}, v,
                   {"scenario": v, "record": rec} if rnd == 0 else None)
    for rnd in range(ctx.n(1, 10)):
        q = gen_beam_params(rng)
        handle("beams", {"which": "ParticleBeam", "params": q}, "ParticleBeam")
        handle("beams", {"which": "ParameterBeam", "params": q}, "ParameterBeam")
    for rnd in range(ctx.n(12, 200)):
        recs = gen_c12_lattice(rng)
        handle("lattice", {"records": recs, "energy": E.energy(rng), "particles": LT.gen_particles(rng, 8).tolist()},
               ("lattice", LT.class_seq(recs)))
    for rnd in range(ctx.n(1, 10)):
        for w in IMPORTS:
            handle("import", {"which": w, "seed": int(rng.integers(2 ** 31))}, w)
    for rnd in range(ctx.n(12, 200)):
        handle("accuracy", {"params": gen_acc_params(rng)}, "accuracy")


def corpus_case(ctx, r: dict) -> None:
    kind = r.get("kind")
    if kind not in FINDERS:
        return
    ctx.report.fals_cases += 2
    for sig, what in FINDERS[kind](r, ctx.report):
        ctx.report.fail("falsifier", sig, what, dict(r, signature=sig))
