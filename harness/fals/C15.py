"""C15 falsifier — clone() of elements, segments and beams: equal, independent, identically behaving.

Oracle: the object that was cloned (built from a parameter record), the constructor signatures read with `inspect`
(NOT `defining_features`), storage pointers, bitwise snapshots taken before a mutation of the other object.
"""
from __future__ import annotations

import copy
import inspect
from typing import Optional

import numpy as np
import torch

import cheetah
from fals import _full as FU

META = {
    "rule": "case = one element of each of the 16 classes (every constructor parameter non-default with probability 1 / "
            "0.5, scalar or batched values, float64 or float32), or a nested segment (<= 6 such leaves, depth <= 3), or a "
            "ParameterBeam / ParticleBeam (float32 / float64, plain or batched, with survival probabilities) x direction "
            "of the later mutation (clone -> original, original -> clone) x mutation kind (in place `+=`, assignment, flag "
            "flip, in-place write into every tensor); distinct = distinct (class, set parameters, batched parameters, "
            "dtype)",
    "assumptions": [
        "attribute values of the clone must equal the original's bitwise, except RBend.rbend_e1/e2 (stored as e + angle/2): "
        "8 ulps of max(|e|,|angle|); an int that comes back as an integer tensor would count as equal",
        "clone.track(b) vs original.track(b): 1e-9 (float64) / 1e-5 (float32) relative to the beam size per coordinate; "
        "the un-mutated object must track bitwise as before the other one was mutated",
        "tensors with zero elements have no storage to share and are skipped",
    ],
}


class Rejected(Exception):
    pass


def _eps(dtype) -> float:
    return 2.0 ** -52 if dtype == FU.F64 else 2.0 ** -23


def _attr_tol(el, p: str, dtype):
    if type(el).__name__ == "RBend" and p in ("rbend_e1", "rbend_e2"):
        sc = float(torch.max(torch.abs(el.angle))) + float(torch.max(torch.abs(getattr(el, p))))
        return dict(ulps=8.0, eps=_eps(dtype), scale=sc)
    return dict(eps=_eps(dtype))


def leaf_pairs(a, b):
    """[(path, original leaf, clone leaf)]; for a bare element the single pair"""
    if isinstance(a, cheetah.Segment):
        return [(".".join(p), x, y) for (p, x), (_, y) in zip(FU.walk(a), FU.walk(b)) if not isinstance(x, cheetah.Segment)]
    return [(a.name, a, b)]


def readings(obj) -> dict:
    out = {}
    els = [e for _, e in FU.walk(obj)] if isinstance(obj, cheetah.Segment) else [obj]
    for i, el in enumerate(els):
        if isinstance(el, (cheetah.Screen, cheetah.BPM)) and el.is_active:
            try:
                out[f"{i}:{el.name}"] = (type(el).__name__, el.reading)
            except Exception as ex:
                out[f"{i}:{el.name}"] = (type(el).__name__, "exception " + type(ex).__name__)
    return out


def _reading_equal(a, b, rtol) -> bool:
    if isinstance(a, str) or isinstance(b, str):
        return isinstance(a, str) and isinstance(b, str) and a == b
    if a is None or b is None:
        return a is None and b is None
    if a.shape != b.shape or a.dtype != b.dtype:
        return False
    sc = float(torch.nan_to_num(a.abs()).max()) if a.numel() else 0.0
    return bool(torch.all(torch.nan_to_num((a - b).abs()) <= rtol * max(sc, 1e-300)))


def track_all(obj, rec, En, P, dtype) -> dict:
    """{beam type: (outgoing | None, exception name | None, readings)}"""
    out = {}
    recs = rec["elements"] if rec["cls"] == "Segment" else [rec]
    for bt in ("ParticleBeam", "ParameterBeam"):
        if not FU.trackable(recs, bt):
            continue
        o, e = FU.safe_track(obj, FU.make_beam(bt, P, En, dtype))
        out[bt] = (o, e, readings(obj))
    return out


def compare_tracks(t1: dict, t2: dict, rtol: float, rtol_read: float) -> Optional[tuple]:
    """(beam type, observable, text) of the first difference"""
    for bt in t1:
        (o1, e1, r1), (o2, e2, r2) = t1[bt], t2[bt]
        if e1 != e2:
            return (bt, "exception", f"{e1 or 'tracks'} vs {e2 or 'tracks'}")
        if o1 is None:
            continue
        d = FU.beams_differ(o1, o2, rtol=rtol)
        if d:
            return (bt, FU.observable(d).split("[")[0], d)
        if set(r1) != set(r2):
            return (bt, "reading", f"diagnostics {sorted(r1)} vs {sorted(r2)}")
        for k in r1:
            if not _reading_equal(r1[k][1], r2[k][1], rtol_read):
                return (bt, "reading", f"{r1[k][0]} {k}: {FU._short(FU.plain(r1[k][1]), 50)} vs {FU._short(FU.plain(r2[k][1]), 50)}")
    return None


# ------------------------------------------------------------------------------------------------
# mutation of one object
# ------------------------------------------------------------------------------------------------
def mutate(obj, kind: str) -> int:
    """modify every constructor-settable attribute of every leaf of obj; returns the number of modifications"""
    n = 0
    top = {e.name for e in obj.elements} if isinstance(obj, cheetah.Segment) else set()
    for path, leaf, _ in leaf_pairs(obj, obj):
        # top-level leaves are reached through the segment's by-name handle, like a user would
        el = getattr(obj, leaf.name) if (leaf.name in top and "." not in path) else leaf
        if el is not leaf:
            continue        # duplicate names: the handle is a list; not in the property's quantifier
        spec = FU.SPEC.get(type(el).__name__, {})
        for p in FU.ctor_params(type(el)):
            if p == "name" or not hasattr(el, p):
                continue
            v = getattr(el, p)
            try:
                if isinstance(v, torch.Tensor) and v.is_floating_point():
                    if kind == "inplace":           # el.k1 += 1
                        v += 0.25
                        setattr(el, p, v)
                    elif kind == "assign":          # el.k1 = torch.tensor(...)
                        setattr(el, p, torch.full_like(v, 0.125))
                    else:
                        continue
                elif kind == "assign":
                    if isinstance(v, bool):
                        setattr(el, p, not v)
                    elif isinstance(v, str):
                        ch = spec.get(p, "s:").split(":")[1].split(",")
                        setattr(el, p, [c for c in ch if c != v][0] if len(ch) > 1 else v)
                    elif isinstance(v, int):
                        setattr(el, p, v + 1)
                    elif isinstance(v, tuple):
                        setattr(el, p, tuple(x + 2 for x in v))
                    elif isinstance(v, list):
                        v[0] = v[0] + 2     # a mutable list: in place
                    else:
                        continue
                else:
                    continue
                n += 1
            except (AttributeError, TypeError):     # read-only property (e.g. SpaceChargeKick.num_grid_points_x)
                continue
    if kind == "raw":                               # in-place write into every tensor the object holds
        for k, t in FU.tensors_of(obj, skip=()).items():
            if t.is_floating_point() and t.numel() > 0:
                t.add_(0.5)
                n += 1
    return n


# ------------------------------------------------------------------------------------------------
# one element / segment case
# ------------------------------------------------------------------------------------------------
def check_case(case: dict, only: Optional[str] = None) -> list:
    rec, dtype = case["record"], FU.DTYPES[case["dtype"]]
    En, P = case["energy"], np.array(case["particles"])
    rtol = 1e-9 if dtype == FU.F64 else 1e-5
    fails: list = []

    def add(sig, what):
        if only is None or family(sig) == only:
            fails.append((sig, what))

    try:
        orig = FU.build_full(rec, dtype)
    except Exception as ex:
        raise Rejected(type(ex).__name__) from ex
    # settings changed after construction (attribute assignment), then cloned: the clone must carry the current values
    for path, leaf in (FU.walk(orig) if isinstance(orig, cheetah.Segment) else [((orig.name,), orig)]):
        for p, v in (case.get("retune") or {}).get(leaf.name, {}).items():
            if isinstance(leaf, cheetah.Segment) or not hasattr(leaf, p):
                continue
            kind = FU.SPEC.get(type(leaf).__name__, {}).get(p, "?")
            try:
                setattr(leaf, p, torch.tensor(v, dtype=dtype) if kind in FU.TENSOR_KINDS else (tuple(v) if kind == "r" else v))
            except Exception:  # noqa: BLE001  the class refuses the assignment: nothing was changed
                pass
    cname = type(orig).__name__
    snap0 = FU.Snapshot(orig)
    # ---- clause: cloning returns an object ...
    try:
        cl = orig.clone()
    except Exception as ex:
        culprit = _clone_culprit(rec, dtype)
        add(f"C15|{culprit}.clone|exception:{type(ex).__name__}", f"{culprit}.clone() raised {type(ex).__name__}: {ex}")
        return fails
    d = snap0.diff(orig)
    if d:
        add(f"C15|{FU.field_class(orig, d[0]).split('.')[0]}.clone|{d[0].split('.')[-1]}|original-modified",
            "clone() modified the original: " + d[2])
    # ---- ... of the same type (segments: same nesting, order, names)
    if type(cl) is not type(orig):
        add(f"C15|{cname}.clone|type", f"clone is a {type(cl).__name__}")
        return fails
    if cl is orig:
        add(f"C15|{cname}.clone|identity", "clone() returned the object itself")
        return fails
    if isinstance(orig, cheetah.Segment):
        if cl.name != orig.name:
            add("C15|Segment.clone|name|value", f"name {cl.name!r} vs {orig.name!r}")
        if FU.structure(cl) != FU.structure(orig):
            add("C15|Segment.clone|elements|structure", f"{FU._short(FU.structure(cl), 150)} vs {FU._short(FU.structure(orig), 150)}")
            return fails
        for el in cl.elements:      # the clone's by-name handles must address the clone's elements
            h = getattr(cl, el.name, None)      # (several elements of one name are listed under that name)
            if h is not el and not (isinstance(h, list) and any(x is el for x in h)):
                add("C15|Segment.clone|by-name handle|identity", f"clone.{el.name} is not the clone's element")
                break
    # ---- equal values for every constructor-settable attribute, same dtype
    for path, a, b in leaf_pairs(orig, cl):
        if type(a) is not type(b):
            add(f"C15|{type(a).__name__}.clone|type", f"{path}: clone is a {type(b).__name__}")
            continue
        for p in FU.ctor_params(type(a)):
            if not hasattr(a, p):
                continue
            if not hasattr(b, p):
                add(f"C15|{type(a).__name__}.clone|{p}|missing", f"{path}.{p} missing on the clone")
                continue
            dv = FU.value_diff(getattr(a, p), getattr(b, p), **_attr_tol(a, p, dtype))
            if dv:
                kind = "dtype" if dv.startswith("dtype") else "value"
                add(f"C15|{type(a).__name__}.clone|{p}|{kind}", f"{path}.{p}: original vs clone {dv}")
        ta, tb = FU.tensors_of(a), FU.tensors_of(b)
        for k in ta:
            if k in tb and ta[k].dtype != tb[k].dtype:
                add(f"C15|{type(a).__name__}.clone|{k}|dtype", f"{path}.{k}: {ta[k].dtype} vs {tb[k].dtype}")
    # ---- no shared tensor storage (every tensor of the clone against every tensor of the original)
    po, pc = FU.storage_ptrs(orig), FU.storage_ptrs(cl)
    inv = {}
    for k, v in po.items():
        inv.setdefault(v, k)
    shared = [k for k, v in pc.items() if v in inv]
    for k in shared:
        leaf_prefix = k.rsplit(".", 1)[0] + "." if "." in k else ""
        mine = [q for q in pc if q.startswith(leaf_prefix) and "." not in q[len(leaf_prefix):]]
        cls_k = FU.field_class(cl, k).split(".")[0]
        # more than half of an element's tensors shared and no class-specific clone(): the generic Element.clone
        generic = 2 * sum(q in shared for q in mine) > len(mine) and getattr(cheetah, cls_k).clone is FU.Element.clone
        add(f"C15|{'Element' if generic else cls_k}.clone|{'tensor attributes' if generic else k.split('.')[-1]}|shared-storage",
            f"clone.{k} shares its storage with original.{inv[pc[k]]}")
    for path, a, b in leaf_pairs(orig, cl):
        for p in FU.ctor_params(type(a)):
            va, vb = getattr(a, p, None), getattr(b, p, None)
            if isinstance(va, (list, dict, set)) and va is vb:
                add(f"C15|{type(a).__name__}.clone|{p}|shared-object", f"{path}.{p}: the same mutable {type(va).__name__} object")
    # ---- the clone tracks every beam exactly like the original
    t_or = track_all(orig, rec, En, P, dtype)
    t_cl = track_all(cl, rec, En, P, dtype)
    dt = compare_tracks(t_or, t_cl, rtol, 100 * rtol)
    if dt:
        add(f"C15|{_track_culprit(rec, dtype, En, P, dt[0], rtol)}.clone|track|{dt[0]}|{dt[1]}", f"clone tracks differently ({dt[0]}): {dt[2]}")
    # ---- modifying either afterwards does not affect the other
    for direction in ("clone->original", "original->clone"):
        for kind in case.get("mutations", ["inplace", "assign", "raw"]):
            o2 = FU.build_full(rec, dtype)
            try:
                c2 = o2.clone()
            except Exception:
                break
            victim, actor = (o2, c2) if direction == "clone->original" else (c2, o2)
            t_before = track_all(victim, rec, En, P, dtype)
            snap = FU.Snapshot(victim)
            mutate(actor, kind)
            dd = snap.diff(victim)
            if dd:
                add(f"C15|{FU.field_class(victim, dd[0]).split('.')[0]}.clone|{dd[0].split('.')[-1]}|not-independent",
                    f"{kind} modification of the {direction.split('->')[0]} changed the {direction.split('->')[1]}: {dd[2]}")
                continue
            t_after = track_all(victim, rec, En, P, dtype)
            dt = compare_tracks(t_before, t_after, 0.0, 0.0)
            if dt:
                add(f"C15|{cname}.clone|track-after-mutation|{dt[0]}",
                    f"{kind} modification of the {direction.split('->')[0]} changed how the {direction.split('->')[1]} tracks: {dt[2]}")
    return fails


def family(sig: str) -> str:
    parts = sig.split("|")
    return "|".join(parts[:3])


def _leaf_recs(rec):
    return FU.leaves(rec["elements"]) if rec["cls"] == "Segment" else [rec]


def _clone_culprit(rec, dtype) -> str:
    for r in _leaf_recs(rec):
        try:
            FU.build_full(r, dtype).clone()
        except Exception:
            return r["cls"]
    return "Segment"


def _track_culprit(rec, dtype, En, P, bt, rtol) -> str:
    for r in _leaf_recs(rec):
        try:
            el = FU.build_full(r, dtype)
            c = el.clone()
            o1, e1 = FU.safe_track(el, FU.make_beam(bt, P, En, dtype))
            o2, e2 = FU.safe_track(c, FU.make_beam(bt, P, En, dtype))
            if e1 != e2 or (o1 is not None and FU.beams_differ(o1, o2, rtol=rtol)):
                return r["cls"]
        except Exception:
            continue
    return rec["cls"]


# ------------------------------------------------------------------------------------------------
# beams
# ------------------------------------------------------------------------------------------------
def make_case_beam(case):
    dtype = FU.DTYPES[case["dtype"]]
    P, En = np.array(case["particles"]), case["energy"]
    if case["beam"] == "ParticleBeam":
        Pt = torch.tensor(P, dtype=dtype)
        n = P.shape[0]
        en = torch.tensor(En, dtype=dtype)
        q = torch.tensor(np.full(n, 1e-12 / n), dtype=dtype)
        sv = torch.tensor(case["survival"], dtype=dtype)
        if case["batch"]:
            Pt = Pt.repeat(case["batch"], 1, 1) * torch.arange(1, case["batch"] + 1, dtype=dtype).reshape(-1, 1, 1)
            Pt[..., 6] = 1.0
            en = en * torch.arange(1, case["batch"] + 1, dtype=dtype)
        return cheetah.ParticleBeam(Pt, en, particle_charges=q, survival_probabilities=sv, dtype=dtype)
    b = FU.make_beam("ParameterBeam", P, En, dtype)
    if case["batch"]:
        k = torch.arange(1, case["batch"] + 1, dtype=dtype)
        b = cheetah.ParameterBeam(b._mu * k.reshape(-1, 1), b._cov * k.reshape(-1, 1, 1), b.energy * k,
                                  total_charge=b.total_charge * k, dtype=dtype)
    if case.get("asym"):
        # a covariance that is not exactly symmetric (round-off of R cov R^T, or handed over like this): a clone copies it
        cov = b._cov.clone()
        cov[..., 0, 1] = cov[..., 0, 1] * 1.001
        cov[..., 2, 5] = cov[..., 2, 5] + 1e-3 * cov[..., 2, 2].abs().sqrt() * cov[..., 5, 5].abs().sqrt()
        b = cheetah.ParameterBeam(b._mu, cov, b.energy, total_charge=b.total_charge, dtype=dtype)
    return b


def check_beam(case: dict) -> list:
    fails = []
    dtype = FU.DTYPES[case["dtype"]]
    bt = case["beam"]
    b = make_case_beam(case)
    snap0 = FU.Snapshot(b)
    try:
        c = b.clone()
    except Exception as ex:
        return [(f"C15|{bt}.clone|exception:{type(ex).__name__}", f"{bt}.clone() raised {type(ex).__name__}: {ex}")]
    d = snap0.diff(b)
    if d:
        fails.append((f"C15|{bt}.clone|{d[0]}|original-modified", "clone() modified the beam: " + d[2]))
    if type(c) is not type(b) or c is b:
        return fails + [(f"C15|{bt}.clone|type", f"clone is {type(c).__name__}{' (the same object)' if c is b else ''}")]
    tb, tc = FU.beam_tensors(b), FU.beam_tensors(c)
    if set(tb) != set(tc):
        return fails + [(f"C15|{bt}.clone|fields", f"{sorted(tc)} vs {sorted(tb)}")]
    for k in tb:
        # ---- equal values, same dtype (float64 must be kept)
        if tb[k].dtype != tc[k].dtype:
            fails.append((f"C15|{bt}.clone|{k}|dtype", f"{k}: {tb[k].dtype} -> {tc[k].dtype}"))
        elif not FU.tensor_equal(tb[k], tc[k]):
            fails.append((f"C15|{bt}.clone|{k}|value", f"{k}: {FU._short(tb[k].tolist())} vs {FU._short(tc[k].tolist())}"))
    # ---- no shared storage
    po, pc = FU.storage_ptrs(b), FU.storage_ptrs(c)
    inv = {v: k for k, v in po.items()}
    for k, v in pc.items():
        if v in inv:
            fails.append((f"C15|{bt}.clone|{k}|shared-storage", f"clone.{k} shares its storage with original.{inv[v]}"))
    # ---- behaves identically: derived quantities and tracking through a quadrupole
    q = cheetah.Quadrupole(length=torch.tensor(0.3, dtype=dtype), k1=torch.tensor(2.0, dtype=dtype))
    o1, e1 = FU.safe_track(q, b)
    o2, e2 = FU.safe_track(q, c)
    if e1 != e2 or (o1 is not None and FU.beams_differ(o1, o2, rtol=0.0)):
        fails.append((f"C15|{bt}.clone|track", f"Quadrupole tracks the clone differently: {e1} {e2} {o1 is not None and FU.beams_differ(o1, o2, rtol=0.0)}"))
    # ---- modifying either afterwards does not affect the other
    for direction in ("clone->original", "original->clone"):
        for kind in ("inplace", "assign"):
            b2 = make_case_beam(case)
            c2 = b2.clone()
            victim, actor = (b2, c2) if direction == "clone->original" else (c2, b2)
            snap = FU.Snapshot(victim)
            for k, t in list(FU.beam_tensors(actor).items()):
                if kind == "inplace":
                    t *= 1.5
                    t += 1e-3
                else:
                    setattr(actor, k, torch.full_like(t, 0.125))
            dd = snap.diff(victim)
            if dd:
                fails.append((f"C15|{bt}.clone|{dd[0]}|not-independent",
                              f"{kind} modification of the {direction.split('->')[0]} changed the {direction.split('->')[1]}: {dd[2]}"))
    return fails


# ------------------------------------------------------------------------------------------------
# generation, shrinking, reporting
# ------------------------------------------------------------------------------------------------
def gen_element_case(rng, cls: Optional[str] = None) -> dict:
    dtype = "float64" if rng.random() < 0.6 else "float32"
    if cls is not None:
        rec = FU.gen_full(rng, cls, f"{cls[:4].lower()}_0", p_set=1.0 if rng.random() < 0.6 else 0.5,
                          vector=3 if rng.random() < 0.3 else None)
        _tame(rng, rec)
    else:
        n = int(rng.integers(1, 7))
        recs = []
        for j in range(n):
            c = FU.LEAF_CLASSES[int(rng.integers(len(FU.LEAF_CLASSES)))]
            r = FU.gen_full(rng, c, f"{c[:4].lower()}_{j}", p_set=1.0 if rng.random() < 0.5 else 0.5,
                            vector=3 if rng.random() < 0.2 else None)
            _tame(rng, r)
            recs.append(r)
        rec = {"cls": "Segment", "name": "root", "elements": FU.nest_full(rng, recs, p=float(FU.pick(rng, 0.0, 0.3, 0.5)))}
    case = {"kind": "element", "record": rec, "dtype": dtype, "energy": float(np.exp(rng.uniform(np.log(2e7), np.log(2e9)))),
            "particles": FU.gen_particles(rng, 12).tolist()}
    if rng.random() < 0.35:
        # some settings (flags, methods, step counts, scalar strengths) are re-assigned after construction, before cloning
        ret = {}
        for lf in ([rec] if rec["cls"] != "Segment" else FU.leaves(rec["elements"])):
            r2 = FU.gen_full(rng, lf["cls"], lf["name"], p_set=1.0)
            _tame(rng, r2)
            keep = {p: v for p, v in r2["args"].items()
                    if v is not None and (not isinstance(v, list) or (p == "misalignment" and len(v) == 2 and not isinstance(v[0], list)))
                    and p not in ("name", "dtype", "device") and rng.random() < 0.5}
            if lf["cls"] in ("Dipole", "RBend", "TransverseDeflectingCavity"):
                keep.pop("tracking_method", None)      # (kept valid: these classes track with one method only / known findings)
            if keep:
                ret[lf["name"]] = keep
        if ret:
            case["retune"] = ret
    return case


def _tame(rng, r) -> None:
    if r["cls"] == "TransverseDeflectingCavity" and rng.random() < 0.7:
        r["args"].pop("tracking_method", None)
    if r["cls"] in ("Dipole", "RBend") and r["args"].get("tracking_method") == "bmadx" and rng.random() < 0.5:
        r["args"]["tracking_method"] = "cheetah"
    if r["cls"] == "Aperture" and rng.random() < 0.3:
        r["args"][FU.pick(rng, "x_max", "y_max")] = float("inf")


def gen_beam_case(rng) -> dict:
    n = int(FU.pick(rng, 1, 5, 12))
    return {"kind": "beam", "beam": FU.pick(rng, "ParticleBeam", "ParameterBeam"), "dtype": FU.pick(rng, "float64", "float32"),
            "batch": int(FU.pick(rng, 0, 0, 2, 3)), "energy": float(np.exp(rng.uniform(np.log(2e7), np.log(2e9)))),
            "particles": FU.gen_particles(rng, n).tolist(), "survival": [float(x) for x in rng.choice([0.0, 0.5, 1.0], size=n)],
            "asym": bool(rng.random() < 0.4)}


def case_key(case) -> tuple:
    if case["kind"] == "beam":
        return ("beam", case["beam"], case["dtype"], case["batch"], len(case["particles"]), bool(case.get("asym")) and case["beam"] == "ParameterBeam")

    def k(r):
        if r["cls"] == "Segment":
            return ("[",) + tuple(k(x) for x in r["elements"]) + ("]",)
        return (r["cls"], tuple(sorted(r["args"])), tuple(sorted(p for p, v in r["args"].items()
                                                                 if FU.is_batched(r["cls"], p, v))))
    return (case["dtype"], k(case["record"]))


def shrink_case(case: dict, sig: str) -> dict:
    fam = family(sig)

    def fails_with(c):
        try:
            return any(family(s) == fam for s, _ in check_case(c, only=fam))
        except Rejected:
            return False
    cur = case
    rec = case["record"]
    if rec["cls"] == "Segment":
        # a single bare leaf, then a one-leaf segment, then a smaller tree
        for r in FU.leaves(rec["elements"]):
            c = dict(case, record=r)
            if fails_with(c):
                cur = c
                break
        else:
            small = FU.shrink_tree(rec["elements"], lambda rs: fails_with(dict(case, record=dict(rec, elements=rs))), max_steps=60)
            cur = dict(case, record=dict(rec, elements=small))
    cur = copy.deepcopy(cur)
    for leaf in _leaf_recs(cur["record"]):
        sigp = inspect.signature(getattr(cheetah, leaf["cls"]).__init__).parameters
        for p in list(leaf["args"]):
            saved = leaf["args"][p]
            if p in sigp and sigp[p].default is not inspect.Parameter.empty:
                del leaf["args"][p]
                if fails_with(cur):
                    continue
                leaf["args"][p] = saved
            if FU.is_batched(leaf["cls"], p, saved):
                leaf["args"][p] = saved[0]
                if fails_with(cur):
                    continue
                leaf["args"][p] = saved
    return cur


def examine(rep, case: dict, do_shrink: bool = True) -> None:
    if case["kind"] == "beam":
        for sig, what in check_beam(case):
            rep.fail("falsifier", sig, what + f"  [{case['beam']} {case['dtype']} batch={case['batch']}]", case)
        return
    try:
        fl = check_case(case)
    except Rejected as ex:
        rep.count(f"case-rejected:{ex}")
        return
    # a lost / changed attribute explains a difference in tracking
    if any(s.split("|")[-1] in ("value", "dtype", "missing", "structure") or "exception" in s for s, _ in fl):
        fl = [(s, w) for s, w in fl if "|track|" not in s]
    # shared storage explains that a modification of one object shows up in the other
    if any(s.endswith("|shared-storage") for s, _ in fl):
        fl = [(s, w) for s, w in fl if not s.endswith("|not-independent") and "|track-after-mutation|" not in s]
    seen = set()
    for sig, what in fl:
        if family(sig) in seen:
            continue
        seen.add(family(sig))
        if any(f.signature == sig for f in rep.failures):
            rep.fail("falsifier", sig, what, {})
            continue
        small, what2 = case, what
        if do_shrink:
            cand = shrink_case(case, sig)
            try:
                again = check_case(cand, only=family(sig))
            except Rejected:
                again = []
            if again:
                small, (sig, what2) = cand, again[0]
        r = small["record"]
        rep.fail("falsifier", sig, f"{what2}  [{small['dtype']} {r['cls'] if r['cls'] != 'Segment' else 'Segment(' + FU.shape_str(r['elements']) + ')'}]", small)


def run(ctx) -> None:
    rep, rng = ctx.report, ctx.rng
    torch.set_num_threads(1)      # tiny tensors: threads only cost (and the machine may be shared)
    for cls in FU.LEAF_CLASSES:
        unk = FU.unknown_params(cls)
        if unk:
            rep.notes.append(f"{cls}: constructor parameters without a generator (compared at their defaults): {unk}")
    rounds, n_lat, n_beam = ctx.n(12, 200), ctx.n(140, 4000), ctx.n(60, 1000)
    cases = [gen_element_case(rng, cls) for _ in range(rounds) for cls in FU.LEAF_CLASSES]
    cases += [gen_element_case(rng) for _ in range(n_lat)]
    cases += [gen_beam_case(rng) for _ in range(n_beam)]
    for i, case in enumerate(cases):
        rep.fals_cases += 1
        if case["kind"] == "beam":
            rep.count(f"beam:{case['beam']}:{case['dtype']}")
            rep.case(case_key(case), {"beam": case["beam"], "dtype": case["dtype"], "batch": case["batch"]} if i % 20 == 0 else None)
        else:
            r = case["record"]
            for leaf in _leaf_recs(r):
                rep.count(leaf["cls"])
            rep.count("dtype:" + case["dtype"])
            rep.count("segment" if r["cls"] == "Segment" else "bare element")
            rep.case(case_key(case), {"object": r["cls"] if r["cls"] != "Segment" else FU.shape_str(r["elements"]),
                                      "dtype": case["dtype"]} if i % 20 == 0 else None)
        examine(rep, case)


def corpus_case(ctx, r: dict) -> None:
    if r.get("kind") in ("element", "beam"):
        torch.set_num_threads(1)
        ctx.report.fals_cases += 1
        examine(ctx.report, r, do_shrink=False)
