"""C19 falsifier — space-charge kicks change momenta only and scale with charge and length.

Every check is a relation between runs of the real `cheetah.SpaceChargeKick.track` (float64 beams) or a comparison
with closed-form physics:

  relations case  (one random bunch, 9 runs)
    R1  positions x, y, tau, the constant 7th coordinate, particle charges, survival probabilities, reference energy
        are unchanged (x, y, charges, survival, energy: bit-exact; tau: 1e-12 relative, it makes a round trip
        tau -> -beta*tau -> tau)
    R2  zero charge -> no kick
    R3  kick(2Q) = 2 kick(Q)           (px, py: equality; delta: second-order bound, see `delta_bound`)
    R4  kick(2L) = 2 kick(L)           (same)
    R5  particles stored in another order get the same kicks
    R6  lost particles (survival 0) are no sources: moving them far away / giving them 1e6 x the charge / deleting
        them does not change the kick of the others
    R7  like charges repel: per axis, sum_i q_i s_i dp_i (r_i - <r>) > 0  (virial of a repulsive pair force; only for
        bunches whose centre is within 0.1 sigma of the origin: the grid is centred on the origin, not on the bunch,
        see the finding "bunch centre off the origin")
  vector case     a vectorised beam (particles and/or energies and/or charges carry a vector dimension) gets,
                  sample by sample, the kick of the unvectorised beam; R1; R3
  sphere case     uniformly filled sphere in the rest frame (Halton points, lab frame: contracted by gamma along tau):
                  the fitted linear field inside r < R/2 equals  F_perp = e Q r/(4 pi eps0 R^3 gamma),
                  F_z = e Q gamma z/(4 pi eps0 R^3) on each axis, tolerance 5 % + 0.6 (h/R)^2 (h = largest cell size in
                  rest-frame units: CIC + central differences are second order; measured on the clean tree: <= 2 % for
                  >= 12 points per axis). Also with the sphere's centre displaced from the origin by 3, 5 or 10 R
                  along one axis (the field of a bunch does not depend on where the bunch is).
  veclength case  a vectorised `effect_length` with an unvectorised beam gives kicks proportional to each length

"kick" always means  out(Q) - out(Q=0)  so that the float32-constant round-trip error of
`to_xyz_pxpypz`/`from_xyz_pxpypz` (a C12 dtype defect of the pinned tree: delta changes by ~3.5e-9 even for zero charge;
5e-16 once speed_of_light / electron_mass are Python floats) cancels.  All tolerances hold on both trees.
"""
from __future__ import annotations

from typing import Optional

import math

import numpy as np
import torch

import cheetah
import elements as E
from scipy import constants as _sc
from scipy.stats import qmc

F64 = torch.float64
MC2 = E.MC2

META = {
    "rule": "relations case = random bunch (correlated gaussian / uniform ball / two blobs / hollow shell; centred, "
            "mildly or far off axis; 50..500 particles; equal or random charges incl. exact zeros; survival 1, 0 or "
            "fractional) x energy 2 MeV..20 GeV x bunch charge scaled so that the largest kick is 1e-8..1e-4 x effect "
            "length x non-cubic grid (8..16 points per axis) x grid extents 2.5..5 sigma; vector case = 2..3 samples "
            "with the vector dimension on particles/energies/charges; sphere case = Halton-filled sphere (3000..6000 "
            "points) x gamma 1.6..400 x grid 12..24 per axis x extents 3..5 sigma x centre on/off the origin; distinct = "
            "distinct (kind, distribution, grid, extents, offset class, charge pattern, survival pattern, vector form)",
    "assumptions": [
        "kick := out(Q) - out(Q=0): removes the float32-constant round trip of to/from_xyz_pxpypz (C12 defect, measured "
        "|d delta| = 3.4e-9..3.6e-9 at zero charge for 2 MeV..20 GeV on the pinned tree, 6e-16 after repo commit e0479d7; px, py: "
        "<= 2.8e-19; tau: <= 2.8e-20)",
        "R1 positions: x, y bit-exact, tau 1e-12 relative to max|tau| (measured: 1 ulp)",
        "R2 zero charge: |d px|,|d py| <= 1e-12*max|p_in| (measured 1e-15 relative); |d delta| <= 1e-6 absolute (280 x the "
        "C12 round-trip defect) and additionally equal (1e-12) to from_xyz_pxpypz(to_xyz_pxpypz(beam))",
        "R3-R6, vector: px, py (and delta where equality is exact) within 1e-9*max|kick| + 1e-12*max|p_in| "
        "(measured <= 1e-13 relative to the kick)",
        "delta under 2Q / 2L: 0 <= delta(2)-2 delta(1)+delta(0) <= |kappa|^2/(g_min beta0 gamma0) with kappa = SI kick / mc "
        "(convexity of gamma(p)); accepted band [-floor, 1.5*bound + floor], floor = 1e-13 + 1e-9*|kick| (measured round-off "
        "1e-15); applied to particles whose kicks are < 0.1 of the reference momentum (no reversal of pz)",
        "sphere: relative error of the fitted field gradient per axis <= 0.05 + 0.6*(h/R)^2 (worst of 1000 clean cases: 0.33 x tolerance)",
        "charges are non-negative (Cheetah's convention: converters take abs(q)); kicks are kept perturbative (<= 1e-4)",
    ],
}

SIG = "C19|SpaceChargeKick|"


# ------------------------------------------------------------------------------------------------
# running the real code
# ------------------------------------------------------------------------------------------------
def make_kick(L, grid, ext):
    return cheetah.SpaceChargeKick(effect_length=torch.tensor(L, dtype=F64), num_grid_points_x=int(grid[0]),
                                   num_grid_points_y=int(grid[1]), num_grid_points_tau=int(grid[2]),
                                   grid_extend_x=float(ext[0]), grid_extend_y=float(ext[1]),
                                   grid_extend_tau=float(ext[2]), dtype=F64)


def make_beam(P, En, q, s):
    return cheetah.ParticleBeam(torch.tensor(np.asarray(P, dtype=float), dtype=F64),
                                torch.tensor(np.asarray(En, dtype=float), dtype=F64),
                                particle_charges=torch.tensor(np.asarray(q, dtype=float), dtype=F64),
                                survival_probabilities=torch.tensor(np.asarray(s, dtype=float), dtype=F64), dtype=F64)


def track(P, En, q, s, L, grid, ext):
    """returns (incoming beam, outgoing beam)"""
    b = make_beam(P, En, q, s)
    return b, make_kick(L, grid, ext).track(b)


def parts(beam) -> np.ndarray:
    return beam.particles.detach().numpy().astype(float)


# ------------------------------------------------------------------------------------------------
# the second-order bound for delta
# ------------------------------------------------------------------------------------------------
def u_vectors(X: np.ndarray, gamma0, beta0):
    """(px, py, delta) -> momentum / (m c) as (ux, uy, uz) and gamma of every particle (textbook conversion,
    independent of ParticleBeam.to_xyz_pxpypz)"""
    bg = beta0 * gamma0
    ux, uy = bg * X[..., 1], bg * X[..., 3]
    g = gamma0 * (1.0 + beta0 * X[..., 5])
    uz = np.sqrt(np.maximum(g * g - 1.0 - ux * ux - uy * uy, 0.0))
    return np.stack([ux, uy, uz], axis=-1), g


def delta_bound(o0, o1, o2, gamma0, beta0):
    """SI momentum of a particle in run s (s = 0, 1, 2 times the charge or length) is p + s k, exactly linear.
    delta(s) = (g(s) - gamma0)/(beta0 gamma0), g(s) = sqrt(1 + |u + s kappa|^2), u = p/mc, kappa = k/mc.
    g''(s) = (|kappa|^2 - g'(s)^2)/g(s)  in [0, |kappa|^2/g(s)], hence the second difference
        D = delta(2) - 2 delta(1) + delta(0) = g''(xi)/(beta0 gamma0)   lies in  [0, |kappa|^2/(g_min beta0 gamma0)],
    g_min >= max(1, min(g(0), g(2)) - |kappa|)  because g is 1-Lipschitz in u.
    Returns (D, bound) per particle; kappa is estimated from runs 0 and 1."""
    u0, g0 = u_vectors(o0, gamma0, beta0)
    u1, _ = u_vectors(o1, gamma0, beta0)
    _, g2 = u_vectors(o2, gamma0, beta0)
    kap2 = np.sum((u1 - u0) ** 2, axis=-1)
    gmin = np.maximum(1.0, np.minimum(g0, g2) - np.sqrt(kap2))
    bound = kap2 / (gmin * beta0 * gamma0)
    D = o2[..., 5] - 2.0 * o1[..., 5] + o0[..., 5]
    return D, bound


def gamma_beta(En):
    g = np.asarray(En, dtype=float) / MC2
    return g, np.sqrt(1.0 - 1.0 / (g * g))


COORD = {0: "x", 1: "px", 2: "y", 3: "py", 4: "tau", 5: "delta"}


def worst(arr) -> float:
    a = np.abs(np.asarray(arr, dtype=float))
    if a.size == 0:
        return 0.0
    return float("inf") if not np.all(np.isfinite(a)) else float(a.max())


def compare_kicks(fails, clause, what, a, b, kscale, pscale, cols=(1, 3, 5)):
    """a, b: particle arrays that must agree in the given columns within 1e-9*kick + 1e-12*|p|"""
    tol = 1e-9 * kscale + 1e-12 * pscale
    if kscale < 1e-8 * pscale:
        # the kick itself is numerically zero (e.g. the bunch lies outside the origin-centred grid: what remains is the
        # round-off noise of the FFT solve, which depends on the summation order)
        tol = max(tol, 10.0 * kscale)
    for c in cols:
        err = worst(a[..., c] - b[..., c])
        if not err <= tol:
            fails.append((SIG + clause + "|" + COORD[c],
                          f"{what}: {COORD[c]} differs by {err:.3e} (largest kick {kscale:.3e}, tolerance {tol:.1e})"))


def linearity(fails, clause, what, pin, o0, o1, o2, gamma0, beta0, pscale):
    """o1, o2: outputs for 1x and 2x the charge (or length), o0: for zero charge"""
    k1, k2 = o1 - o0, o2 - o0
    kscale = max(worst(k1[..., 1]), worst(k1[..., 3]))
    tol = 1e-9 * kscale + 1e-12 * pscale
    for c in (1, 3):
        err = worst(k2[..., c] - 2.0 * k1[..., c])
        if not err <= tol:
            fails.append((SIG + clause + "|" + COORD[c],
                          f"{what}: kick(2)-2 kick(1) in {COORD[c]} = {err:.3e}, largest kick {kscale:.3e}, tolerance {tol:.1e}"))
    D, bound = delta_bound(o0, o1, o2, gamma0, beta0)
    floor = 1e-13 + 1e-9 * np.abs(k1[..., 5])
    # the beam coordinates (px, py, delta) do not record the sign of pz: the bound needs kicks that cannot reverse a
    # particle (all kicks of both runs <= 0.1 of the reference momentum; the generators stay below 1e-3)
    pert = np.all(np.abs(k1[..., [1, 3, 5]]) <= 0.1, axis=-1) & np.all(np.abs(k2[..., [1, 3, 5]]) <= 0.1, axis=-1)
    bad = pert & ~((D >= -floor) & (D <= 1.5 * bound + floor))
    if np.any(bad) or not np.all(np.isfinite(D)):
        i = int(np.argmax(np.where(np.isfinite(D), np.where(pert, np.abs(D) - 1.5 * bound, -np.inf), np.inf)))
        Df, bf = np.ravel(D)[i], np.ravel(bound)[i]
        fails.append((SIG + clause + "|delta",
                      f"{what}: delta(2)-2 delta(1)+delta(0) = {Df:.3e} outside [0, {bf:.3e}] (second-order bound), "
                      f"delta kick {worst(k1[..., 5]):.3e}"))


# ------------------------------------------------------------------------------------------------
# relations case
# ------------------------------------------------------------------------------------------------
def lost_variant(P, q, k):
    """the first k particles (lost ones): odd ones are moved far off the grid, all get 1e6 x the charge"""
    P2, q2 = P.copy(), q.copy()
    far = np.array([0.05, -0.02, 0.01])
    for i in range(k):
        if i % 2 == 0:
            P2[i, [0, 2, 4]] += far * (1 + i)
        q2[i] = (q2[i] if q2[i] != 0 else 1e-15) * 1e6
    return P2, q2


def check_relations(c: dict) -> list:
    fails: list = []
    P = np.array(c["particles"], dtype=float)
    q = np.array(c["charges"], dtype=float)
    s = np.array(c["survival"], dtype=float)
    En, L, grid, ext = float(c["energy"]), float(c["L"]), c["grid"], c["ext"]
    n = P.shape[0]
    gamma0, beta0 = gamma_beta(En)
    pscale = max(worst(P[:, 1]), worst(P[:, 3]), 1e-6)

    b, o = track(P, En, q, s, L, grid, ext)
    o1 = parts(o)
    pin = parts(b)
    if o1.shape != pin.shape or not np.all(np.isfinite(o1)):
        fails.append((SIG + "output finite and of the same shape|particles",
                      f"outgoing particles have shape {o1.shape} (in: {pin.shape}) / non-finite entries"))
        return fails
    # R1: positions (x, y, tau), charges, survival probabilities and the reference energy are unchanged
    for col, tol in ((0, 0.0), (2, 0.0), (4, 1e-12 * max(worst(pin[:, 4]), 1e-9)), (6, 0.0)):
        err = worst(o1[:, col] - pin[:, col])
        if not err <= tol:
            fails.append((SIG + "positions unchanged|" + COORD.get(col, "7th coordinate"),
                          f"{COORD.get(col, '7th coordinate')} changed by {err:.3e} (tolerance {tol:.1e})"))
    for name, new, old in (("particle_charges", o.particle_charges, b.particle_charges),
                           ("survival_probabilities", o.survival_probabilities, b.survival_probabilities),
                           ("energy", o.energy, b.energy)):
        if new.shape != old.shape or new.dtype != old.dtype or not torch.equal(new, old):
            fails.append((SIG + "charges, survival and energy unchanged|" + name,
                          f"{name} changed: shape {tuple(new.shape)} dtype {new.dtype}, max diff "
                          f"{worst((new - old).numpy()) if new.shape == old.shape else float('nan'):.3e}"))
    if o.particles.dtype != F64:
        fails.append((SIG + "charges, survival and energy unchanged|dtype", f"outgoing particles are {o.particles.dtype}"))

    # R2: the momentum change vanishes for zero charge
    b0, o0b = track(P, En, q * 0.0, s, L, grid, ext)
    o0 = parts(o0b)
    d0 = o0 - pin
    for col, tol in ((1, 1e-12 * pscale), (3, 1e-12 * pscale), (5, 1e-6)):
        err = worst(d0[:, col])
        if not err <= tol:
            fails.append((SIG + "zero charge gives no kick|" + COORD[col],
                          f"bunch of zero charge: {COORD[col]} changed by {err:.3e} (tolerance {tol:.1e})"))
    try:
        rt = parts(cheetah.ParticleBeam.from_xyz_pxpypz(b0.to_xyz_pxpypz(), b0.energy, dtype=F64))
    except Exception:
        rt = None
    if rt is not None and rt.shape == o0.shape:
        err = worst(o0[:, 5] - rt[:, 5])
        if not err <= 1e-12:
            fails.append((SIG + "zero charge gives no kick|delta",
                          f"bunch of zero charge: delta differs by {err:.3e} from the bare coordinate round trip "
                          f"from_xyz_pxpypz(to_xyz_pxpypz(beam))"))
    k1 = o1 - o0
    kscale = max(worst(k1[:, 1]), worst(k1[:, 3]), worst(k1[:, 5]))

    # R3: proportional to the bunch charge
    o2 = parts(track(P, En, 2.0 * q, s, L, grid, ext)[1])
    linearity(fails, "proportional to charge", "2Q vs Q", pin, o0, o1, o2, gamma0, beta0, pscale)
    # R4: proportional to the effect length
    oL = parts(track(P, En, q, s, 2.0 * L, grid, ext)[1])
    linearity(fails, "proportional to effect length", "2L vs L", pin, o0, o1, oL, gamma0, beta0, pscale)

    # R5: independent of the storage order
    perm = np.random.default_rng(int(c["perm_seed"])).permutation(n)
    op = parts(track(P[perm], En, q[perm], s[perm], L, grid, ext)[1])
    compare_kicks(fails, "independent of particle order", "permuted storage order", op, o1[perm], kscale, pscale)

    # R6: lost particles are no sources
    k = int(c["n_lost"])
    if k > 0:
        s6 = s.copy()
        s6[:k] = 0.0
        oa = parts(track(P, En, q, s6, L, grid, ext)[1])
        ks6 = kscale
        P2, q2 = lost_variant(P, q, k)
        ob = parts(track(P2, En, q2, s6, L, grid, ext)[1])
        compare_kicks(fails, "lost particles are no sources", "lost particles moved away / charge x 1e6",
                      ob[k:], oa[k:], ks6, pscale)
        oc = parts(track(P[k:], En, q[k:], s6[k:], L, grid, ext)[1])
        compare_kicks(fails, "lost particles are no sources", "lost particles deleted from the beam",
                      oc, oa[k:], ks6, pscale)

    # R7: like charges repel (bunch centred on the grid origin)
    if c.get("centred"):
        w = q * s
        if w.sum() > 0:
            for col, pc, sign, nm in ((0, 1, 1.0, "x"), (2, 3, 1.0, "y"), (4, 5, -1.0, "tau")):
                r = sign * P[:, col]            # z = -beta tau: ahead = negative tau
                r = r - np.sum(w * r) / w.sum()
                virial = float(np.sum(w * k1[:, pc] * r))
                norm = float(np.sqrt(np.sum(w * k1[:, pc] ** 2) * np.sum(w * r ** 2)))
                if not (virial > 0.0 and np.isfinite(virial)):
                    fails.append((SIG + "like charges repel|" + nm,
                                  f"sum q dp (r - <r>) along {nm} = {virial:.3e} (normalised {virial / norm if norm else 0:.3f}), "
                                  f"expected > 0"))
    return fails


DISTS = ["gauss", "gauss", "gauss", "ball", "blobs", "shell"]


def gen_positions(rng, dist: str, n: int) -> np.ndarray:
    """(n,7) particles, not yet centred"""
    from lattices import gen_particles
    P = gen_particles(rng, n, offaxis=False)
    if dist == "gauss":
        return P
    sig = np.array([2e-4, 2e-4, 1e-4]) * np.exp(rng.uniform(-1, 1, 3))
    v = rng.normal(size=(n, 3))
    v /= np.linalg.norm(v, axis=1)[:, None]
    if dist == "ball":
        X = v * (rng.random(n) ** (1 / 3))[:, None]
    elif dist == "shell":
        X = v * (0.9 + 0.1 * rng.random(n))[:, None]
    else:  # two blobs
        X = 0.3 * rng.normal(size=(n, 3))
        X[: n // 3] += np.array([1.5, -1.0, 0.7])
        X[n // 3:] -= np.array([0.75, -0.5, 0.35])
    P[:, [0, 2, 4]] = X * sig
    return P


def gen_relations(rng) -> dict:
    dist = DISTS[int(rng.integers(len(DISTS)))]
    n = int(rng.integers(50, 501))
    P = gen_positions(rng, dist, n)
    s = np.ones(n)
    spat = E.pick(rng, "all", "all", "some-lost", "fractional")
    if spat == "some-lost":
        s[rng.random(n) < 0.1] = 0.0
    elif spat == "fractional":
        s = rng.uniform(0.2, 1.0, n)
        s[rng.random(n) < 0.05] = 0.0
    if s.sum() < 10:
        s[:] = 1.0
    n_lost = int(rng.integers(1, 7))
    w = s.copy()
    w[:n_lost] = 0.0    # the centring below also holds for the beam of R6
    # centre (survival weighted), then offset class
    sd = np.array([np.sqrt(np.sum(w * (P[:, c] - np.sum(w * P[:, c]) / w.sum()) ** 2) / w.sum()) for c in (0, 2, 4)])
    for c in range(6):
        P[:, c] -= np.sum(w * P[:, c]) / w.sum()
    off = E.pick(rng, "centred", "centred", "mild", "far")
    if off == "mild":
        P[:, [0, 2, 4]] += rng.uniform(-1.0, 1.0, 3) * sd
    elif off == "far":
        P[:, [0, 2, 4]] += rng.uniform(-6.0, 6.0, 3) * sd
    else:
        P[:, [0, 2, 4]] += rng.uniform(-0.1, 0.1, 3) * sd
    qpat = E.pick(rng, "equal", "random", "random+zeros")
    q = np.ones(n) if qpat == "equal" else rng.uniform(0.2, 1.8, n)
    if qpat == "random+zeros":
        q[rng.random(n) < 0.1] = 0.0
    q = q / q.sum()
    En = E.energy(rng)
    L = float(E.pick(rng, 0.1, 0.5, 1.0, 2.0, float(rng.uniform(0.05, 3.0))))
    grid = [int(E.pick(rng, 8, 10, 12, 16)) for _ in range(3)]
    ext = [float(E.pick(rng, 3.0, 3.0, 2.5, 4.0, 5.0)) for _ in range(3)]
    c = {"kind": "relations", "dist": dist, "offset": off, "centred": off == "centred", "charge_pattern": qpat,
         "survival_pattern": spat, "energy": En, "L": L, "grid": grid, "ext": ext, "particles": P.tolist(),
         "survival": s.tolist(), "n_lost": n_lost, "perm_seed": int(rng.integers(2 ** 31))}
    # bunch charge: scaled so that the largest kick is `target` (keeps delta's non-linearity tiny and the kick far
    # above round-off for every energy)
    target = float(10.0 ** rng.uniform(-8, -4))
    Q = 1e-12
    try:
        _, o = track(P, En, q * Q, s, L, grid, ext)
        _, o0 = track(P, En, q * 0.0, s, L, grid, ext)
        K0 = worst((parts(o) - parts(o0))[:, [1, 3, 5]])
        if np.isfinite(K0) and K0 > 0:
            Q = min(max(Q * target / K0, 1e-18), 1e-3)
    except Exception:
        pass
    c["Q"] = Q
    c["charges"] = (q * Q).tolist()
    return c


def shrink_relations(c: dict, sig: str, check=check_relations) -> dict:
    def still(cand):
        try:
            return any(s == sig for s, _ in check(cand))
        except Exception:
            return False
    cur = dict(c)

    def attempt(**changes):
        nonlocal cur
        cand = dict(cur, **changes)
        if still(cand):
            cur = cand
            return True
        return False
    while len(cur["particles"]) >= 40:
        m = len(cur["particles"]) // 2
        if not attempt(particles=cur["particles"][:m], charges=cur["charges"][:m], survival=cur["survival"][:m],
                       n_lost=min(cur["n_lost"], 2)):
            break
    n = len(cur["particles"])
    attempt(survival=[1.0] * n, survival_pattern="all")
    attempt(charges=[float(np.mean(cur["charges"]))] * n, charge_pattern="equal")
    attempt(grid=[8, 8, 8])
    attempt(ext=[3.0, 3.0, 3.0])
    attempt(L=1.0)
    attempt(n_lost=1)
    return cur


# ------------------------------------------------------------------------------------------------
# vector case
# ------------------------------------------------------------------------------------------------
def check_vector(c: dict) -> list:
    fails: list = []
    P = np.array(c["particles"], dtype=float)      # (B,n,7) or (n,7)
    q = np.array(c["charges"], dtype=float)        # (B,n) or (n,)
    s = np.array(c["survival"], dtype=float)
    En = np.array(c["energy"], dtype=float)        # (B,) or ()
    L, grid, ext = float(c["L"]), c["grid"], c["ext"]
    B = int(c["B"])
    n = P.shape[-2]
    full = (B, n, 7)
    b, o = track(P, En, q, s, L, grid, ext)
    ov = parts(o)
    if ov.shape != full or not np.all(np.isfinite(ov)):
        fails.append((SIG + "vectorised beam = per-sample beams|shape",
                      f"outgoing particles have shape {ov.shape}, expected {full} (or non-finite entries)"))
        return fails
    # R1 on the vectorised beam
    Pb = np.broadcast_to(P, full)
    for col, tol in ((0, 0.0), (2, 0.0), (4, 1e-12 * max(worst(Pb[..., 4]), 1e-9))):
        err = worst(ov[..., col] - Pb[..., col])
        if not err <= tol:
            fails.append((SIG + "positions unchanged|" + COORD[col], f"vectorised beam: {COORD[col]} changed by {err:.3e}"))
    for name, new, old in (("particle_charges", o.particle_charges, b.particle_charges),
                           ("survival_probabilities", o.survival_probabilities, b.survival_probabilities),
                           ("energy", o.energy, b.energy)):
        if new.shape != old.shape or not torch.equal(new, old):
            fails.append((SIG + "charges, survival and energy unchanged|" + name,
                          f"vectorised beam: {name} changed (shape {tuple(new.shape)} vs {tuple(old.shape)})"))
    o0 = parts(track(P, En, q * 0.0, s, L, grid, ext)[1])
    o2 = parts(track(P, En, q * 2.0, s, L, grid, ext)[1])
    pscale = max(worst(Pb[..., 1]), worst(Pb[..., 3]), 1e-6)
    qb, sb, Eb = np.broadcast_to(q, (B, n)), np.broadcast_to(s, (B, n)), np.broadcast_to(En, (B,))
    for i in range(B):
        oi = parts(track(Pb[i], Eb[i], qb[i], sb[i], L, grid, ext)[1])
        ki = oi - o0[i]
        kscale = max(worst(ki[:, 1]), worst(ki[:, 3]), worst(ki[:, 5]))
        compare_kicks(fails, "vectorised beam = per-sample beams", f"sample {i} of {B} ({c['vform']})", ov[i], oi, kscale, pscale)
        g0, b0 = gamma_beta(Eb[i])
        linearity(fails, "proportional to charge", f"vectorised beam, sample {i}: 2Q vs Q", Pb[i], o0[i], ov[i], o2[i],
                  g0, b0, pscale)
    return fails


def gen_vector(rng) -> dict:
    from lattices import gen_particles
    B = int(rng.integers(2, 4))
    n = int(rng.integers(50, 201))
    vform = E.pick(rng, "all", "all", "particles", "energy", "charges", "survival")
    if vform in ("all", "particles"):
        P = np.stack([gen_particles(rng, n, offaxis=False) for _ in range(B)])
        P[..., [0, 2, 4]] *= np.exp(rng.uniform(-1, 1, (B, 1, 3)))
    else:
        P = gen_particles(rng, n, offaxis=False)
    P = P - np.concatenate([P[..., :6].mean(axis=-2, keepdims=True), np.zeros(P.shape[:-2] + (1, 1))], axis=-1)
    En = np.array([E.energy(rng) for _ in range(B)]) if vform in ("all", "energy") else np.array(E.energy(rng))
    # kick ~ Q/gamma^2: scale each sample's charge so that all samples have visible, perturbative kicks
    g = np.broadcast_to(En, (B,)) / MC2
    Q = 1e-13 * g ** 2 * 10.0 ** rng.uniform(-1, 1)
    if vform in ("all", "charges"):
        q = rng.uniform(0.2, 1.8, (B, n))
        q = q / q.sum(axis=1, keepdims=True) * Q[:, None]
    else:
        q = np.full(n, float(Q.min()) / n)
    if vform in ("all", "survival"):
        s = np.ones((B, n))
        s[rng.random((B, n)) < 0.08] = 0.0
    else:
        s = np.ones(n)
    return {"kind": "vector", "vform": vform, "B": B, "energy": En.tolist(), "L": float(E.pick(rng, 0.5, 1.0, 2.0)),
            "grid": [int(E.pick(rng, 8, 10, 12)) for _ in range(3)], "ext": [float(E.pick(rng, 3.0, 3.0, 4.0)) for _ in range(3)],
            "particles": P.tolist(), "charges": q.tolist(), "survival": s.tolist()}


def shrink_vector(c: dict, sig: str) -> dict:
    def still(cand):
        try:
            return any(s == sig for s, _ in check_vector(cand))
        except Exception:
            return False
    cur = dict(c)
    # fewer particles
    while np.array(cur["particles"]).shape[-2] >= 40:
        P, q, s = np.array(cur["particles"]), np.array(cur["charges"]), np.array(cur["survival"])
        m = P.shape[-2] // 2
        cand = dict(cur, particles=P[..., :m, :].tolist(), charges=q[..., :m].tolist(), survival=s[..., :m].tolist())
        if still(cand):
            cur = cand
        else:
            break
    # fewer samples
    if cur["B"] > 2:
        def cut(a, nd):
            a = np.array(a)
            return a[:2].tolist() if a.ndim == nd else a.tolist()
        cand = dict(cur, B=2, particles=cut(cur["particles"], 3), charges=cut(cur["charges"], 2),
                    survival=cut(cur["survival"], 2), energy=cut(cur["energy"], 1))
        if still(cand):
            cur = cand
    for ch in ({"grid": [8, 8, 8]}, {"ext": [3.0, 3.0, 3.0]}, {"L": 1.0}):
        cand = dict(cur, **ch)
        if still(cand):
            cur = cand
    return cur


# ------------------------------------------------------------------------------------------------
# sphere case
# ------------------------------------------------------------------------------------------------
def sphere_particles(c: dict):
    """Halton-filled unit ball -> lab-frame bunch; returns (P, rest-frame coordinates relative to the centre / R)"""
    En, R = float(c["energy"]), float(c["R"])
    g, bt = gamma_beta(En)
    h = qmc.Halton(3, scramble=True, seed=int(c["halton_seed"]))
    pts = 2.0 * h.random(int(c["n"] * 2.3) + 64) - 1.0
    pts = pts[np.sum(pts ** 2, axis=1) < 1.0][: int(c["n"])]
    ctr = np.array(c["offset"], dtype=float)            # in units of R, rest frame (x, y, z')
    X = (pts + ctr) * R
    P = np.zeros((len(pts), 7))
    P[:, 6] = 1.0
    P[:, 0], P[:, 2] = X[:, 0], X[:, 1]
    P[:, 4] = -X[:, 2] / (g * bt)                       # z_lab = z'/gamma, tau = -z_lab/beta
    return P, pts


def check_sphere(c: dict) -> list:
    fails: list = []
    En, R, L, grid, ext, Q = float(c["energy"]), float(c["R"]), float(c["L"]), c["grid"], c["ext"], float(c["Q"])
    g, bt = gamma_beta(En)
    P, pts = sphere_particles(c)
    n = len(P)
    q, s = np.full(n, Q / n), np.ones(n)
    o1 = parts(track(P, En, q, s, L, grid, ext)[1])
    o0 = parts(track(P, En, q * 0.0, s, L, grid, ext)[1])
    k = o1 - o0
    p0c = math.sqrt(En ** 2 - MC2 ** 2)                               # eV
    kf = Q / (4.0 * math.pi * _sc.epsilon_0 * R ** 3)                 # V/m^2: rest-frame field gradient E' = kf r'
    # transverse: F = e E'_x / gamma (E_x = gamma E'_x, magnetic part cancels all but 1/gamma^2), dt = L/(beta c),
    #   d px = F dt / p0 = kf x L / (gamma beta p0c[eV])
    # longitudinal: E_z = E'_z = kf gamma z, energy gain e E_z L  ->  d delta = kf gamma z L / p0c[eV], z = -beta tau
    slope_perp = kf * L / (g * bt * p0c)
    slope_z = kf * g * L / p0c
    inner = np.sum(pts ** 2, axis=1) < 0.25
    sigma = R / math.sqrt(5.0)
    h_rel = max(2.0 * ext[i] * sigma / grid[i] for i in range(3)) / R
    tol = 0.05 + 0.6 * h_rel ** 2
    off_axis = any(abs(v) > 0 for v in c["offset"])
    res = {}
    for nm, col, r, sl in (("x", 1, pts[:, 0] * R, slope_perp), ("y", 3, pts[:, 1] * R, slope_perp),
                           ("z", 5, pts[:, 2] * R / g, slope_z)):
        fit = float(np.sum(k[inner, col] * r[inner]) / np.sum(r[inner] ** 2))
        res[nm] = fit / sl
    bad = [nm for nm in res if not abs(res[nm] - 1.0) <= tol]
    if bad:
        ratios = ", ".join(f"{nm}: {res[nm]:.4f}" for nm in res)
        if off_axis:
            fails.append((SIG + "uniform sphere|bunch centre off the origin|field",
                          f"sphere centred at {c['offset']} R (gamma={g:.2f}, grid {grid}, extents {ext}): fitted field "
                          f"gradient / analytic = {ratios}; expected 1 +- {tol:.3f} (the field must not depend on where "
                          f"the bunch is)"))
        else:
            for nm in bad:
                fails.append((SIG + "uniform sphere|bunch centred|field " + nm,
                              f"centred sphere (gamma={g:.2f}, R={R:.3e}, grid {grid}, extents {ext}): fitted field "
                              f"gradient / analytic = {ratios}; expected 1 +- {tol:.3f}"))
    return fails


def gen_sphere(rng, energy: Optional[float] = None) -> dict:
    En = float(np.exp(rng.uniform(np.log(0.8e6), np.log(2e8)))) if energy is None else float(energy)
    while True:
        grid = [int(rng.integers(12, 25)) for _ in range(3)]
        ext = [float(E.pick(rng, 3.0, 3.0, 3.5, 4.0, 5.0)) for _ in range(3)]
        # the grid nodes span [-ext*sigma, ext*sigma*(1-2/N)]: the sphere (radius sqrt(5) sigma = 2.236 sigma) and a
        # centring error of 0.1 sigma must fit
        if all(ext[i] * (1.0 - 2.0 / grid[i]) >= 2.45 for i in range(3)):
            break
    g, bt = gamma_beta(En)
    R = float(10.0 ** rng.uniform(-4.3, -2.7))
    L = float(E.pick(rng, 0.3, 0.7, 1.0, 2.0))
    offc = E.pick(rng, "none", "none", "none", "far")
    offset = [0.0, 0.0, 0.0]
    if offc == "far" and energy is None:
        offset[int(rng.integers(3))] = float(E.pick(rng, 3.0, -5.0, 10.0))
    p0c = math.sqrt(En ** 2 - MC2 ** 2)
    # charge for a largest transverse kick of 1e-7
    Q = 1e-7 * 4.0 * math.pi * _sc.epsilon_0 * R ** 2 * g * bt * p0c / L
    return {"kind": "sphere", "energy": En, "R": R, "n": int(E.pick(rng, 3000, 4000, 6000)), "L": L, "grid": grid, "ext": ext,
            "halton_seed": int(rng.integers(2 ** 31)), "offset": offset, "Q": Q}


def shrink_sphere(c: dict, sig: str) -> dict:
    cur = dict(c)
    for ch in ({"grid": [16, 16, 16]}, {"ext": [3.0, 3.0, 3.0]}, {"L": 1.0}, {"R": 1e-3}, {"n": 2000},
               {"offset": [float(np.sign(v)) * 3.0 if v else 0.0 for v in c["offset"]]}):
        cand = dict(cur, **ch)
        if cand["R"] != cur["R"]:
            cand["Q"] = cur["Q"] * (cand["R"] / cur["R"]) ** 2
        if cand["L"] != cur["L"]:
            cand["Q"] = cand["Q"] * cur["L"] / cand["L"]
        try:
            if any(s == sig for s, _ in check_sphere(cand)):
                cur = cand
        except Exception:
            pass
    return cur


# ------------------------------------------------------------------------------------------------
# vectorised effect length, unvectorised beam
# ------------------------------------------------------------------------------------------------
def check_veclength(c: dict) -> list:
    fails: list = []
    P, q, s = np.array(c["particles"]), np.array(c["charges"]), np.array(c["survival"])
    En, grid, ext, Ls = float(c["energy"]), c["grid"], c["ext"], [float(x) for x in c["lengths"]]
    b = make_beam(P, En, q, s)
    el = cheetah.SpaceChargeKick(effect_length=torch.tensor(Ls, dtype=F64), num_grid_points_x=grid[0],
                                 num_grid_points_y=grid[1], num_grid_points_tau=grid[2], grid_extend_x=ext[0],
                                 grid_extend_y=ext[1], grid_extend_tau=ext[2], dtype=F64)
    try:
        ov = parts(el.track(b))
    except Exception as ex:
        fails.append((SIG + "proportional to effect length|vectorised effect_length, unvectorised beam|exception " + type(ex).__name__,
                      f"effect_length of shape ({len(Ls)},) with an unvectorised beam raises {type(ex).__name__}: {str(ex)[:160]}"))
        return fails
    if ov.shape != (len(Ls),) + P.shape:
        fails.append((SIG + "proportional to effect length|vectorised effect_length, unvectorised beam|shape",
                      f"outgoing particles have shape {ov.shape}, expected {(len(Ls),) + P.shape}"))
        return fails
    pscale = max(worst(P[:, 1]), worst(P[:, 3]), 1e-6)
    for i, Li in enumerate(Ls):
        oi = parts(track(P, En, q, s, Li, grid, ext)[1])
        ks = worst((oi - P)[:, [1, 3]])
        compare_kicks(fails, "proportional to effect length|vectorised effect_length, unvectorised beam", f"length {i}",
                      ov[i], oi, ks, pscale)
    return fails


def gen_veclength(rng) -> dict:
    from lattices import gen_particles
    n = 60
    P = gen_particles(rng, n, offaxis=False)
    P[:, :6] -= P[:, :6].mean(axis=0)
    En = E.energy(rng)
    return {"kind": "veclength", "energy": En, "grid": [8, 8, 8], "ext": [3.0, 3.0, 3.0],
            "lengths": [0.5, 1.0, 2.0][: int(rng.integers(2, 4))], "particles": P.tolist(),
            "charges": np.full(n, 1e-13 * (En / MC2) ** 2 / n).tolist(), "survival": [1.0] * n}


# ------------------------------------------------------------------------------------------------
CHECK = {"relations": check_relations, "vector": check_vector, "sphere": check_sphere, "veclength": check_veclength}
SHRINK = {"relations": shrink_relations, "vector": shrink_vector, "sphere": shrink_sphere}


def case_key(c: dict) -> tuple:
    k = c["kind"]
    if k == "relations":
        return (k, c["dist"], c["offset"], c["charge_pattern"], c["survival_pattern"], tuple(c["grid"]), tuple(c["ext"]))
    if k == "vector":
        return (k, c["vform"], c["B"], tuple(c["grid"]), tuple(c["ext"]))
    if k == "sphere":
        return (k, tuple(c["grid"]), tuple(c["ext"]), tuple(c["offset"]))
    return (k, len(c["lengths"]))


def sample_of(c: dict) -> dict:
    return {k: v for k, v in c.items() if k not in ("particles", "charges", "survival")}


def examine(rep, c: dict, do_shrink: bool = True) -> None:
    kind = c["kind"]
    try:
        fails = CHECK[kind](c)
    except Exception as ex:
        fails = [(SIG + kind + " case|exception " + type(ex).__name__, f"{kind} case raised {type(ex).__name__}: {str(ex)[:200]}")]
    done = set()
    for sig, what in fails:
        if sig in done:
            continue
        done.add(sig)
        if any(f.signature == sig for f in rep.failures):   # already reported (and shrunk): only count it
            rep.fail("falsifier", sig, what, {})
            continue
        small = c
        if do_shrink and kind in SHRINK and "exception" not in sig:
            try:
                small = SHRINK[kind](c, sig)
                what = dict(CHECK[kind](small)).get(sig, what)
            except Exception:
                small = c
        rep.fail("falsifier", sig, what, dict(small))


def run(ctx) -> None:
    # one thread: the grids are tiny, and intra-op threading costs a factor 50..200 on a loaded machine
    nthreads = torch.get_num_threads()
    torch.set_num_threads(1)
    try:
        _run(ctx)
    finally:
        torch.set_num_threads(nthreads)


def _run(ctx) -> None:
    rep, rng = ctx.report, ctx.rng
    plan = ([("relations", gen_relations)] * ctx.n(100, 2500) + [("vector", gen_vector)] * ctx.n(25, 500)
            + [("sphere", gen_sphere)] * ctx.n(30, 500) + [("veclength", gen_veclength)] * ctx.n(2, 6))
    n_sphere = 0
    for kind, gen in plan:
        c = gen(rng)
        if kind == "sphere":
            # the first spheres are mildly relativistic and centred in every run (gamma 1.6, 2, 2.5: factors of beta
            # are visible there, at 100 MeV they are not)
            if n_sphere < 3:
                c = gen_sphere(rng, energy=(0.8e6, 1.0e6, 1.3e6)[n_sphere])
            n_sphere += 1
        rep.fals_cases += 1
        rep.count("kind:" + kind)
        if kind == "relations":
            rep.count("dist:" + c["dist"])
            rep.count("offset:" + c["offset"])
            rep.count("survival:" + c["survival_pattern"])
        elif kind == "vector":
            rep.count("vform:" + c["vform"])
        elif kind == "sphere":
            rep.count("sphere:" + ("centred" if not any(c["offset"]) else "off-origin"))
        rep.case(case_key(c), sample_of(c))
        examine(rep, c)


def corpus_case(ctx, r: dict) -> None:
    if r.get("kind") in CHECK:
        ctx.report.fals_cases += 1
        examine(ctx.report, r, do_shrink=False)
