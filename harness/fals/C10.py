"""C10 falsifier — energy, charge and particle survival are accounted for exactly.

A  lattices: element-by-element fold and Segment.track of random lattices (every element kind, both beam types):
   reference energy changes only in Cavity elements, by voltage*cos(phase); macro-particle number and charges never
   change; survival probabilities stay in [0,1] and never increase; everything downstream of an active blocking screen
   carries zero charge.
B  apertures: membership of every particle decided in exact rational arithmetic (fractions) from the float inputs.
C  statistics of a beam with lost particles vs numpy statistics of the surviving particles / the beam with the lost
   particles deleted.
"""
from __future__ import annotations

import os
from fractions import Fraction

import numpy as np
import torch

import cheetah
import elements as E
import lattices as LT

META = {
    "rule": "A: case = random nested lattice (<=8 leaves of every kind incl. Bmad-X, TDC, space charge, blocking screens, "
            "apertures) x beam type x incoming survival pattern; B: case = aperture (shape, active, half-sizes finite/"
            "infinite, scalar or vectorised) x particles placed inside / outside / at relative distance 1e-6..1e-1 of "
            "the edge on every side x incoming survival; C: case = particle set (correlated / far off-axis) x 0/1 "
            "survival pattern with >= 2 survivors (random, two survivors, one lost, produced by a real aperture; "
            "vectorised with a different pattern per sample); distinct = distinct (class sequence, beam type) / "
            "(shape, active, infinite pattern, vectorisation) / (pattern kind, beam variant)",
    "assumptions": [
        "energy: |E_out - (E_in + V cos(phase))| <= 1e-13*E per element (measured round-off 2.2e-16: Bmad-X elements "
        "convert energy -> p0c -> energy); lattices keep the running energy above 3 MeV",
        "aperture: particles are generated at relative distance >= 1e-6 from the edge (verified in exact arithmetic, "
        ">= 5e-7 after rounding); half-sizes > 0",
        "statistics: relative tolerance (1e-9 + 1e-12*max_i(|x_i|max/sigma_i)) on means (relative to sigma), sigmas and "
        "covariances; multiplied by 1/(1-r^2) (conditioning of the determinant) for emittance, beta, alpha",
        "particle charges and survival probabilities are compared bit-for-bit",
        "one report per element: its first violated clause (energy, particle number, charges, survival, total charge); "
        "statistics: a derived statistic (emittance, beta, alpha) is only reported when the moments it is built from "
        "are right, and a family (all six sigma_*, ...) that is wrong throughout is reported once",
        "all round-off tolerances keep >= 100x head-room on the clean tree (VERIF_TOL_SCALE=0.01 passes seeds 0..7)",
    ],
}

E_MIN = 3e6
# development knob: VERIF_TOL_SCALE=0.01 verifies the 100x head-room of every tolerance on the clean tree
TS = float(os.environ.get("VERIF_TOL_SCALE", "1"))
MIX = LT.DEFAULT_MIX + ["TransverseDeflectingCavity", "SpaceChargeKick", "BlockingScreen", "BlockingScreen",
                        "ActiveAperture", "ActiveAperture", "ActiveCavity", "OffCavity", "InactiveBlockingScreen"]
NONLINEAR_ONLY_PARTICLES = ("SpaceChargeKick", "TransverseDeflectingCavity")


def gen_record(rng, kind: str) -> dict:
    if kind == "BlockingScreen":
        return E.gen_params(rng, "Screen", force={"active": True, "blocking": True})
    if kind == "InactiveBlockingScreen":
        return E.gen_params(rng, "Screen", force={"active": False, "blocking": True})
    if kind == "ActiveCavity":
        p = E.gen_params(rng, "Cavity")
        if p["V"] == 0.0:
            p["V"] = float(E.pick(rng, 1e5, -2e6, 1e7))
        return p
    return LT.gen_record(rng, kind)


def label(r: dict) -> str:
    s = LT.class_seq([r])
    if r["cls"] == "Screen" and r.get("blocking"):
        s += "(blocking)"
    return s


def gain(r: dict) -> float:
    """oracle: reference-energy gain of one element"""
    if r["cls"] == "Cavity":
        return r["V"] * float(np.cos(np.deg2rad(r["phase"])))
    return 0.0


def gen_lattice(rng, En: float) -> list[dict]:
    n = int(rng.integers(1, 9))
    recs, e = [], En
    while len(recs) < n:
        r = gen_record(rng, MIX[int(rng.integers(len(MIX)))])
        if e + gain(r) < E_MIN:
            continue
        e += gain(r)
        r["name"] = f"el{len(recs)}"
        recs.append(r)
    return LT.nest(rng, recs, p=0.25)


def gen_survival(rng, n: int):
    kind = E.pick(rng, "ones", "ones", "some-lost", "fractional")
    if kind == "ones":
        return kind, np.ones(n)
    if kind == "some-lost":
        return kind, (rng.random(n) < 0.7).astype(float)
    s = rng.random(n)
    s[rng.random(n) < 0.2] = 0.0
    s[rng.random(n) < 0.2] = 1.0
    return kind, s


def parameter_ok(recs) -> bool:
    return not any(r.get("method") == "bmadx" or r["cls"] in NONLINEAR_ONLY_PARTICLES for r in LT.leaves(recs))


def make_beam(bt, P, En, q, surv):
    if bt == "ParticleBeam":
        return LT.particle_beam(P, En, charges=q, survival=surv)
    return LT.parameter_beam_from(P, En)


# ------------------------------------------------------------------------------------------------
# A: lattices
# ------------------------------------------------------------------------------------------------
def step_violations(r: dict, b_in, b_out, blocked: bool):
    """clauses for ONE element; -> [(observable, text)] with the first violated clause only (later ones are usually
    consequences of the first)"""
    e0, e1 = float(b_in.energy), float(b_out.energy)
    # clause: reference energy changes only in cavities, by exactly voltage*cos(phase)
    want = e0 + gain(r)
    if not abs(e1 - want) <= TS * 1e-13 * max(abs(e0), abs(want)):
        return [("energy", f"energy {e0!r} -> {e1!r}, expected {want!r}")]
    if type(b_in) is not type(b_out):
        return [("beam-type", f"{type(b_in).__name__} -> {type(b_out).__name__}")]
    if isinstance(b_out, cheetah.ParticleBeam):
        # clause: number of macro-particles and individual charges never change
        if b_out.num_particles != b_in.num_particles or b_out.particles.shape != b_in.particles.shape:
            return [("num_particles", f"{b_in.num_particles} -> {b_out.num_particles}")]
        qa, qb = b_in.particle_charges.detach().numpy(), b_out.particle_charges.detach().numpy()
        if qa.shape != qb.shape or not np.array_equal(qa, qb):
            return [("particle_charges", "particle charges changed (max |dq| "
                     f"{float(np.max(np.abs(qa - qb))) if qa.shape == qb.shape else 'shape'})")]
        sa, sb = b_in.survival_probabilities.detach().numpy(), b_out.survival_probabilities.detach().numpy()
        # clause: survival probabilities stay within [0,1] and never increase
        if sa.shape != sb.shape:
            return [("survival", f"survival shape {sa.shape} -> {sb.shape}")]
        if not (np.all(sb >= 0.0) and np.all(sb <= 1.0)):
            return [("survival", f"survival outside [0,1]: min {float(sb.min())!r} max {float(sb.max())!r}")]
        if np.any(sb > sa):
            i = int(np.argmax(sb - sa))
            return [("survival", f"survival increased {float(sa.reshape(-1)[i])!r} -> {float(sb.reshape(-1)[i])!r}")]
    # clause: a blocking active screen removes all charge downstream
    blocked = blocked or (r["cls"] == "Screen" and r.get("active") and r.get("blocking"))
    tq = float(b_out.total_charge)
    if blocked and tq != 0.0:
        return [("total_charge-after-blocking-screen", f"total_charge {tq!r} downstream of a blocking active screen")]
    if not blocked and r["cls"] != "Aperture":
        tq0 = float(b_in.total_charge)
        if not abs(tq - tq0) <= TS * 1e-12 * abs(tq0):
            return [("total_charge", f"total_charge {tq0!r} -> {tq!r}")]
    return []


def check_lattice(recs, bt, P, En, q, surv):
    """-> list of (culprit label, observable, text, minimal replay)"""
    out = []
    b = make_beam(bt, P, En, q, surv)
    blocked = False
    cur = b
    for r in LT.leaves(recs):
        nxt = E.build(r).track(cur)
        for obs, text in step_violations(r, cur, nxt, blocked):
            rp = {"kind": "element", "record": r, "beam": bt, "blocked": blocked, **beam_record(cur)}
            out.append((label(r), obs, text, rp))
        blocked = blocked or (r["cls"] == "Screen" and bool(r.get("active")) and bool(r.get("blocking")))
        if out:
            return out
        cur = nxt
    # the whole segment: energy = E0 + sum of gains, identical accounting to the fold
    res = LT.build_segment(recs).track(b)
    want = En + sum(gain(r) for r in LT.leaves(recs))
    if not abs(float(res.energy) - want) <= TS * 1e-12 * max(En, abs(want)):
        out.append(("Segment.track", "energy", f"energy {float(res.energy)!r}, expected {want!r}", None))
    if blocked and float(res.total_charge) != 0.0:
        out.append(("Segment.track", "total_charge-after-blocking-screen",
                    f"total_charge {float(res.total_charge)!r} behind a blocking active screen", None))
    if isinstance(res, cheetah.ParticleBeam) and isinstance(cur, cheetah.ParticleBeam):
        if res.particle_charges.shape != cur.particle_charges.shape or not torch.equal(res.particle_charges, cur.particle_charges):
            out.append(("Segment.track", "particle_charges", "particle charges differ from element-wise tracking", None))
        if res.survival_probabilities.shape != cur.survival_probabilities.shape or \
                not torch.equal(res.survival_probabilities, cur.survival_probabilities):
            out.append(("Segment.track", "survival", "survival probabilities differ from element-wise tracking", None))
    return out


def beam_record(b) -> dict:
    if isinstance(b, cheetah.ParticleBeam):
        return {"energy": float(b.energy), "particles": b.particles.detach().numpy().tolist(),
                "charges": b.particle_charges.detach().numpy().tolist(),
                "survival": b.survival_probabilities.detach().numpy().tolist()}
    return {"energy": float(b.energy), "mu": b._mu.detach().numpy().tolist(), "cov": b._cov.detach().numpy().tolist(),
            "total_charge": float(b.total_charge)}


def beam_from_record(bt: str, d: dict):
    if bt == "ParticleBeam":
        return LT.particle_beam(np.array(d["particles"], dtype=float), float(d["energy"]),
                                charges=np.array(d["charges"], dtype=float), survival=np.array(d["survival"], dtype=float))
    return cheetah.ParameterBeam(E.t(d["mu"]), E.t(d["cov"]), E.t(float(d["energy"])),
                                 total_charge=E.t(float(d["total_charge"])), dtype=torch.float64)


def lattices(ctx, n: int) -> None:
    rep, rng = ctx.report, ctx.rng
    for _ in range(n):
        En = max(E.energy(rng), E_MIN)
        recs = gen_lattice(rng, En)
        npart = int(rng.integers(4, 20))
        P = LT.gen_particles(rng, npart)
        if rng.random() < 0.5:
            P[:, [0, 2]] *= 4.0          # so that the menu's apertures (0.5..2 mm) cut into the beam
        q = rng.uniform(0.2, 2.0, npart) * 1e-12 / npart
        skind, surv = gen_survival(rng, npart)
        for bt in ("ParticleBeam", "ParameterBeam"):
            if bt == "ParameterBeam" and not parameter_ok(recs):
                continue
            rep.fals_cases += 1
            rep.count("A:" + bt)
            rep.count("A:survival-in:" + skind)
            for r in LT.leaves(recs):
                rep.count("A:el:" + label(r))
            rep.case(("A", LT.class_seq(recs), bt), {"lattice": LT.class_seq(recs), "beam": bt, "survival": skind})
            try:
                bad = check_lattice(recs, bt, P, En, q, surv)
            except Exception as ex:
                rep.count(f"A:exception:{type(ex).__name__}")
                continue
            for culprit, obs, text, rp in bad:
                if rp is None:      # only the segment as a whole fails: shrink the lattice
                    def fails(cand, _o=obs):
                        return any(c == "Segment.track" and o == _o for c, o, _, _ in check_lattice(cand, bt, P, En, q, surv))
                    small = LT.shrink_tree(recs, fails)
                    culprit = f"Segment.track[{LT.class_seq(small)}]"
                    rp = {"kind": "lattice", "records": small, "beam": bt, "energy": En, "particles": P.tolist(),
                          "charges": q.tolist(), "survival": surv.tolist()}
                rep.fail("falsifier", f"C10|{culprit}|{bt}|{obs}", f"{culprit} with {bt}: {text}", rp)


# ------------------------------------------------------------------------------------------------
# B: apertures
# ------------------------------------------------------------------------------------------------
def frac(x: float):
    return None if np.isinf(x) else Fraction(float(x))


def inside_exact(shape: str, xmax: float, ymax: float, x: float, y: float):
    """(inside?, far enough from the edge?) in exact rational arithmetic on the float inputs"""
    X, Y, A, B = Fraction(float(x)), Fraction(float(y)), frac(xmax), frac(ymax)
    lo, hi = Fraction(1) - Fraction(5, 10 ** 7), Fraction(1) + Fraction(5, 10 ** 7)
    if shape == "rectangular":
        ins = (A is None or -A < X < A) and (B is None or -B < Y < B)
        clear = (A is None or not (lo * A <= abs(X) <= hi * A)) and (B is None or not (lo * B <= abs(Y) <= hi * B))
        return ins, clear
    f = (Fraction(0) if A is None else X * X / (A * A)) + (Fraction(0) if B is None else Y * Y / (B * B))
    return f <= 1, not (lo * lo <= f <= hi * hi)


DISTS = [1e-6, 3e-6, 1e-5, 1e-4, 1e-3, 1e-2, 0.1, 0.5]


def gen_aperture_particles(rng, shape: str, xmax: float, ymax: float, n: int) -> np.ndarray:
    P = LT.gen_particles(rng, n)
    ax = xmax if np.isfinite(xmax) else float(E.pick(rng, 1e-3, 1.0, 1e3))
    ay = ymax if np.isfinite(ymax) else float(E.pick(rng, 1e-3, 1.0, 1e3))
    for i in range(n):
        sx, sy = E.pick(rng, 1.0, -1.0), E.pick(rng, 1.0, -1.0)
        d = float(E.pick(rng, *DISTS)) * float(E.pick(rng, 1.0, 1.0, 2.5))
        side = E.pick(rng, 1.0, -1.0)       # outside / inside
        if shape == "rectangular":
            mode = E.pick(rng, "x-edge", "y-edge", "corner", "deep-inside", "far-outside")
            u, v = rng.uniform(0, 0.95), rng.uniform(0, 0.95)
            if mode == "x-edge":
                u = 1 + side * d
            elif mode == "y-edge":
                v = 1 + side * d
            elif mode == "corner":
                u, v = 1 + side * d, 1 + E.pick(rng, 1.0, -1.0) * float(E.pick(rng, *DISTS))
            elif mode == "far-outside":
                u, v = rng.uniform(1.5, 50), rng.uniform(0, 50)
                if rng.random() < 0.5:
                    u, v = v, u
            P[i, 0], P[i, 2] = sx * u * ax, sy * v * ay
        else:
            th = float(E.pick(rng, 0.0, np.pi / 2, rng.uniform(0, np.pi / 2), rng.uniform(0, np.pi / 2)))
            mode = E.pick(rng, "edge", "edge", "deep-inside", "far-outside")
            rad = 1 + side * d if mode == "edge" else (rng.uniform(0, 0.9) if mode == "deep-inside" else rng.uniform(1.5, 50))
            P[i, 0], P[i, 2] = sx * rad * np.cos(th) * ax, sy * rad * np.sin(th) * ay
    return P


def aperture_case(rec: dict, P: np.ndarray, En: float, q, surv, vector: str):
    """-> list of (observable, text, particle row, (xmax, ymax) the row was judged against);
    vector in {'none','aperture','beam'}"""
    shape, active = rec["shape"], rec["active"]
    xm, ym = rec["xmax"], rec["ymax"]
    bad = []
    if vector == "aperture":       # two apertures at once: the record's and a 3x wider one
        el = cheetah.Aperture(x_max=E.t([xm, 3 * xm]), y_max=E.t([ym, 3 * ym]), shape=shape, is_active=active,
                              dtype=torch.float64)
        sizes = [(xm, ym), (3 * xm, 3 * ym)]
        b = LT.particle_beam(P, En, charges=q, survival=surv)
        rows = [P, P]
    elif vector == "beam":         # two particle sets at once: P and P mirrored/scaled
        el = E.build(rec)
        P2 = P.copy()
        P2[:, 0], P2[:, 2] = -P[:, 0] * 0.5, P[:, 2] * 2.0
        b = cheetah.ParticleBeam(E.t(np.stack([P, P2])), E.t(En), particle_charges=E.t(q),
                                 survival_probabilities=E.t(surv), dtype=torch.float64)
        sizes = [(xm, ym), (xm, ym)]
        rows = [P, P2]
    else:
        el = E.build(rec)
        b = LT.particle_beam(P, En, charges=q, survival=surv)
        sizes, rows = [(xm, ym)], [P]
    out = el.track(b)
    s_out = out.survival_probabilities.detach().numpy()
    try:
        s_out = np.broadcast_to(s_out, (len(rows), P.shape[0]))
    except ValueError:
        return [("survival-shape", f"survival shape {s_out.shape}, expected {(len(rows), P.shape[0])}", None, None)]
    # clause: leaves coordinates untouched (also energy, charges)
    if not np.array_equal(out.particles.detach().numpy(), b.particles.detach().numpy()):
        bad.append(("coordinates-changed", "aperture changed particle coordinates", None, None))
    if float(out.energy) != En or not np.array_equal(out.particle_charges.detach().numpy(), b.particle_charges.detach().numpy()):
        bad.append(("energy-or-charges-changed", "aperture changed energy or particle charges", None, None))
    seen = set()
    for k, ((a, c), R) in enumerate(zip(sizes, rows)):
        for i in range(R.shape[0]):
            ins, clear = inside_exact(shape, a, c, R[i, 0], R[i, 2])
            if not clear:
                continue
            got = float(s_out[k, i])
            # clause: an active aperture sets survival to zero exactly for particles outside its opening (and, being
            # a factor on the incoming survival, leaves everything else as it was)
            want = float(surv[i]) if (ins or not active) else 0.0
            if got != want:
                if not active:
                    obs = "inactive-aperture-changes-survival"
                elif ins:
                    obs = "inside-particle-lost" if got == 0.0 else "inside-particle-survival-changed"
                else:
                    obs = "outside-particle-survives"
                if obs in seen:
                    continue
                seen.add(obs)
                bad.append((obs, f"particle x={float(R[i, 0])!r} y={float(R[i, 2])!r}, half-sizes ({a!r}, {c!r}) "
                                 f"[{'inside' if ins else 'outside'}]: survival {float(surv[i])!r} -> {got!r}, "
                                 f"expected {want!r}", [float(v) for v in R[i]] + [float(surv[i])], (a, c)))
    return bad


def inf_pattern(rec) -> str:
    return ("xmax=inf" if np.isinf(rec["xmax"]) else "xmax finite") + "," + ("ymax=inf" if np.isinf(rec["ymax"]) else "ymax finite")


def examine_aperture(rep, rec, P, En, q, surv, vector, do_shrink=True) -> None:
    def run_(r_, P_, q_, s_, v_):
        try:
            return aperture_case(r_, P_, En, q_, s_, v_)
        except Exception as ex:
            return [("exception", f"{type(ex).__name__}: {str(ex)[:200]}", None, None)]
    for obs, text, row, size in run_(rec, P, q, surv, vector):
        rec2, P2, surv2, q2, vec2 = rec, P, surv, q, vector
        pred = rec.get("_pred", "general")
        if do_shrink:
            def hit(r_, P_, q_, s_, v_, _o=obs):
                return next((t for o, t, _, _ in run_(r_, P_, q_, s_, v_) if o == _o), None)
            # (a) the one particle (twice: a beam needs >= 1 particle; two keep shapes generic), scalar aperture
            if row is not None:
                rec_k = dict(rec, xmax=size[0], ymax=size[1])
                Pk, qk, sk = np.array([row[:7], row[:7]]), np.asarray(q)[:2], np.array([row[7], row[7]])
                t = hit(rec_k, Pk, qk, sk, "none")
                if t is not None:
                    rec2, P2, q2, surv2, vec2, text = rec_k, Pk, qk, sk, "none", t
                    t1 = hit(rec2, P2, q2, np.ones(2), "none")      # incoming survival 1
                    if t1 is not None:
                        surv2, text = np.ones(2), t1
            # (b) is an infinite half-size essential?
            big = dict(rec2, xmax=1e30 if np.isinf(rec2["xmax"]) else rec2["xmax"],
                       ymax=1e30 if np.isinf(rec2["ymax"]) else rec2["ymax"])
            pred = "general"
            if big != rec2:
                t = hit(big, P2, q2, surv2, vec2)
                if t is not None:
                    rec2, text = big, t
                else:
                    pred = "infinite half-size"
        rec2 = {k: v for k, v in rec2.items() if k != "_pred"}
        cfg = f"{rec2['shape']}|{'active' if rec2['active'] else 'inactive'}|{pred}" + ("|vectorised " + vec2 if vec2 != "none" else "")
        rep.fail("falsifier", f"C10|Aperture|{cfg}|{obs}",
                 f"Aperture({rec2['shape']}, active={rec2['active']}, {inf_pattern(rec2)}): {text}",
                 {"kind": "aperture", "record": dict(rec2, _pred=pred), "energy": En, "particles": np.asarray(P2).tolist(),
                  "charges": np.asarray(q2).tolist(), "survival": np.asarray(surv2).tolist(), "vector": vec2})


def apertures(ctx, n: int) -> None:
    rep, rng = ctx.report, ctx.rng
    for _ in range(n):
        shape = E.pick(rng, "rectangular", "elliptical")
        active = bool(rng.random() < 0.8)
        xm = float(E.pick(rng, float("inf"), 1e-3, 5e-4, 2e-2, float(np.exp(rng.uniform(np.log(1e-5), np.log(1.0))))))
        ym = float(E.pick(rng, float("inf"), 1e-3, 5e-4, 2e-2, float(np.exp(rng.uniform(np.log(1e-5), np.log(1.0))))))
        rec = {"cls": "Aperture", "xmax": xm, "ymax": ym, "shape": shape, "active": active}
        npart = int(rng.integers(4, 24))
        P = gen_aperture_particles(rng, shape, xm, ym, npart)
        q = rng.uniform(0.2, 2.0, npart) * 1e-12 / npart
        skind, surv = gen_survival(rng, npart)
        vector = E.pick(rng, "none", "none", "none", "aperture", "beam")
        En = E.energy(rng)
        rep.fals_cases += 1
        rep.count(f"B:{shape}:{'active' if active else 'inactive'}")
        rep.count("B:" + inf_pattern(rec))
        rep.count("B:vector:" + vector)
        rep.case(("B", shape, active, inf_pattern(rec), vector, skind),
                 {"aperture": {k: rec[k] for k in ("shape", "active", "xmax", "ymax")}, "vector": vector})
        examine_aperture(rep, rec, P, En, q, surv, vector)


# ------------------------------------------------------------------------------------------------
# C: statistics count lost particles as absent
# ------------------------------------------------------------------------------------------------
PRIMITIVE = ["total_charge", "num_particles_survived", "mu_x", "mu_px", "mu_y", "mu_py", "mu_tau", "mu_p",
             "sigma_x", "sigma_px", "sigma_y", "sigma_py", "sigma_tau", "sigma_p", "sigma_xpx", "sigma_ypy"]
DERIVED = {"emittance_x": ("sigma_x", "sigma_px", "sigma_xpx"), "beta_x": ("sigma_x", "sigma_px", "sigma_xpx"),
           "alpha_x": ("sigma_x", "sigma_px", "sigma_xpx"), "normalized_emittance_x": ("sigma_x", "sigma_px", "sigma_xpx"),
           "emittance_y": ("sigma_y", "sigma_py", "sigma_ypy"), "beta_y": ("sigma_y", "sigma_py", "sigma_ypy"),
           "alpha_y": ("sigma_y", "sigma_py", "sigma_ypy"), "normalized_emittance_y": ("sigma_y", "sigma_py", "sigma_ypy")}
COL = {"x": 0, "px": 1, "y": 2, "py": 3, "tau": 4, "p": 5}


def oracle_stats(S: np.ndarray, qs: np.ndarray, En: float) -> dict:
    """ordinary sample statistics (numpy) of the surviving particles S (k,7); value -> (expected, tolerance)"""
    k = S.shape[0]
    mu = S[:, :6].mean(axis=0)
    sd = S[:, :6].std(axis=0, ddof=1)
    mx = np.abs(S[:, :6]).max(axis=0)
    rel = TS * (1e-9 + 1e-12 * float(np.max(mx / np.maximum(sd, 1e-300))))
    o = {"total_charge": (float(qs.sum()), TS * 1e-12 * float(np.abs(qs).sum())), "num_particles_survived": (float(k), 1e-9)}
    for nm, c in COL.items():
        o["mu_" + nm] = (float(mu[c]), rel * sd[c])
        o["sigma_" + nm] = (float(sd[c]), rel * sd[c])
    gamma = En / E.MC2
    bg = float(np.sqrt(gamma * gamma - 1.0))
    for pl, (a, b) in {"x": (0, 1), "y": (2, 3)}.items():
        cv = float(np.cov(S[:, a], S[:, b])[0, 1])
        o[f"sigma_{pl}p{pl}"] = (cv, rel * sd[a] * sd[b])
        det = sd[a] ** 2 * sd[b] ** 2 - cv ** 2
        cond = sd[a] ** 2 * sd[b] ** 2 / max(det, 1e-300)
        if det <= 0 or cond > 1e4:
            continue      # degenerate plane: emittance is clamped / ill-conditioned, left unspecified
        em = float(np.sqrt(det))
        o[f"emittance_{pl}"] = (em, rel * cond * em)
        o[f"normalized_emittance_{pl}"] = (em * bg, rel * cond * em * bg + TS * 1e-12 * em * bg)
        o[f"beta_{pl}"] = (sd[a] ** 2 / em, rel * cond * sd[a] ** 2 / em)
        o[f"alpha_{pl}"] = (-cv / em, rel * cond * (abs(cv) / em + 1.0))
    return o


FAMILIES = {"mu_*": ["mu_" + c for c in COL], "sigma_*": ["sigma_" + c for c in COL],
            "sigma_xpx/sigma_ypy": ["sigma_xpx", "sigma_ypy"], "emittance_*": ["emittance_x", "emittance_y"],
            "normalized_emittance_*": ["normalized_emittance_x", "normalized_emittance_y"],
            "beta_*": ["beta_x", "beta_y"], "alpha_*": ["alpha_x", "alpha_y"]}


def stat_violations(beam, expected: dict, index=None):
    """-> list of (stat or family, text).  Derived statistics are only reported when the moments they are built from
    are right; when every member of a family (all six sigma_*, ...) is wrong the family is reported once: such
    statistics share one implementation."""
    wrong = {}
    for nm in PRIMITIVE + list(DERIVED):
        if nm not in expected:
            continue
        want, tol = expected[nm]
        got = getattr(beam, nm)
        got = float(got[index]) if index is not None else float(got)
        if not abs(got - want) <= tol:
            wrong[nm] = f"{nm} = {got!r}, surviving particles alone give {want!r}"
    wrong = {nm: txt for nm, txt in wrong.items() if not any(d in wrong for d in DERIVED.get(nm, ()))}
    for fam, members in FAMILIES.items():
        if all(m in wrong for m in members):
            txt = wrong[members[0]]
            for m in members:
                del wrong[m]
            wrong[fam] = txt + f" (likewise {', '.join(members[1:])})"
    return list(wrong.items())


def gen_pattern(rng, P: np.ndarray):
    n = P.shape[0]
    kind = E.pick(rng, "random", "random", "two-survivors", "one-lost", "first-half-lost", "aperture", "none-lost")
    if kind == "random":
        s = (rng.random(n) < rng.uniform(0.2, 0.9)).astype(float)
    elif kind == "two-survivors":
        s = np.zeros(n)
        s[rng.choice(n, 2, replace=False)] = 1.0
    elif kind == "one-lost":
        s = np.ones(n)
        s[int(rng.integers(n))] = 0.0
    elif kind == "first-half-lost":
        s = np.ones(n)
        s[: n // 2] = 0.0
    elif kind == "none-lost":
        s = np.ones(n)
    else:
        s = None
    if s is not None and s.sum() < 2:
        s[rng.choice(n, 2, replace=False)] = 1.0
    return kind, s


def stats_case(P, En, q, s, via_aperture=None):
    """non-vectorised; -> list of (stat, text), or None when the case has fewer than two survivors"""
    if via_aperture is not None:
        b = E.build(via_aperture).track(LT.particle_beam(P, En, charges=q))
        s = b.survival_probabilities.detach().numpy()
    else:
        b = LT.particle_beam(P, En, charges=q, survival=s)
    keep = s == 1.0
    if keep.sum() < 2 or np.any((s != 0.0) & (s != 1.0)):
        return None
    # clause: every beam statistic and the total charge count lost particles as absent
    want = oracle_stats(P[keep], q[keep], En)
    bad = stat_violations(b, want)
    if not bad:   # literally: equals the statistic of the beam with those particles deleted
        red = LT.particle_beam(P[keep], En, charges=q[keep])
        for nm in PRIMITIVE + list(DERIVED):
            if nm in want:
                a, c = float(getattr(b, nm)), float(getattr(red, nm))
                if not abs(a - c) <= 2 * want[nm][1]:
                    bad.append((nm, f"{nm} = {a!r}, beam with the lost particles deleted reports {c!r}"))
    return bad


def stats_vector_case(Ps, En, q, ss):
    """vectorised beam, one survival pattern per sample -> list of (stat, text, sample index)"""
    vb = cheetah.ParticleBeam(E.t(Ps), E.t(En), particle_charges=E.t(q), survival_probabilities=E.t(ss), dtype=torch.float64)
    bad = []
    for k in range(Ps.shape[0]):
        keep = ss[k] == 1.0
        bad += [(nm, txt, k) for nm, txt in stat_violations(vb, oracle_stats(Ps[k][keep], q[keep], En), index=k)]
    return bad


def guarded(f, *a):
    try:
        return f(*a)
    except Exception as ex:
        return [("exception", f"{type(ex).__name__}: {str(ex)[:200]}")]


def report_stats(rep, bad, P, En, q, s, ap, kind) -> None:
    for nm, text in bad:
        rep.fail("falsifier", f"C10|ParticleBeam.{nm}|lost particles",
                 f"{P.shape[0]} particles, survival pattern '{kind}': {text}",
                 {"kind": "stats", "particles": P.tolist(), "energy": En, "charges": q.tolist(),
                  "survival": None if s is None else np.asarray(s).tolist(), "aperture": ap, "pattern": kind})


def report_stats_vector(rep, vbad, Ps, En, q, ss, do_shrink=True) -> None:
    done = set()
    for item in vbad:
        nm, text = item[0], item[1]
        k = item[2] if len(item) > 2 else None
        if nm in done:
            continue
        done.add(nm)
        if do_shrink and k is not None:      # the same sample as a plain beam: is vectorisation essential?
            plain = guarded(stats_case, Ps[k], En, q, ss[k]) or []
            if any(n2 == nm for n2, _ in plain):
                report_stats(rep, [(n2, t2) for n2, t2 in plain if n2 == nm], Ps[k], En, q, ss[k], None, "from vectorised case")
                continue
        rep.fail("falsifier", f"C10|ParticleBeam.{nm}|lost particles|vectorised beam",
                 f"vectorised beam ({Ps.shape[0]} x {Ps.shape[1]} particles): {text}",
                 {"kind": "stats-vector", "particles": Ps.tolist(), "energy": En, "charges": q.tolist(), "survival": ss.tolist()})


def statistics(ctx, n: int) -> None:
    rep, rng = ctx.report, ctx.rng
    for _ in range(n):
        npart = int(rng.integers(4, 40))
        P = LT.gen_particles(rng, npart)
        variant = E.pick(rng, "correlated", "far-off-axis", "wide")
        if variant == "far-off-axis":
            P[:, :6] += rng.normal(size=6) * 20 * LT.REF_SIG[:6]
        if variant == "wide":
            P[:, [0, 2]] *= 5.0
        q = rng.uniform(0.2, 2.0, npart) * 1e-12 / npart
        En = E.energy(rng)
        kind, s = gen_pattern(rng, P)
        ap = None
        if kind == "aperture":
            ap = {"cls": "Aperture", "xmax": float(E.pick(rng, 2e-4, 5e-4, 1e-3, float("inf"))),
                  "ymax": float(E.pick(rng, 2e-4, 5e-4, 1e-3)), "shape": E.pick(rng, "rectangular", "elliptical"),
                  "active": True}
        rep.fals_cases += 1
        rep.count("C:pattern:" + kind)
        rep.count("C:beam:" + variant)
        bad = guarded(stats_case, P, En, q, s, ap)
        if bad is None:
            rep.count("C:fewer-than-2-survivors-skipped")
            continue
        rep.case(("C", kind, variant, npart), {"pattern": kind, "beam": variant, "n": npart})
        report_stats(rep, bad, P, En, q, s, ap, kind)
        if bad or rng.random() >= 0.4:
            continue
        # vectorised beam: a different survival pattern per sample; compared with the per-sample oracle
        B = int(rng.integers(2, 4))
        Ps = np.stack([P] + [LT.gen_particles(rng, npart) for _ in range(B - 1)])
        pats = []
        while len(pats) < B:
            sk = gen_pattern(rng, P)[1]
            if sk is not None:
                pats.append(sk)
        ss = np.array(pats, dtype=float)
        rep.fals_cases += 1
        rep.count("C:vectorised")
        report_stats_vector(rep, guarded(stats_vector_case, Ps, En, q, ss), Ps, En, q, ss)


# ------------------------------------------------------------------------------------------------
def run(ctx) -> None:
    # small tensors only: intra-op threading costs far more than it gives (x100 on a loaded machine)
    nthreads = torch.get_num_threads()
    torch.set_num_threads(1)
    try:
        _run(ctx)
    finally:
        torch.set_num_threads(nthreads)


def _run(ctx) -> None:
    lattices(ctx, ctx.n(150, 3000))
    apertures(ctx, ctx.n(250, 5000))
    statistics(ctx, ctx.n(250, 5000))


def corpus_case(ctx, r: dict) -> None:
    rep = ctx.report
    k = r.get("kind")
    rep.fals_cases += 1
    if k == "element":
        rec, bt = r["record"], r["beam"]
        try:
            b = beam_from_record(bt, r)
            bad = step_violations(rec, b, E.build(rec).track(b), bool(r.get("blocked")))
        except Exception:
            return
        for obs, text in bad:
            rep.fail("falsifier", f"C10|{label(rec)}|{bt}|{obs}", f"{label(rec)} with {bt}: {text}", r)
    elif k == "lattice":
        P, q, s = np.array(r["particles"], dtype=float), np.array(r["charges"], dtype=float), np.array(r["survival"], dtype=float)
        try:
            bad = check_lattice(r["records"], r["beam"], P, float(r["energy"]), q, s)
        except Exception:
            return
        for culprit, obs, text, rp in bad:
            if rp is None:
                culprit = f"Segment.track[{LT.class_seq(r['records'])}]"
            rep.fail("falsifier", f"C10|{culprit}|{r['beam']}|{obs}", f"{culprit} with {r['beam']}: {text}", r)
    elif k == "aperture":
        examine_aperture(rep, r["record"], np.array(r["particles"], dtype=float), float(r["energy"]),
                         np.array(r["charges"], dtype=float), np.array(r["survival"], dtype=float), r.get("vector", "none"),
                         do_shrink=False)
    elif k == "stats":
        P, q = np.array(r["particles"], dtype=float), np.array(r["charges"], dtype=float)
        s = None if r.get("survival") is None else np.array(r["survival"], dtype=float)
        bad = guarded(stats_case, P, float(r["energy"]), q, s, r.get("aperture")) or []
        report_stats(rep, bad, P, float(r["energy"]), q, s, r.get("aperture"), r.get("pattern", "stored"))
    elif k == "stats-vector":
        Ps, q, ss = np.array(r["particles"], dtype=float), np.array(r["charges"], dtype=float), np.array(r["survival"], dtype=float)
        report_stats_vector(rep, guarded(stats_vector_case, Ps, float(r["energy"]), q, ss), Ps, float(r["energy"]), q, ss,
                            do_shrink=False)
