"""Shared by the C11 / C14 / C15 falsifiers: "full" element records that name EVERY constructor parameter of every
element class, generators that set each of them to a non-default value, builders, attribute read-back, state snapshots
(values + `_version` counters + storage pointers) and comparison helpers.

Record format (JSON-able):
    leaf     {"cls": "Quadrupole", "name": "q3", "args": {"length": 0.3, "k1": [1.0, 2.0, 0.5], "num_steps": 3, ...}}
    segment  {"cls": "Segment", "name": "sub1", "elements": [ ... ]}
`args` may omit parameters (constructor default applies). Tensor-valued parameters are python floats / nested lists.
"""
from __future__ import annotations

import inspect
import math
from typing import Any, Callable, Iterator, Optional

import numpy as np
import torch

import cheetah
from cheetah.accelerator.element import Element

F32, F64 = torch.float32, torch.float64
DTYPES = {"float32": F32, "float64": F64}

# kind of every constructor parameter: t = 0-d/batched float tensor, v2 = (..., 2) tensor, tm = (..., 7, 7) tensor,
# n = float tensor that the signature also allows as a plain number, i = int, b = bool, s:<choices> = str, r = (int, int)
SPEC: dict[str, dict[str, str]] = {
    "Drift": {"length": "t", "tracking_method": "s:cheetah,bmadx"},
    "Quadrupole": {"length": "t", "k1": "t", "misalignment": "v2", "tilt": "t", "num_steps": "i",
                   "tracking_method": "s:cheetah,bmadx"},
    "Dipole": {"length": "t", "angle": "t", "k1": "t", "dipole_e1": "t", "dipole_e2": "t", "tilt": "t", "gap": "t",
               "gap_exit": "t", "fringe_integral": "t", "fringe_integral_exit": "t",
               "fringe_at": "s:both,neither,entrance,exit", "fringe_type": "s:linear_edge",
               "tracking_method": "s:cheetah,bmadx"},
    "RBend": {"length": "t", "angle": "t", "k1": "t", "rbend_e1": "t", "rbend_e2": "t", "tilt": "t", "gap": "t",
              "gap_exit": "t", "fringe_integral": "t", "fringe_integral_exit": "t",
              "fringe_at": "s:both,neither,entrance,exit", "fringe_type": "s:linear_edge",
              "tracking_method": "s:cheetah,bmadx"},
    "Solenoid": {"length": "t", "k": "t", "misalignment": "v2"},
    "HorizontalCorrector": {"length": "t", "angle": "t"},
    "VerticalCorrector": {"length": "t", "angle": "t"},
    "Undulator": {"length": "t", "is_active": "b"},
    "Cavity": {"length": "t", "voltage": "t", "phase": "t", "frequency": "t"},
    "TransverseDeflectingCavity": {"length": "t", "voltage": "t", "phase": "t", "frequency": "t", "misalignment": "v2",
                                   "tilt": "t", "num_steps": "i", "tracking_method": "s:bmadx,cheetah"},
    "Marker": {},
    "BPM": {"is_active": "b"},
    "Screen": {"resolution": "r", "pixel_size": "v2", "binning": "i", "misalignment": "v2", "method": "s:histogram,kde",
               "kde_bandwidth": "t", "is_blocking": "b", "is_active": "b"},
    "Aperture": {"x_max": "t", "y_max": "t", "shape": "s:rectangular,elliptical", "is_active": "b"},
    "SpaceChargeKick": {"effect_length": "t", "num_grid_points_x": "i", "num_grid_points_y": "i",
                        "num_grid_points_tau": "i", "grid_extend_x": "n", "grid_extend_y": "n", "grid_extend_tau": "n"},
    "CustomTransferMap": {"predefined_transfer_map": "tm", "length": "t"},
}
LEAF_CLASSES = list(SPEC)
TENSOR_KINDS = ("t", "v2", "tm", "n")


def ctor_params(cls) -> list[str]:
    """constructor-settable attributes of a class, read from the code (not from `defining_features`)"""
    return [p for p in inspect.signature(cls.__init__).parameters if p not in ("self", "device", "dtype")]


def unknown_params(cls_name: str) -> list[str]:
    """constructor parameters this module has no generator for (new parameters added to the code)"""
    return [p for p in ctor_params(getattr(cheetah, cls_name)) if p != "name" and p not in SPEC.get(cls_name, {})]


# ------------------------------------------------------------------------------------------------
# generation
# ------------------------------------------------------------------------------------------------
def pick(rng, *c):
    return c[int(rng.integers(len(c)))]


def _u(rng, lo, hi, sign=True):
    v = float(rng.uniform(lo, hi))
    return -v if (sign and rng.random() < 0.5) else v


def _value(rng, cls: str, p: str, kind: str, ctx: dict) -> Any:
    """a NON-default, physically harmless value of parameter p"""
    if kind == "b":
        default = inspect.signature(getattr(cheetah, cls).__init__).parameters[p].default
        return not bool(default)
    if kind.startswith("s:"):
        ch = kind[2:].split(",")
        return ch[1] if len(ch) > 1 else ch[0]
    if kind == "i":
        return {"num_steps": int(pick(rng, 2, 3, 5)), "binning": 2, "num_grid_points_x": 8, "num_grid_points_y": 6,
                "num_grid_points_tau": 10}.get(p, 2)
    if kind == "r":
        return [int(pick(rng, 40, 48, 64)), int(pick(rng, 30, 36, 50))]
    if kind == "tm":
        L, k = _u(rng, 0.1, 0.5, False), _u(rng, 0.5, 4.0)
        q = cheetah.Quadrupole(length=torch.tensor(L, dtype=F64), k1=torch.tensor(k, dtype=F64),
                               misalignment=torch.tensor([3e-4, -2e-4], dtype=F64))
        return q.transfer_map(torch.tensor(1e8, dtype=F64)).tolist()
    if kind == "v2":
        if p == "pixel_size":
            return [float(pick(rng, 1e-4, 2e-4, 5e-5)), float(pick(rng, 1.5e-4, 3e-4, 8e-5))]
        s = 3e-4 if cls == "Screen" else 2e-3
        return [_u(rng, 0.2 * s, s), _u(rng, 0.2 * s, s)]
    # scalar float parameters
    if p in ("length", "effect_length"):
        return _u(rng, 0.1, 1.0, False)
    if p == "k1":
        return _u(rng, 0.3, 4.0)
    if p == "k":
        return _u(rng, 0.2, 2.0)
    if p == "angle":
        return _u(rng, 1e-4, 3e-3) if "Corrector" in cls else _u(rng, 0.05, 0.4)
    if p in ("dipole_e1", "dipole_e2", "rbend_e1", "rbend_e2"):
        return _u(rng, 0.03, 0.3)
    if p == "tilt":
        return _u(rng, 0.05, 1.2)
    if p == "gap":
        return _u(rng, 0.01, 0.05, False)
    if p == "gap_exit":
        return _u(rng, 0.06, 0.09, False)
    if p == "fringe_integral":
        return _u(rng, 0.3, 0.6, False)
    if p == "fringe_integral_exit":
        return _u(rng, 0.65, 0.9, False)
    if p == "voltage":
        return _u(rng, 1e4, 2e5) if cls == "TransverseDeflectingCavity" else _u(rng, 1e5, 5e6, False)
    if p == "phase":
        return _u(rng, 0.05, 0.45) if cls == "TransverseDeflectingCavity" else _u(rng, 5.0, 40.0)
    if p == "frequency":
        return float(pick(rng, 1.3e9, 2.856e9, 2.998e9))
    if p == "kde_bandwidth":
        return _u(rng, 1.2e-4, 3e-4, False)
    if p == "x_max":
        return float(pick(rng, 3e-4, 5e-4, 1e-3))
    if p == "y_max":
        return float(pick(rng, 2e-4, 4e-4, 8e-4))
    if p.startswith("grid_extend"):
        return {"grid_extend_x": 2.5, "grid_extend_y": 3.5, "grid_extend_tau": 4.0}[p]
    return _u(rng, 0.1, 1.0)


def gen_full(rng, cls: str, name: str, p_set: float = 1.0, vector: Optional[int] = None, force: Optional[dict] = None) -> dict:
    """record of class `cls` with every constructor parameter set to a non-default value with probability p_set
    (`length`-like required parameters are always set). `vector`: batch size of some of the float parameters."""
    args: dict = {}
    spec = SPEC[cls]
    sig = inspect.signature(getattr(cheetah, cls).__init__).parameters
    for p, kind in spec.items():
        required = p in sig and (sig[p].default is inspect.Parameter.empty or p in ("length", "effect_length")
                                   or p.startswith("num_grid_points"))     # (default 32^3 grid: too slow to track)
        if p not in sig:
            continue                      # parameter vanished from the code: nothing to set
        if required or rng.random() < p_set:
            args[p] = _value(rng, cls, p, kind, args)
    if vector:
        # batched values: any float parameter except the ones the code documents as unbatched (screen pixel grid,
        # space-charge grid extents)
        if cls == "Screen":
            cand = [p for p in ("misalignment",) if p in args]
        elif cls == "SpaceChargeKick":
            cand = [p for p in ("effect_length",) if p in args]
        else:
            cand = [p for p, k in spec.items() if p in args and k in ("t", "v2", "tm")]
        chosen = [p for p in cand if rng.random() < 0.5] or cand[:1]
        for p in chosen:
            args[p] = [_value(rng, cls, p, spec[p], args) for _ in range(vector)]
    if force:
        args.update(force)
    return {"cls": cls, "name": name, "args": args}


def is_batched(cls: str, p: str, v) -> bool:
    """does the record value v of parameter p carry a leading batch dimension?"""
    depth = {"t": 0, "n": 0, "v2": 1, "tm": 2}.get(SPEC.get(cls, {}).get(p, "?"))
    if depth is None:
        return False
    d = 0
    while isinstance(v, list):
        d, v = d + 1, (v[0] if v else None)
    return d > depth


def build_full(rec: dict, dtype=F64):
    if rec["cls"] == "Segment":
        return cheetah.Segment([build_full(r, dtype) for r in rec["elements"]], name=rec["name"])
    cls = getattr(cheetah, rec["cls"])
    spec = SPEC[rec["cls"]]
    kw = {}
    for p, v in rec["args"].items():
        kind = spec.get(p, "?")
        if v is None:
            kw[p] = None
        elif kind in TENSOR_KINDS:
            kw[p] = torch.tensor(v, dtype=dtype)
        elif kind == "r":
            kw[p] = tuple(v)
        else:
            kw[p] = v
    sig = inspect.signature(cls.__init__).parameters
    if "dtype" in sig:
        kw["dtype"] = dtype
    return cls(name=rec["name"], **kw)


# ------------------------------------------------------------------------------------------------
# structure helpers on records
# ------------------------------------------------------------------------------------------------
def leaves(recs: list) -> list:
    out = []
    for r in recs:
        out += leaves(r["elements"]) if r["cls"] == "Segment" else [r]
    return out


def shape_str(recs: list) -> str:
    return ",".join("[" + shape_str(r["elements"]) + "]" if r["cls"] == "Segment" else r["cls"] for r in recs)


def find_path(recs: list, name: str, prefix=()) -> Optional[tuple]:
    """names of the sub-segments leading to the leaf called `name` (then the leaf name)"""
    for r in recs:
        if r["cls"] == "Segment":
            p = find_path(r["elements"], name, prefix + (r["name"],))
            if p:
                return p
        elif r["name"] == name:
            return prefix + (name,)
    return None


def walk(seg, path=()) -> Iterator[tuple]:
    """(path, element) of every leaf and sub-segment of a real segment, in order"""
    for el in seg.elements:
        if isinstance(el, cheetah.Segment):
            yield path + (el.name,), el
            yield from walk(el, path + (el.name,))
        else:
            yield path + (el.name,), el


def real_leaves(seg) -> list:
    return [el for _, el in walk(seg) if not isinstance(el, cheetah.Segment)]


def structure(seg) -> Any:
    return [(el.name, "Segment", structure(el)) if isinstance(el, cheetah.Segment) else (el.name, type(el).__name__)
            for el in seg.elements]


def nest_full(rng, recs: list, p: float = 0.3, depth: int = 0, counter: Optional[list] = None) -> list:
    """wrap random consecutive runs (possibly empty ones are not produced) into Segment records; unique names"""
    counter = counter if counter is not None else [0]
    out, i = [], 0
    while i < len(recs):
        if depth < 3 and rng.random() < p:
            ln = int(rng.integers(1, min(3, len(recs) - i) + 1))
            counter[0] += 1
            nm = f"sub{counter[0]}"
            out.append({"cls": "Segment", "name": nm, "elements": nest_full(rng, recs[i:i + ln], p, depth + 1, counter)})
            i += ln
        else:
            out.append(recs[i])
            i += 1
    return out


# ------------------------------------------------------------------------------------------------
# values, snapshots
# ------------------------------------------------------------------------------------------------
def plain(v: Any) -> Any:
    """python value of an attribute (tensors -> nested lists, tuples -> lists)"""
    if isinstance(v, torch.Tensor):
        return v.detach().tolist()
    if isinstance(v, (tuple, list)):
        return [plain(x) for x in v]
    if isinstance(v, torch.nn.ModuleList):
        return [e.name for e in v]
    return v


def _flat(x) -> list:
    if isinstance(x, (list, tuple)):
        out = []
        for y in x:
            out += _flat(y)
        return out
    return [x]


def _shape(x) -> tuple:
    if isinstance(x, (list, tuple)):
        return (len(x),) + (_shape(x[0]) if len(x) else ())
    return ()


def value_diff(a: Any, b: Any, ulps: float = 0.0, eps: float = 2.0 ** -23, scale: float = 0.0) -> Optional[str]:
    """None if attribute values a and b are the same VALUE (an int and a 0-d integer tensor with the same number are the
    same value; a tuple and a list / tensor with the same entries too), else a description. Floats: exact, or within
    ulps*eps*max(|a|,|b|,scale)."""
    ta, tb = isinstance(a, torch.Tensor), isinstance(b, torch.Tensor)
    if ta and tb and a.is_floating_point() and b.is_floating_point() and a.dtype != b.dtype:
        return f"dtype {a.dtype} vs {b.dtype}"
    pa, pb = plain(a), plain(b)
    if isinstance(pa, str) or isinstance(pb, str) or pa is None or pb is None:
        return None if (type(pa) is type(pb) and pa == pb) else f"{pa!r} vs {pb!r}"
    if isinstance(pa, bool) != isinstance(pb, bool):
        return f"{pa!r} vs {pb!r}"
    if _shape(pa) != _shape(pb):
        return f"shape {_shape(pa)} vs {_shape(pb)}"
    fa, fb = _flat(pa), _flat(pb)
    for x, y in zip(fa, fb):
        if isinstance(x, bool) or isinstance(y, bool):
            if x is not y:
                return f"{pa!r} vs {pb!r}"
            continue
        if not isinstance(x, (int, float)) or not isinstance(y, (int, float)):
            if x != y:
                return f"{x!r} vs {y!r}"
            continue
        if math.isnan(x) and math.isnan(y):
            continue
        if x == y:
            continue
        if ulps and math.isfinite(x) and math.isfinite(y) and abs(x - y) <= ulps * eps * max(abs(x), abs(y), scale):
            continue
        return f"{_short(pa)} vs {_short(pb)}"
    return None


def _short(v, n: int = 70) -> str:
    s = repr(v)
    return s if len(s) <= n else s[:n] + "..."


DIAG_STATE = ("reading", "cached_reading", "_read_beam")


def tensors_of(obj, prefix: str = "", skip=DIAG_STATE) -> dict:
    """every tensor reachable from an element / segment / beam: registered buffers and parameters (recursively) and
    tensor-valued plain attributes; key = dotted path. Diagnostic read-out state is skipped."""
    out = {}
    if isinstance(obj, cheetah.Segment):
        for i, el in enumerate(obj.elements):
            out.update(tensors_of(el, f"{prefix}{i}:{el.name}.", skip))
        return out
    for k, v in list(getattr(obj, "_buffers", {}).items()) + list(getattr(obj, "_parameters", {}).items()):
        if isinstance(v, torch.Tensor) and k not in skip:
            out[prefix + k] = v
    for k, v in vars(obj).items():
        if k.startswith("_") and k not in ("_e1", "_e2"):
            continue
        if k in skip:
            continue
        if isinstance(v, torch.Tensor):
            out[prefix + k] = v
        elif isinstance(v, (tuple, list)):
            for j, x in enumerate(v):
                if isinstance(x, torch.Tensor):
                    out[f"{prefix}{k}[{j}]"] = x
        elif isinstance(v, dict):
            for j, x in v.items():
                if isinstance(x, torch.Tensor):
                    out[f"{prefix}{k}[{j}]"] = x
    return out


def plain_attrs_of(obj, prefix: str = "", skip=DIAG_STATE) -> dict:
    """non-tensor public attributes (flags, methods, step counts, names ...) of an element / segment, recursively"""
    out = {}
    if isinstance(obj, cheetah.Segment):
        out[prefix + "name"] = obj.name
        out[prefix + "#elements"] = [e.name for e in obj.elements]
        for i, el in enumerate(obj.elements):
            out.update(plain_attrs_of(el, f"{prefix}{i}:{el.name}.", skip))
        return out
    for k, v in vars(obj).items():
        if k.startswith("_") or k in skip or k == "training" or k == "lost_particles":
            continue
        if isinstance(v, (bool, int, float, str, tuple, list)) or v is None:
            if not any(isinstance(x, torch.Tensor) for x in (v if isinstance(v, (tuple, list)) else [])):
                out[prefix + k] = plain(v)
    return out


class Snapshot:
    """bitwise copy of every tensor of an object + `_version` counters + the non-tensor attributes"""

    def __init__(self, obj, label: str = ""):
        self.label = label
        ts = tensors_of(obj)
        self.refs = ts
        self.values = {k: v.detach().clone() for k, v in ts.items()}
        self.versions = {k: v._version for k, v in ts.items()}
        self.grad_flags = {k: (bool(v.requires_grad), isinstance(v, torch.nn.Parameter)) for k, v in ts.items()}
        self.attrs = plain_attrs_of(obj) if isinstance(obj, Element) else {}

    def diff(self, obj) -> Optional[tuple]:
        """(field, kind, text) of the first change of `obj` w.r.t. the snapshot, kind in value/version/attr/structure"""
        now = tensors_of(obj)
        if set(now) != set(self.values):
            ch = sorted(set(now) ^ set(self.values))
            return (ch[0], "structure", f"tensor fields changed: {ch[:4]}")
        for k, v in now.items():
            old = self.values[k]
            if v.shape != old.shape or v.dtype != old.dtype:
                return (k, "value", f"{k}: {tuple(old.shape)} {old.dtype} -> {tuple(v.shape)} {v.dtype}")
            if not torch.equal(torch.nan_to_num(v.detach(), nan=1.2345e300 if v.dtype == F64 else 1.2345e30),
                               torch.nan_to_num(old, nan=1.2345e300 if v.dtype == F64 else 1.2345e30)):
                return (k, "value", f"{k}: {_short(old.tolist())} -> {_short(v.tolist())}")
        for k, v in now.items():
            g = (bool(v.requires_grad), isinstance(v, torch.nn.Parameter))
            if g != self.grad_flags[k]:
                return (k, "requires_grad", f"{k}: (requires_grad, is nn.Parameter) {self.grad_flags[k]} -> {g}")
        for k, v in now.items():
            if v is self.refs[k] and v._version != self.versions[k]:
                return (k, "version", f"{k}: written in place ({self.versions[k]} -> {v._version} on `_version`), value unchanged")
        if isinstance(obj, Element):
            a = plain_attrs_of(obj)
            for k in sorted(set(a) | set(self.attrs)):
                if a.get(k, "<missing>") != self.attrs.get(k, "<missing>"):
                    return (k, "attr", f"{k}: {self.attrs.get(k, '<missing>')!r} -> {a.get(k, '<missing>')!r}")
        return None


def field_class(obj, field: str) -> str:
    """'Quadrupole.k1' for a snapshot field key like '0:sub1.2:q3.k1' (stable signature component)"""
    parts = field.split(".")
    attr = parts[-1]
    cur = obj
    for p in parts[:-1]:
        if ":" in p and isinstance(cur, cheetah.Segment):
            idx = int(p.split(":")[0])
            if idx < len(cur.elements):
                cur = cur.elements[idx]
    return f"{type(cur).__name__}.{attr}"


def storage_ptrs(obj) -> dict:
    """data pointer of the storage of every (non-empty) tensor of obj"""
    return {k: v.untyped_storage().data_ptr() for k, v in tensors_of(obj, skip=()).items() if v.numel() > 0}


# ------------------------------------------------------------------------------------------------
# beams
# ------------------------------------------------------------------------------------------------
def gen_particles(rng, n: int = 16) -> np.ndarray:
    sig = np.array([2e-4, 2e-5, 2e-4, 2e-5, 1e-4, 1e-3])
    mix = np.eye(6) + 0.3 * rng.normal(size=(6, 6))
    P = (rng.normal(size=(n, 6)) @ mix.T) * sig + rng.normal(size=6) * 0.5 * sig
    out = np.ones((n, 7))
    out[:, :6] = P
    return out


def make_beam(bt: str, P: np.ndarray, energy: float, dtype=F64, survival=None):
    """a NEW beam object (fresh tensors) from stored arrays; the same arrays always give bitwise the same beam"""
    P = np.asarray(P, dtype=float)
    n = P.shape[0]
    if bt == "ParticleBeam":
        kw = {}
        if survival is not None:
            kw["survival_probabilities"] = torch.tensor(survival, dtype=dtype)
        return cheetah.ParticleBeam(torch.tensor(P, dtype=dtype), torch.tensor(energy, dtype=dtype),
                                    particle_charges=torch.tensor(np.full(n, 1e-12 / n), dtype=dtype), dtype=dtype, **kw)
    mu = P.mean(axis=0)
    C = np.zeros((7, 7))
    C[:6, :6] = np.cov(P[:, :6].T)
    return cheetah.ParameterBeam(torch.tensor(mu, dtype=dtype), torch.tensor(C, dtype=dtype),
                                 torch.tensor(energy, dtype=dtype), total_charge=torch.tensor(1e-12, dtype=dtype),
                                 dtype=dtype)


def beam_tensors(b) -> dict:
    return dict(b._buffers)


REF_SIG = np.array([2e-4, 2e-5, 2e-4, 2e-5, 1e-4, 1e-3, 1.0])


def beams_differ(a, b, rtol: float = 1e-9, check_dtype: bool = True) -> Optional[str]:
    """None if the beams agree: same type, same buffer names / shapes / dtypes and values within rtol * scale, scale
    = per-coordinate beam size (works for batched beams: any leading dimensions). rtol = 0: bitwise."""
    if type(a) is not type(b):
        return f"type {type(a).__name__} vs {type(b).__name__}"
    ta, tb = beam_tensors(a), beam_tensors(b)
    if set(ta) != set(tb):
        return f"fields {sorted(ta)} vs {sorted(tb)}"
    for k in ta:
        x, y = ta[k].detach(), tb[k].detach()
        if check_dtype and x.dtype != y.dtype:
            return f"{k}: dtype {x.dtype} vs {y.dtype}"
        if x.shape != y.shape:
            return f"{k}: shape {tuple(x.shape)} vs {tuple(y.shape)}"
        x, y = x.to(F64), y.to(F64)
        nx, ny = ~torch.isfinite(x), ~torch.isfinite(y)
        if not torch.equal(nx, ny) or not torch.equal(torch.isnan(x), torch.isnan(y)) or \
                not torch.equal(x[nx & ~torch.isnan(x)], y[nx & ~torch.isnan(x)]):
            return f"{k}: non-finite pattern differs"
        fin = ~nx
        if not fin.any():
            continue
        d = torch.where(fin, (x - y).abs(), torch.zeros_like(x))
        if rtol == 0.0:
            if d.max() > 0:
                i = int(torch.argmax(d.reshape(-1)))
                return f"{k}: {x.reshape(-1)[i].item()!r} vs {y.reshape(-1)[i].item()!r} (bitwise)"
            continue
        if k in ("particles", "_mu"):
            sig = torch.tensor(REF_SIG, dtype=F64)
            big = torch.where(fin, torch.maximum(x.abs(), y.abs()), torch.zeros_like(x))
            scale = torch.maximum(big.reshape(-1, 7).max(dim=0).values, sig)
            r = d / scale
        elif k == "_cov":
            sig = torch.tensor(REF_SIG, dtype=F64)
            dg = torch.maximum(torch.diagonal(x, dim1=-2, dim2=-1).abs(), torch.diagonal(y, dim1=-2, dim2=-1).abs())
            dg = torch.where(torch.isfinite(dg), dg, torch.zeros_like(dg))
            sg = torch.maximum(dg.sqrt().reshape(-1, 7).max(dim=0).values, sig)
            r = d / torch.outer(sg, sg)
        else:
            big = torch.where(fin, torch.maximum(x.abs(), y.abs()), torch.zeros_like(x))
            r = d / max(float(big.max()), 1e-300)
        if float(r.max()) > rtol:
            i = int(torch.argmax(r.reshape(-1)))
            coord = f"[..,{i % 7}]" if k in ("particles", "_mu") else (f"[{(i // 7) % 7},{i % 7}]" if k == "_cov" else "")
            return f"{k}{coord}: {x.reshape(-1)[i].item()!r} vs {y.reshape(-1)[i].item()!r}"
    return None


def observable(d: str) -> str:
    """seed-independent head of a difference description: 'particles[..,3]' / 'energy' / 'type' ..."""
    return d.split(":")[0].split(" ")[0]


def safe_track(seg, beam) -> tuple:
    """(outgoing or None, 'ExcType' or None)"""
    try:
        return seg.track(beam), None
    except Exception as ex:  # the code under test may reject a configuration; both sides must then do the same
        return None, type(ex).__name__


def trackable(rec_list: list, bt: str) -> bool:
    """configurations that cheetah documents as unsupported for the beam type"""
    for r in leaves(rec_list):
        a = r["args"]
        if bt == "ParameterBeam" and (a.get("tracking_method") == "bmadx" or r["cls"] in ("SpaceChargeKick",
                                                                                        "TransverseDeflectingCavity")):
            return False
        if r["cls"] == "TransverseDeflectingCavity" and a.get("tracking_method", "bmadx") != "bmadx":
            return False
    return True


def tensor_equal(a, b) -> bool:
    if a is None or b is None:
        return a is None and b is None
    if isinstance(a, torch.Tensor) and isinstance(b, torch.Tensor):
        return a.shape == b.shape and a.dtype == b.dtype and bool(torch.equal(torch.nan_to_num(a), torch.nan_to_num(b)))
    return False


def shrink_list(items: list, fails: Callable[[list], bool], min_len: int = 1, max_steps: int = 300) -> list:
    cur, steps, changed = list(items), 0, True
    while changed and steps < max_steps:
        changed, i = False, 0
        while i < len(cur) and len(cur) > min_len and steps < max_steps:
            cand = cur[:i] + cur[i + 1:]
            steps += 1
            try:
                bad = fails(cand)
            except Exception:
                bad = False
            if bad:
                cur, changed = cand, True
            else:
                i += 1
    return cur


def tree_edits(recs: list):
    for i, r in enumerate(recs):
        if len(recs) > 1:
            yield recs[:i] + recs[i + 1:]
        if r["cls"] == "Segment":
            yield recs[:i] + list(r["elements"]) + recs[i + 1:]
            for sub in tree_edits(r["elements"]):
                yield recs[:i] + [dict(r, elements=sub)] + recs[i + 1:]


def shrink_tree(recs: list, fails: Callable[[list], bool], max_steps: int = 150) -> list:
    cur, steps, progress = list(recs), 0, True
    while progress and steps < max_steps:
        progress = False
        for cand in tree_edits(cur):
            steps += 1
            try:
                bad = bool(cand) and fails(cand)
            except Exception:
                bad = False
            if bad:
                cur, progress = cand, True
                break
            if steps >= max_steps:
                break
    return cur
