"""C17 falsifier — beam moments and Twiss parameters are mutually consistent.

T1  identities on arbitrary beams: beta > 0, emittance >= 0, beta*gamma - alpha^2 = 1 (gamma = sigma_px^2/emittance)
T2  from_twiss -> reported (beta, alpha, emittance): exact for ParameterBeam, CLT bound for ParticleBeam (fixed seed)
T3  Twiss transport through drifts / upright quadrupoles: closed-form textbook matrices (numpy), standard matrix law
T4  ParticleBeam statistics: reordering, translation, scaling, numpy mean/std(ddof=1)/cov when all particles survive,
    vectorised beam = its samples one by one
"""
from __future__ import annotations

import os

import numpy as np
import torch

import cheetah
import elements as E
import lattices as LT

META = {
    "rule": "T1: case = beam type x (random correlated moments | sampled particles with survival weights ones / 0-1 / "
            "fractional | vectorised); T2: case = (beta, alpha, emittance) per plane, log-uniform beta 0.05..100 m, "
            "emittance 1e-13..1e-6, alpha in {0, +-1, +-0.01..5}, scalar or vectorised x beam type; T3: case = sequence "
            "of 1..4 drifts / upright quadrupoles (k1 of both signs and 0, L incl. 0) x beam type x coupled correlated "
            "beam (ParticleBeam: with survival weights); T4: case = particle set x survival weights x transformation "
            "(reorder, translate, scale incl. negative factors, both, numpy, vectorised); distinct = distinct (part, "
            "configuration class)",
    "assumptions": [
        "T1/T3 tolerances are relative to the conditioning of the determinant: c = 1 + alpha^2 = 1/(1-r^2); planes with "
        "c > 1e6 (emittance clamped / degenerate) are left unspecified and skipped",
        "T1: |beta*gamma - alpha^2 - 1| <= 1e-10*beta*gamma (measured <= 3e-15*beta*gamma)",
        "T2 ParameterBeam: relative 1e-9*(1+alpha^2) (measured 1e-15); ParticleBeam: N = 50000 particles, torch seed "
        "derived from the case; |eps^/eps - 1|, |beta^/beta - 1| <= 8/sqrt(N), |alpha^ - alpha| <= 8*sqrt(1+alpha^2)/"
        "sqrt(N) (the estimators have standard deviation 1/sqrt(N) resp. sqrt(1+alpha^2)/sqrt(N), measured 0.99..1.01 "
        "of that over 600 planes: the bound is 8 sigma)",
        "T3: |d beta| <= 1e-9*(c0*T + c1*beta1), T = M11^2 beta + 2|M11 M12 alpha| + M12^2 gamma (terms of the law), "
        "likewise for alpha; emittance relative 1e-9*(c0 + c1); a quadrupole with k1 = 0 may be transported either "
        "as a drift or with cheetah's documented substitution k1 = 1e-12 (the two differ by ~1e-12*L*beta)",
        "T4: |d stat| <= (1e-9 + 1e-12*max_i(|x_i|max/sigma_i)) * natural scale of the statistic (sigma, sigma_i*sigma_j)",
        "all round-off tolerances keep >= 100x head-room on the clean tree (VERIF_TOL_SCALE=0.01 passes seeds 0..7)",
    ],
}

# development knob: VERIF_TOL_SCALE=0.01 verifies the 100x head-room of every round-off tolerance on the clean tree
TS = float(os.environ.get("VERIF_TOL_SCALE", "1"))
NAMES = ["x", "px", "y", "py", "tau", "p"]
PLANES = {"x": (0, 1), "y": (2, 3)}


def getf(b, name, index=None) -> float:
    v = getattr(b, name)
    return float(v[index]) if index is not None else float(v)


def twiss_reported(b, pl, index=None):
    p = "p" + pl
    return {"beta": getf(b, "beta_" + pl, index), "alpha": getf(b, "alpha_" + pl, index),
            "emit": getf(b, "emittance_" + pl, index), "sx": getf(b, "sigma_" + pl, index),
            "spx": getf(b, "sigma_" + p, index), "sxpx": getf(b, f"sigma_{pl}{p}", index)}


def cond_of(t) -> float:
    d = t["sx"] ** 2 * t["spx"] ** 2 - t["sxpx"] ** 2
    return float("inf") if not d > 0 else t["sx"] ** 2 * t["spx"] ** 2 / d


def first_merged(items, order):
    """items: (quantity, plane, text).  One report per case: the first quantity of `order` that is wrong, with the planes
    it is wrong in ('x', 'y' or '*' for both) — later quantities are as a rule consequences of the first."""
    for qn in order:
        hit = [(pl, tx) for q, pl, tx in items if q == qn]
        if hit:
            planes = sorted({pl for pl, _ in hit})
            return [(f"{qn}_{'*' if len(planes) > 1 else planes[0]}", hit[0][1])]
    return [(q, tx) for q, _, tx in items[:1]]


def guarded(f, *a):
    try:
        return f(*a)
    except Exception as ex:
        return [("exception", f"{type(ex).__name__}: {str(ex)[:200]}")]


# ------------------------------------------------------------------------------------------------
# beams
# ------------------------------------------------------------------------------------------------
def gen_particles(rng, n: int, offaxis: float = 0.5, corr: float = 0.3) -> np.ndarray:
    sig = LT.REF_SIG[:6] * np.exp(rng.uniform(np.log(0.1), np.log(10.0), 6))
    mix = np.eye(6) + corr * rng.normal(size=(6, 6))
    P = (rng.normal(size=(n, 6)) @ mix.T) * sig + rng.normal(size=6) * offaxis * sig
    out = np.ones((n, 7))
    out[:, :6] = P
    return out


def gen_weights(rng, n: int):
    kind = E.pick(rng, "ones", "0/1", "fractional", "fractional")
    if kind == "ones":
        return kind, np.ones(n)
    if kind == "0/1":
        w = (rng.random(n) < 0.6).astype(float)
        if w.sum() < 3:
            w[:3] = 1.0
        return kind, w
    w = rng.uniform(0.05, 1.0, n)
    w[rng.random(n) < 0.15] = 0.0
    w[rng.random(n) < 0.15] = 1.0
    if (w > 0).sum() < 3:
        w[:3] = 0.7
    return kind, w


def pbeam(P, En, w=None, q=None):
    n = P.shape[-2]
    q = np.full(n, 1e-12 / n) if q is None else q
    return cheetah.ParticleBeam(E.t(P), E.t(En), particle_charges=E.t(q),
                                survival_probabilities=None if w is None else E.t(w), dtype=torch.float64)


# ------------------------------------------------------------------------------------------------
# T1: identities
# ------------------------------------------------------------------------------------------------
def identity_violations(b, index=None):
    """-> list of (clause, plane, text)"""
    bad = []
    for pl in PLANES:
        t = twiss_reported(b, pl, index)
        if not cond_of(t) < 1e6:
            continue
        # clause: beta > 0, emittance >= 0
        if not t["beta"] > 0:
            bad.append(("beta>0", pl, f"beta_{pl} = {t['beta']!r}"))
        elif not t["emit"] >= 0:
            bad.append(("emittance>=0", pl, f"emittance_{pl} = {t['emit']!r}"))
        else:
            # clause: beta*gamma - alpha^2 = 1 with gamma = sigma_px^2/emittance
            gamma = t["spx"] ** 2 / t["emit"]
            lhs = t["beta"] * gamma - t["alpha"] ** 2
            if not abs(lhs - 1.0) <= TS * 1e-10 * max(t["beta"] * gamma, 1.0):
                bad.append(("beta*gamma-alpha^2=1", pl, f"beta_{pl}*gamma_{pl} - alpha_{pl}^2 = {lhs!r} (beta {t['beta']!r}, "
                            f"alpha {t['alpha']!r}, emittance {t['emit']!r}, sigma_p{pl} {t['spx']!r})"))
    return bad


def t1_case(spec: dict):
    k, En = spec["kind"], spec["energy"]
    if k.startswith("parameter"):
        b = cheetah.ParameterBeam(E.t(spec["mu"]), E.t(spec["cov"]), E.t(En), dtype=torch.float64)
    else:
        b = pbeam(np.array(spec["particles"], dtype=float), En, np.array(spec["weights"], dtype=float))
    items = []
    for idx in (range(spec["batch"]) if k.endswith("vector") else [None]):
        items += identity_violations(b, idx)
    return first_merged(items, ["beta>0", "emittance>=0", "beta*gamma-alpha^2=1"])


def t1_examine(rep, spec, do_shrink=True) -> None:
    for obs, text in guarded(t1_case, spec):
        sp = spec
        if do_shrink and spec["kind"].endswith("vector"):       # does one sample on its own show it?
            for k in range(spec["batch"]):
                one = {"energy": spec["energy"], "wkind": spec.get("wkind", "")}
                if spec["kind"] == "particle-vector":
                    w = np.array(spec["weights"])
                    one.update(kind="particle", particles=spec["particles"][k], weights=(w[k] if w.ndim == 2 else w).tolist())
                else:
                    one.update(kind="parameter", mu=spec["mu"][k], cov=spec["cov"][k])
                hit = [t for o, t in guarded(t1_case, one) if o == obs]
                if hit:
                    sp, text = one, hit[0]
                    break
        bt = "ParameterBeam" if sp["kind"].startswith("parameter") else "ParticleBeam"
        cfg = bt + ("|vectorised" if sp["kind"].endswith("vector") else "")
        rep.fail("falsifier", f"C17|identity|{cfg}|{obs}", f"{cfg} ({sp.get('wkind', '')}): {text}", {"part": "T1", **sp})


def moments_of(P):
    C = np.zeros((7, 7))
    C[:6, :6] = np.cov(P[:, :6].T)
    return P.mean(axis=0), C


def t1(ctx, n: int) -> None:
    rep, rng = ctx.report, ctx.rng
    for _ in range(n):
        En = E.energy(rng)
        kind = E.pick(rng, "parameter", "particle", "particle", "particle-vector", "parameter-vector")
        npart = int(rng.integers(3, 60))
        corr = float(E.pick(rng, 0.0, 0.3, 0.3, 1.0, 3.0))
        if kind == "parameter":
            mu, C = moments_of(gen_particles(rng, max(npart, 8), corr=corr))
            spec = {"kind": kind, "energy": En, "mu": mu.tolist(), "cov": C.tolist()}
        elif kind == "particle":
            P = gen_particles(rng, npart, offaxis=float(E.pick(rng, 0.0, 0.5, 10.0)), corr=corr)
            wkind, w = gen_weights(rng, npart)
            spec = {"kind": kind, "energy": En, "particles": P.tolist(), "weights": w.tolist(), "wkind": wkind}
        elif kind == "particle-vector":
            B = int(rng.integers(2, 4))
            Ps = np.stack([gen_particles(rng, npart, corr=corr) for _ in range(B)])
            wkind, w = gen_weights(rng, npart)
            ws = np.stack([gen_weights(rng, npart)[1] for _ in range(B)]) if rng.random() < 0.5 else w
            spec = {"kind": kind, "energy": En, "particles": Ps.tolist(), "weights": ws.tolist(), "batch": B,
                    "wkind": "per-sample" if ws.ndim == 2 else wkind}
        else:
            B = int(rng.integers(2, 4))
            ms = [moments_of(gen_particles(rng, max(npart, 8), corr=corr)) for _ in range(B)]
            spec = {"kind": kind, "energy": En, "mu": np.array([m for m, _ in ms]).tolist(),
                    "cov": np.array([c for _, c in ms]).tolist(), "batch": B}
        rep.fals_cases += 1
        rep.count("T1:" + kind)
        if "wkind" in spec:
            rep.count("T1:weights:" + spec["wkind"])
        rep.case(("T1", kind, spec.get("wkind", ""), corr, npart), {"part": "T1", "beam": kind, "corr": corr})
        t1_examine(rep, spec)


# ------------------------------------------------------------------------------------------------
# T2: from_twiss round trip
# ------------------------------------------------------------------------------------------------
N_SAMPLE = 50_000


def gen_twiss(rng):
    beta = float(E.pick(rng, 1.0, np.exp(rng.uniform(np.log(0.05), np.log(100.0))), np.exp(rng.uniform(np.log(0.05), np.log(100.0)))))
    alpha = float(E.pick(rng, 0.0, 1.0, -1.0, E.signed(rng, 0.01, 5.0, 0.0), E.signed(rng, 0.01, 5.0, 0.0)))
    emit = float(np.exp(rng.uniform(np.log(1e-13), np.log(1e-6))))
    return beta, alpha, emit


def t2_case(spec: dict):
    """-> [(observable, text)]"""
    bt, En = spec["beam"], spec["energy"]
    tx, ty = np.array(spec["x"], dtype=float), np.array(spec["y"], dtype=float)   # (..., 3): beta, alpha, emittance
    vec = tx.ndim == 2
    kw = dict(beta_x=E.t(tx[..., 0]), alpha_x=E.t(tx[..., 1]), emittance_x=E.t(tx[..., 2]),
              beta_y=E.t(ty[..., 0]), alpha_y=E.t(ty[..., 1]), emittance_y=E.t(ty[..., 2]), energy=E.t(En),
              dtype=torch.float64)
    if spec.get("scalar_y"):          # mixing scalar and vectorised arguments
        kw.update(beta_y=E.t(ty[0, 0]), alpha_y=E.t(ty[0, 1]), emittance_y=E.t(ty[0, 2]))
        ty = np.broadcast_to(ty[0], ty.shape)
    if bt == "ParameterBeam":
        b = cheetah.ParameterBeam.from_twiss(**kw)
        zb = za = lambda a: TS * 1e-9 * (1 + a * a)      # noqa: E731
    else:
        with torch.random.fork_rng():
            torch.manual_seed(int(spec["torch_seed"]))
            b = cheetah.ParticleBeam.from_twiss(num_particles=N_SAMPLE, **kw)
        zb = lambda a: 8.0 / np.sqrt(N_SAMPLE)                             # noqa: E731
        za = lambda a: 8.0 * np.sqrt(1 + a * a) / np.sqrt(N_SAMPLE)       # noqa: E731
    items = []
    for pl, tw in (("x", tx), ("y", ty)):
        for idx in (range(tw.shape[0]) if vec else [None]):
            beta, alpha, emit = (float(v) for v in (tw[idx] if vec else tw))
            got = twiss_reported(b, pl, idx)
            made = f"from_twiss(beta_{pl}={beta!r}, alpha_{pl}={alpha!r}, emittance_{pl}={emit!r})"
            # clause: a beam created from Twiss parameters reports the same beta, alpha and emittance back
            if not abs(got["emit"] / emit - 1) <= zb(alpha):
                items.append(("emittance", pl, f"{made} reports emittance_{pl} = {got['emit']!r}"))
            if not abs(got["beta"] / beta - 1) <= zb(alpha):
                items.append(("beta", pl, f"{made} reports beta_{pl} = {got['beta']!r}"))
            if not abs(got["alpha"] - alpha) <= za(alpha):
                items.append(("alpha", pl, f"{made} reports alpha_{pl} = {got['alpha']!r}"))
    return first_merged(items, ["emittance", "beta", "alpha"])


def t2_examine(rep, spec, do_shrink=True) -> None:
    for obs, text in guarded(t2_case, spec):
        sp = spec
        if do_shrink and np.array(spec["x"]).ndim == 2:      # is the failure specific to vectorised creation?
            for k in range(len(spec["x"])):
                one = dict(spec, x=spec["x"][k], y=spec["y"][0 if spec.get("scalar_y") else k], scalar_y=False)
                hit = [t for o, t in guarded(t2_case, one) if o == obs]
                if hit:
                    sp, text = one, hit[0]
                    break
        cfg = spec["beam"] + ("|vectorised" if np.array(sp["x"]).ndim == 2 else "")
        rep.fail("falsifier", f"C17|from_twiss|{cfg}|{obs}", f"{cfg}: {text}", {"part": "T2", **sp})


def t2(ctx, n_param: int, n_part: int) -> None:
    rep, rng = ctx.report, ctx.rng
    for i in range(n_param + n_part):
        bt = "ParameterBeam" if i < n_param else "ParticleBeam"
        vec = rng.random() < 0.3
        B = int(rng.integers(2, 4))
        x = [list(gen_twiss(rng)) for _ in range(B)] if vec else list(gen_twiss(rng))
        y = [list(gen_twiss(rng)) for _ in range(B)] if vec else list(gen_twiss(rng))
        spec = {"beam": bt, "energy": E.energy(rng), "x": x, "y": y, "scalar_y": bool(vec and rng.random() < 0.4),
                "torch_seed": int(rng.integers(2 ** 31))}
        rep.fals_cases += 1
        rep.count(f"T2:{bt}:{'vectorised' if vec else 'scalar'}")
        a = np.array(x)[..., 1].reshape(-1)[0]
        rep.case(("T2", bt, vec, "alpha0" if a == 0 else ("alpha+" if a > 0 else "alpha-"), i), {"part": "T2", "beam": bt, "x": x})
        t2_examine(rep, spec)


# ------------------------------------------------------------------------------------------------
# T3: transport
# ------------------------------------------------------------------------------------------------
def m_plane(L: float, k: float) -> np.ndarray:
    """textbook 2x2 matrix of a thick quadrupole plane with focusing strength k (k=0: drift)"""
    if k == 0.0 or L == 0.0:
        return np.array([[1.0, L], [0.0, 1.0]])
    if k > 0:
        w = np.sqrt(k)
        return np.array([[np.cos(w * L), np.sin(w * L) / w], [-w * np.sin(w * L), np.cos(w * L)]])
    w = np.sqrt(-k)
    return np.array([[np.cosh(w * L), np.sinh(w * L) / w], [w * np.sinh(w * L), np.cosh(w * L)]])


def law(M, beta, alpha):
    gamma = (1 + alpha * alpha) / beta
    b1 = M[0, 0] ** 2 * beta - 2 * M[0, 0] * M[0, 1] * alpha + M[0, 1] ** 2 * gamma
    a1 = -M[0, 0] * M[1, 0] * beta + (M[0, 0] * M[1, 1] + M[0, 1] * M[1, 0]) * alpha - M[0, 1] * M[1, 1] * gamma
    Tb = M[0, 0] ** 2 * beta + 2 * abs(M[0, 0] * M[0, 1] * alpha) + M[0, 1] ** 2 * gamma
    Ta = abs(M[0, 0] * M[1, 0]) * beta + (abs(M[0, 0] * M[1, 1]) + abs(M[0, 1] * M[1, 0])) * abs(alpha) + abs(M[0, 1] * M[1, 1]) * gamma
    return float(b1), float(a1), float(Tb), float(Ta)


def t3_case(spec: dict, bt: str):
    """-> [(observable, text)] for one beam type"""
    recs, En = spec["records"], spec["energy"]
    P = np.array(spec["particles"], dtype=float)
    if bt == "ParticleBeam":
        b0 = LT.particle_beam(P, En, survival=np.array(spec["weights"], dtype=float))
    else:
        b0 = LT.parameter_beam_from(P, En)
    b1 = E.build(recs[0]).track(b0) if len(recs) == 1 else LT.build_segment(recs).track(b0)
    items = []
    for pl in PLANES:
        # two admissible oracles: a switched-off quadrupole is a drift, or (cheetah's documented substitution "avoid
        # division by zero") a quadrupole with k1 = 1e-12; they differ by ~1e-12*L*beta
        Ms = []
        for k_off in (0.0, 1e-12):
            M = np.eye(2)
            for r in recs:
                k1 = 0.0 if r["cls"] == "Drift" else (r["k1"] if r["k1"] != 0.0 else k_off)
                M = m_plane(r["L"], k1 if pl == "x" else -k1) @ M
            Ms.append(M)
        t0, t1_ = twiss_reported(b0, pl), twiss_reported(b1, pl)
        c0, c1 = cond_of(t0), cond_of(t1_)
        if not (c0 < 1e6 and c1 < 1e6):
            continue
        # clause: Twiss parameters transport through drifts and upright quadrupoles by the standard matrix law
        laws = [law(M, t0["beta"], t0["alpha"]) for M in Ms]
        bw, aw, Tb, Ta = laws[0]
        if not abs(t1_["emit"] / t0["emit"] - 1) <= TS * 1e-9 * (c0 + c1):
            items.append(("emittance", pl, f"emittance_{pl} {t0['emit']!r} -> {t1_['emit']!r} (must be conserved)"))
        if not min(abs(t1_["beta"] - lw[0]) for lw in laws) <= TS * 1e-9 * (c0 * Tb + c1 * abs(bw)):
            items.append(("beta", pl, f"beta_{pl} {t0['beta']!r} -> {t1_['beta']!r}, matrix law gives {bw!r}"))
        if not min(abs(t1_["alpha"] - lw[1]) for lw in laws) <= TS * 1e-9 * (c0 * Ta + c1 * (abs(aw) + 1)):
            items.append(("alpha", pl, f"alpha_{pl} {t0['alpha']!r} -> {t1_['alpha']!r}, matrix law gives {aw!r}"))
    return first_merged(items, ["emittance", "beta", "alpha"])


def t3_label(recs) -> str:
    def nm(r):
        if r["cls"] == "Drift":
            return "Drift" + ("(L=0)" if r["L"] == 0 else "")
        return "Quadrupole(" + ("k1=0" if r["k1"] == 0 else ("k1>0" if r["k1"] > 0 else "k1<0")) + (",L=0" if r["L"] == 0 else "") + ")"
    return ",".join(nm(r) for r in recs)


def t3_both(spec: dict):
    """-> [(beam types, observable, text)]: a failure common to both beam types is one finding"""
    res = {bt: guarded(t3_case, spec, bt) for bt in spec["beams"]}
    out, used = [], set()
    for bt, bad in res.items():
        for obs, text in bad:
            if (obs, bt) in used:
                continue
            both = [b2 for b2, bad2 in res.items() if any(o2 == obs for o2, _ in bad2)]
            for b2 in both:
                used.add((obs, b2))
            out.append(("ParticleBeam+ParameterBeam" if len(both) > 1 else bt, obs, text))
    return out


def t3_examine(rep, spec, do_shrink=True) -> None:
    for bts, obs, text in t3_both(spec):
        sp = spec
        if do_shrink:
            def fails(cand, _o=obs, _b=bts):
                return any(o == _o and b == _b for b, o, _ in t3_both(dict(spec, records=cand)))
            # a plain 1 m drift shows it (defect independent of the element)?  otherwise drop elements greedily
            plain = [{"cls": "Drift", "L": 1.0, "method": "cheetah", "name": "el0"}]
            small = plain if fails(plain) else (LT.shrink(spec["records"], fails) if len(spec["records"]) > 1 else spec["records"])
            sp = dict(spec, records=small)
            text = next((t for b, o, t in t3_both(sp) if o == obs and b == bts), text)
        if do_shrink and "ParticleBeam" in bts and not np.all(np.array(sp["weights"]) == 1.0):
            ones = dict(sp, weights=[1.0] * len(sp["weights"]))
            hit = [t for b, o, t in t3_both(ones) if o == obs and b == bts]
            if hit:
                sp, text = ones, hit[0]
        pred = "" if np.all(np.array(sp["weights"]) == 1.0) or "ParticleBeam" not in bts else "|non-trivial survival weights"
        rep.fail("falsifier", f"C17|transport|{t3_label(sp['records'])}|{bts}{pred}|{obs}",
                 f"[{t3_label(sp['records'])}] {bts}{pred.replace('|', ', ')}: {text}", {"part": "T3", **sp})


def t3(ctx, n: int) -> None:
    rep, rng = ctx.report, ctx.rng
    for _ in range(n):
        m = int(E.pick(rng, 1, 1, 2, 3, 4))
        recs = []
        for i in range(m):
            if rng.random() < 0.4:
                r = E.gen_params(rng, "Drift")
            else:
                r = E.gen_params(rng, "Quadrupole", force={"mx": 0.0, "my": 0.0, "tilt": 0.0})
            r["name"] = f"el{i}"
            recs.append(r)
        npart = int(rng.integers(8, 40))
        P = gen_particles(rng, npart, offaxis=float(E.pick(rng, 0.0, 0.5, 3.0)), corr=float(E.pick(rng, 0.0, 0.3, 1.0)))
        wkind, w = gen_weights(rng, npart)
        beams = ["ParticleBeam", "ParameterBeam"]
        spec = {"records": recs, "beams": beams, "energy": E.energy(rng), "particles": P.tolist(), "weights": w.tolist()}
        rep.fals_cases += len(beams)
        rep.count("T3:weights:" + wkind)
        for r in recs:
            rep.count("T3:el:" + t3_label([r]))
        rep.case(("T3", t3_label(recs), wkind), {"part": "T3", "lattice": t3_label(recs), "beams": beams, "weights": wkind})
        t3_examine(rep, spec)


# ------------------------------------------------------------------------------------------------
# T4: particle-beam statistics
# ------------------------------------------------------------------------------------------------
FAMILIES = {"mu_*": ["mu_" + c for c in NAMES], "sigma_*": ["sigma_" + c for c in NAMES],
            "sigma_xpx/sigma_ypy": ["sigma_xpx", "sigma_ypy"]}


def merge_families(wrong: dict) -> dict:
    """when every member of a family (all six sigma_*, ...) is wrong, report the family once: they share one
    implementation"""
    wrong = dict(wrong)
    for fam, members in FAMILIES.items():
        if all(m in wrong for m in members):
            txt = wrong[members[0]]
            for m in members:
                del wrong[m]
            wrong[fam] = txt + f" (likewise {', '.join(members[1:])})"
    return wrong


def stats_of(b, index=None) -> dict:
    s = {}
    for nm in NAMES:
        s["mu_" + nm] = getf(b, "mu_" + nm, index)
        s["sigma_" + nm] = getf(b, "sigma_" + nm, index)
    s["sigma_xpx"] = getf(b, "sigma_xpx", index)
    s["sigma_ypy"] = getf(b, "sigma_ypy", index)
    return s


def expected_after(s0: dict, a, c) -> dict:
    """statistics after x_j -> a_j*x_j + c_j"""
    e = {}
    for j, nm in enumerate(NAMES):
        e["mu_" + nm] = a[j] * s0["mu_" + nm] + c[j]
        e["sigma_" + nm] = abs(a[j]) * s0["sigma_" + nm]
    e["sigma_xpx"] = a[0] * a[1] * s0["sigma_xpx"]
    e["sigma_ypy"] = a[2] * a[3] * s0["sigma_ypy"]
    return e


def rel_level(P: np.ndarray, sig: np.ndarray) -> float:
    """round-off level of the statistics of P relative to their natural scale (offset / size), with head-room"""
    mx = np.abs(P[:, :6]).max(axis=0)
    return TS * (1e-9 + 1e-12 * float(np.max(mx / np.maximum(sig, 1e-300))))


def stat_tolerances(rel: float, sig: np.ndarray) -> dict:
    tol = {}
    for j, nm in enumerate(NAMES):
        tol["mu_" + nm] = rel * sig[j]
        tol["sigma_" + nm] = rel * sig[j]
    tol["sigma_xpx"] = rel * sig[0] * sig[1]
    tol["sigma_ypy"] = rel * sig[2] * sig[3]
    return tol


def t4_case(spec: dict) -> dict:
    """-> {stat or family: text}"""
    P, w = np.array(spec["particles"], dtype=float), np.array(spec["weights"], dtype=float)
    En, op = spec["energy"], spec["op"]
    n = P.shape[0]
    q = np.linspace(0.5, 1.5, n) * 1e-12 / n
    b0 = pbeam(P, En, w, q)
    s0 = stats_of(b0)
    wrong = {}
    if op == "numpy":
        # clause: reduce to the ordinary unbiased sample statistics when all particles survive
        sig = P[:, :6].std(axis=0, ddof=1)
        want = {}
        for j, nm in enumerate(NAMES):
            want["mu_" + nm] = float(P[:, j].mean())
            want["sigma_" + nm] = float(sig[j])
        want["sigma_xpx"] = float(np.cov(P[:, 0], P[:, 1])[0, 1])
        want["sigma_ypy"] = float(np.cov(P[:, 2], P[:, 3])[0, 1])
        tol = stat_tolerances(rel_level(P, sig), sig)
        for nm in want:
            if not abs(s0[nm] - want[nm]) <= tol[nm]:
                wrong[nm] = f"{nm} = {s0[nm]!r}, numpy gives {want[nm]!r} ({n} particles, all survive)"
        return merge_families(wrong)
    sig = np.array([s0["sigma_" + nm] for nm in NAMES])
    if not np.all(np.isfinite(sig)) or np.any(sig <= 0):
        return {"sigma_*": f"non-finite or zero sigma of a regular beam: {sig.tolist()}"}
    if op == "reorder":
        # clause: invariant under reordering particles
        perm = np.array(spec["perm"], dtype=int)
        b1 = pbeam(P[perm], En, w[perm], q[perm])
        want, P1, sig1 = s0, P, sig
    else:
        # clause: translate and scale with the coordinates
        a, c = np.array(spec["scale"], dtype=float), np.array(spec["shift"], dtype=float)
        P1 = P.copy()
        P1[:, :6] = P[:, :6] * a + c
        b1 = pbeam(P1, En, w, q)
        want = expected_after(s0, a, c)
        sig1 = sig * np.abs(a)
    s1 = stats_of(b1)
    tol = stat_tolerances(rel_level(P, sig) + rel_level(P1, sig1), sig1)
    for nm in want:
        if not abs(s1[nm] - want[nm]) <= tol[nm]:
            wrong[nm] = f"{nm}: {s0[nm]!r} -> {s1[nm]!r} after {op}, expected {float(want[nm])!r}"
    return merge_families(wrong)


def t4_safe(spec) -> dict:
    try:
        return t4_case(spec)
    except Exception as ex:
        return {"exception": f"{type(ex).__name__}: {str(ex)[:200]}"}


def t4_examine(rep, spec, do_shrink=True) -> None:
    for obs, text in t4_safe(spec).items():
        sp = {k: v for k, v in spec.items() if k != "_pred"}
        pred = spec.get("_pred")
        if do_shrink:
            # (a) survival weights essential?  (b) affine = translate or scale alone?  (c) already wrong against numpy?
            if not np.all(np.array(sp["weights"]) == 1.0):
                ones = dict(sp, weights=[1.0] * len(sp["weights"]))
                if obs in t4_safe(ones):
                    sp = ones
            if sp["op"] == "affine":
                for simpler in (dict(sp, op="translate", scale=[1.0] * 6), dict(sp, op="scale", shift=[0.0] * 6)):
                    if obs in t4_safe(simpler):
                        sp = simpler
                        break
            if sp["op"] != "numpy" and np.all(np.array(sp["weights"]) == 1.0):
                plain = {"op": "numpy", "particles": sp["particles"], "weights": sp["weights"], "energy": sp["energy"]}
                if obs in t4_safe(plain):
                    sp = plain
            text = t4_safe(sp).get(obs, text)
        if pred is None or do_shrink:
            pred = "all survive" if np.all(np.array(sp["weights"]) == 1.0) else "non-trivial survival weights"
        rep.fail("falsifier", f"C17|ParticleBeam.{obs}|{sp['op']}|{pred}", f"{sp['op']} ({pred}): {text}",
                 {"part": "T4", **sp, "_pred": pred})


def t4_vector_case(spec: dict) -> dict:
    """clause (vectorised beams): statistic of sample k of a vectorised beam == statistic of that sample on its own"""
    Ps, ws, En = np.array(spec["particles"], dtype=float), np.array(spec["weights"], dtype=float), spec["energy"]
    vb = pbeam(Ps, En, ws)
    wrong = {}
    for k in range(Ps.shape[0]):
        wk = ws[k] if ws.ndim == 2 else ws
        one = stats_of(pbeam(Ps[k], En, wk))
        sig = np.array([one["sigma_" + nm] for nm in NAMES])
        tol = stat_tolerances(rel_level(Ps[k], sig), sig)
        got = stats_of(vb, k)
        for nm in one:
            if nm not in wrong and not abs(got[nm] - one[nm]) <= tol[nm]:
                wrong[nm] = f"{nm} of sample {k} in a vectorised beam {got[nm]!r}, on its own {one[nm]!r}"
    return merge_families(wrong)


def t4v_examine(rep, vspec) -> None:
    try:
        bad = t4_vector_case(vspec)
    except Exception as ex:
        bad = {"exception": f"{type(ex).__name__}: {str(ex)[:200]}"}
    for obs, text in bad.items():
        rep.fail("falsifier", f"C17|ParticleBeam.{obs}|vectorised beam", text, {**vspec, "part": "T4v"})


def t4(ctx, n: int) -> None:
    rep, rng = ctx.report, ctx.rng
    for _ in range(n):
        npart = int(rng.integers(3, 50))
        P = gen_particles(rng, npart, offaxis=float(E.pick(rng, 0.0, 0.5, 5.0)), corr=float(E.pick(rng, 0.0, 0.3, 1.0)))
        En = E.energy(rng)
        op = E.pick(rng, "reorder", "translate", "scale", "affine", "numpy", "vector")
        wkind, w = gen_weights(rng, npart)
        if op == "numpy":
            wkind, w = "ones", np.ones(npart)
        sig0 = P[:, :6].std(axis=0, ddof=1)
        spec = {"op": op, "particles": P.tolist(), "weights": w.tolist(), "energy": En}
        if op == "reorder":
            spec["perm"] = (rng.permutation(npart) if rng.random() < 0.8 else np.arange(npart)[::-1]).tolist()
        elif op in ("translate", "scale", "affine"):
            a = np.ones(6)
            c = np.zeros(6)
            if op in ("scale", "affine"):
                a = np.array([float(E.pick(rng, 2.0, -1.0, 0.5, -3.0, rng.uniform(0.1, 10), -rng.uniform(0.1, 10), 1.0)) for _ in range(6)])
            if op in ("translate", "affine"):
                c = rng.normal(size=6) * float(E.pick(rng, 1.0, 10.0, 100.0)) * sig0
            spec["scale"], spec["shift"] = a.tolist(), c.tolist()
        rep.fals_cases += 1
        rep.count("T4:" + op)
        rep.count("T4:weights:" + wkind)
        rep.case(("T4", op, wkind, npart), {"part": "T4", "op": op, "weights": wkind, "n": npart})
        if op == "vector":
            B = int(rng.integers(2, 4))
            Ps = np.stack([P] + [gen_particles(rng, npart) for _ in range(B - 1)])
            ws = np.stack([w] + [gen_weights(rng, npart)[1] for _ in range(B - 1)]) if rng.random() < 0.6 else w
            t4v_examine(rep, {"particles": Ps.tolist(), "weights": ws.tolist(), "energy": En})
        else:
            t4_examine(rep, spec)


# ------------------------------------------------------------------------------------------------
def run(ctx) -> None:
    # small tensors only: intra-op threading costs far more than it gives (x100 on a loaded machine)
    nthreads = torch.get_num_threads()
    torch.set_num_threads(1)
    try:
        _run(ctx)
    finally:
        torch.set_num_threads(nthreads)


def _run(ctx) -> None:
    t1(ctx, ctx.n(300, 6000))
    t2(ctx, ctx.n(100, 2000), ctx.n(40, 600))
    t3(ctx, ctx.n(150, 3000))
    t4(ctx, ctx.n(400, 8000))


def corpus_case(ctx, r: dict) -> None:
    rep = ctx.report
    rep.fals_cases += 1
    part = r.get("part")
    spec = {k: v for k, v in r.items() if k not in ("part", "more_cases")}
    if part == "T1":
        t1_examine(rep, spec, do_shrink=False)
    elif part == "T2":
        t2_examine(rep, spec, do_shrink=False)
    elif part == "T3":
        t3_examine(rep, spec, do_shrink=False)
    elif part == "T4":
        t4_examine(rep, spec, do_shrink=False)
    elif part == "T4v":
        t4v_examine(rep, spec)
