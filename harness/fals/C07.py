"""C07 falsifier — Bmad-X tracking agrees with the linear map to first order and is an exact flow.

Clauses (each is one `kind` of case):
  jacobian  d(track_bmadx)/d(particle) at the element's design orbit (autograd, one-particle beam) == transfer_map of
            the same element with tracking_method="cheetah"; the design orbit is mapped onto itself; the same Jacobian
            by central finite differences from ONE 13-particle beam (independent of autograd, vectorised path).
  flow      track(piece 1) then track(piece 2) == track(whole): Drift; Quadrupole (any num_steps in the pieces and the
            whole, same k1/tilt/misalignment); Dipole body (fringe_at="neither") and Dipole with the entrance fringe
            on piece 1 and the exit fringe on piece 2.
  straight  Bmad-X Drift == straight-line motion (direction cosines + time of flight, mpmath 40 digits).
  bend      Dipole body (fringe_at="neither", any tilt) == motion on a circle in a uniform field between the entrance
            and exit reference planes (circle/line intersection in mpmath; validated once against a DOP853 integration
            of the Lorentz-force ODE to 1e-13).
  tdc0      TransverseDeflectingCavity(voltage=0) == Bmad-X Drift of the same length (any tilt, misalignment, phase,
            frequency).
"""
from __future__ import annotations

import copy
import math
from typing import Optional

import mpmath as mp
import numpy as np
import torch

import cheetah
import elements as E
import lattices as LT

META = {
    "rule": "case = (clause in {jacobian, flow, straight, bend, tdc0}) x (Drift | Quadrupole | Dipole | RBend | TDC "
            "parameter record from harness/elements.py incl. exact zeros, both signs, tilt/misalignment/edges/fringe "
            "on and off, num_steps in {1,2,5}, fringe_at in {both, neither, entrance, exit}) x reference energy "
            "(2 MeV .. 20 GeV) x particles (correlated, off-axis, |delta| up to 5 %); distinct = distinct (clause, class, "
            "sign/zero pattern of every parameter, fringe_at, num_steps)",
    "assumptions": [
        "Jacobian vs transfer_map: 1e-9 * max(1, max|R|) per entry (clean tree: <= 2e-12; the linear code's k1==0 -> 1e-12 "
        "guard moves entries by ~1e-12); finite differences: 1e-6",
        "flow (drift, quadrupole) / straight line / TDC(0 V): 1e-9 relative to max(|value|, reference beam size) per "
        "coordinate (clean tree: <= 4e-12); bend body and bend flow: 1e-8 (clean tree: <= 3e-11 - the bend formulas "
        "carry an absolute round-off of ~4e-16 in px, which is 2e-11 of the reference px size 2e-5)",
        "Bmad-X Dipole ignores k1 (documented in its docstring): the Jacobian is compared with the linear map at k1 = 0",
        "a misaligned quadrupole's design orbit is its own axis (x, y) = misalignment",
        "quadrupole flow cases are restricted to |k1| L^2 <= 25 (beyond that the beam leaves any paraxial region)",
    ],
}

COORD = ["x", "px", "y", "py", "tau", "delta"]
REF = np.array([2e-4, 2e-5, 2e-4, 2e-5, 1e-4, 1e-3])
STATS: dict = {}        # clause -> worst (error / tolerance) seen; diagnostics only


def _stat(label: str, ratio: float) -> None:
    if ratio == ratio:
        STATS[label] = max(STATS.get(label, 0.0), float(ratio))


# ------------------------------------------------------------------------------------------------
# construction / tracking helpers
# ------------------------------------------------------------------------------------------------
def build(p: dict, **over):
    q = dict(p)
    extra = {}
    fa = q.pop("fringe_at", None)
    if fa is not None and q["cls"] in ("Dipole", "RBend"):
        extra["fringe_at"] = fa
    q.update(over)
    return E.build(q, **extra)


def track_np(el, P: np.ndarray, En: float) -> np.ndarray:
    b = LT.particle_beam(np.asarray(P, dtype=float).reshape(-1, 7), En)
    out = el.track(b)
    return out.particles.detach().numpy().reshape(-1, 7)[:, :6].copy()


def cls_tag(p: dict) -> str:
    return f"{p['cls']}(bmadx)"


def linear_counterpart(p: dict) -> dict:
    """the record whose `transfer_map` (method "cheetah") is the first-order statement for the Bmad-X record `p`"""
    q = dict(p, method="cheetah")
    fa = q.pop("fringe_at", None)
    if p["cls"] in ("Dipole", "RBend"):
        q["k1"] = 0.0                       # Bmad-X bends have no gradient (documented)
        if fa in ("neither", "exit"):       # no entrance fringe: the linear edge map is the identity for e = fint = 0
            q["e1"], q["fint"] = 0.0, 0.0
        if fa in ("neither", "entrance"):
            q["e2"], q["fintx"] = 0.0, 0.0
    return q


def compare(out: np.ndarray, ref: np.ndarray, rtol: float, label: str):
    """(failure kind, coordinate name, observed, expected) of the first coordinate (canonical order) that differs, or None.
    scale of a coordinate = max(largest |value|, reference beam size); x/y and px/py share their scale (tilt mixes)"""
    out, ref = np.asarray(out, dtype=float).reshape(-1, 6), np.asarray(ref, dtype=float).reshape(-1, 6)
    sc = np.maximum(np.max(np.abs(ref), axis=0), REF)
    sc[0] = sc[2] = max(sc[0], sc[2])
    sc[1] = sc[3] = max(sc[1], sc[3])
    for j in range(6):
        col = out[:, j]
        if not np.all(np.isfinite(col)):
            i = int(np.argmax(~np.isfinite(col)))
            return "non-finite", "track", float(col[i]), float(ref[i, j])
        d = np.abs(col - ref[:, j]) / (rtol * sc[j])
        _stat(label, float(d.max()))
    for j in range(6):
        d = np.abs(out[:, j] - ref[:, j]) / (rtol * sc[j])
        if d.max() > 1.0:
            i = int(np.argmax(d))
            return "differs", COORD[j], float(out[i, j]), float(ref[i, j])
    return None


# ------------------------------------------------------------------------------------------------
# oracles (mpmath, 40 digits)
# ------------------------------------------------------------------------------------------------
def _kin(En: float, d):
    m = mp.mpf(E.MC2)
    E0 = mp.mpf(En)
    p0 = mp.sqrt(E0 ** 2 - m ** 2)
    Ep = E0 + d * p0
    p = mp.sqrt(Ep ** 2 - m ** 2)
    return p / p0, p / Ep, p0 / E0          # P/P0, beta, beta0


def oracle_drift(L: float, En: float, v) -> list:
    """straight line: direction cosines (Px, Py, Pl) = momentum / |momentum|; the plane s = L is reached after the
    path L / Pl; tau = c (t - t_ref)"""
    mp.mp.dps = 40
    x, px, y, py, tau, d = [mp.mpf(float(a)) for a in v[:6]]
    P, beta, beta0 = _kin(En, d)
    Px, Py = px / P, py / P
    Pl = mp.sqrt(1 - Px ** 2 - Py ** 2)
    L = mp.mpf(L)
    return [float(a) for a in (x + L * Px / Pl, px, y + L * Py / Pl, py, tau + L / (Pl * beta) - L / beta0, d)]


def oracle_bend(L: float, angle: float, tilt: float, En: float, v) -> list:
    """uniform vertical field, curvature g = angle / L for the reference momentum: in the bend plane the particle moves
    on a circle of radius (in-plane momentum / p0) / g, uniformly along the field; from the entrance plane to the
    exit plane (the entrance plane rotated by `angle` about the reference centre of curvature)."""
    mp.mp.dps = 40
    x, px, y, py, tau, d = [mp.mpf(float(a)) for a in v[:6]]
    P, beta, beta0 = _kin(En, d)
    c, s = mp.cos(mp.mpf(tilt)), mp.sin(mp.mpf(tilt))
    xe, ye, pxe, pye = x * c + y * s, -x * s + y * c, px * c + py * s, -px * s + py * c
    pn = mp.sqrt(P ** 2 - pye ** 2)                 # in-plane momentum / p0
    phi1 = mp.asin(pxe / pn)
    L, th = mp.mpf(L), mp.mpf(angle)
    rho = L / th
    rp = rho * pn
    Ox, Oz = -rho, mp.mpf(0)                        # reference centre of curvature (g > 0 bends towards -x)
    Cx, Cz = xe - rp * mp.cos(phi1), rp * mp.sin(phi1)
    shx, shz = -mp.sin(th), mp.cos(th)              # exit frame: s direction
    xhx, xhz = mp.cos(th), mp.sin(th)               # exit frame: x direction
    psi = phi1 + th + mp.asin(-((Cx - Ox) * shx + (Cz - Oz) * shz) / rp)   # turning angle up to the exit plane
    posx, posz = Cx + rp * mp.cos(psi - phi1), Cz + rp * mp.sin(psi - phi1)
    x2 = (posx - Ox) * xhx + (posz - Oz) * xhz - rho
    pxf = pn * mp.sin(th - psi + phi1)
    arc = rp * psi
    yf = ye + pye * arc / pn
    tauf = tau + (arc * P / pn) / beta - L / beta0
    return [float(a) for a in (x2 * c - yf * s, pxf * c - pye * s, x2 * s + yf * c, pxf * s + pye * c, tauf, d)]


# ------------------------------------------------------------------------------------------------
# the checks: each takes a JSON-able case dict and returns None or (failure kind, observable, human line)
# ------------------------------------------------------------------------------------------------
def axis_point(p: dict) -> list:
    return [float(p.get("mx", 0.0)), 0.0, float(p.get("my", 0.0)), 0.0, 0.0, 0.0]


def linear_map(p: dict, En: float) -> np.ndarray:
    return np.array(E.real_map(build(linear_counterpart(p)), En)).reshape(7, 7)


def jac_entry(i: int, j: int) -> str:
    return f"J[{COORD[i]},{COORD[j]}]"


def _cmp_jac(J: np.ndarray, R: np.ndarray, tol_rel: float, label: str):
    scale = max(1.0, float(np.max(np.abs(R[:6, :6]))))
    if not np.all(np.isfinite(J)):
        i, j = divmod(int(np.argmax(~np.isfinite(J).reshape(-1))), 6)
        return "non-finite", jac_entry(i, j), f"{jac_entry(i, j)} = {J[i, j]!r}, transfer_map gives {R[i, j]!r}"
    d = np.abs(J - R[:6, :6]) / (tol_rel * scale)
    _stat(label, float(d.max()))
    if d.max() > 1.0:
        i, j = divmod(int(np.argmax((d > 1.0).reshape(-1))), 6)
        return "differs", jac_entry(i, j), f"{jac_entry(i, j)} = {J[i, j]!r}, transfer_map gives {R[i, j]!r}"
    return None


# clause: the Jacobian of Bmad-X tracking about the design orbit equals the element's linear transfer map
def check_jacobian(c: dict):
    p, En = c["params"], c["energy"]
    el = build(p)
    R = linear_map(p, En)
    v0 = torch.tensor(axis_point(p), dtype=torch.float64)
    q = torch.tensor([1e-12], dtype=torch.float64)
    en = torch.tensor(En, dtype=torch.float64)

    def f(v):
        P = torch.cat([v, torch.ones(1, dtype=torch.float64)]).unsqueeze(0)
        return el.track(cheetah.ParticleBeam(P, en, particle_charges=q, dtype=torch.float64)).particles[0, :6]
    f0 = f(v0).detach().numpy()
    if not np.all(np.isfinite(f0)):
        j = int(np.argmax(~np.isfinite(f0)))
        return "non-finite", "track", f"the design orbit is mapped to {COORD[j]} = {f0[j]!r}"
    J = torch.autograd.functional.jacobian(f, v0).detach().numpy()
    r = _cmp_jac(J, R, 1e-9, "jacobian")
    if r is not None:
        return ("non-finite-gradient",) + r[1:] if r[0] == "non-finite" else r
    exp0 = (R @ np.array(axis_point(p) + [1.0]))[:6]
    scale = max(1.0, float(np.max(np.abs(R[:6, :6]))))
    d = np.abs(f0 - exp0) / (1e-11 * scale)
    _stat("jacobian:orbit", float(d.max()))
    if d.max() > 1.0:
        j = int(np.argmax(d > 1.0))
        return "differs", "orbit:" + COORD[j], (f"design orbit is mapped to {COORD[j]} = {f0[j]!r}, the linear map gives "
                                                  f"{exp0[j]!r}")
    return None


FD_H = np.array([1e-6, 1e-6, 1e-6, 1e-6, 1e-6, 1e-5])


# clause: as above for the function itself: central differences from ONE 13-particle beam must give the same Jacobian
# (so both methods agree for small amplitudes and energy offsets); reported only when autograd agreed with the map
def check_fd(c: dict):
    p, En = c["params"], c["energy"]
    el = build(p)
    R = linear_map(p, En)
    v0 = np.array(axis_point(p))
    P = np.ones((13, 7))
    P[:, :6] = v0
    for j in range(6):
        P[1 + 2 * j, j] += FD_H[j]
        P[2 + 2 * j, j] -= FD_H[j]
    out = track_np(el, P, En)
    if not np.all(np.isfinite(out)):
        j = int(np.argmax(~np.isfinite(out).all(axis=0)))
        return "non-finite", "track", f"particles next to the design orbit are mapped to {COORD[j]} = nan"
    J = np.stack([(out[1 + 2 * j] - out[2 + 2 * j]) / (2 * FD_H[j]) for j in range(6)], axis=1)
    r = _cmp_jac(J, R, 1e-6, "fd")
    if r is not None:
        return "fd-" + r[0], r[1], "finite differences over a 13-particle beam: " + r[2]
    return None


def check_jacobian_both(c: dict):
    return check_jacobian(c) or check_fd(c)


def pieces_of(c: dict):
    """(records of the two pieces, record of the whole) for a flow case"""
    p, f = c["params"], c["frac"]
    L1 = p["L"] * f
    L2 = p["L"] - L1
    a, b, w = dict(p, L=L1), dict(p, L=L2), dict(p)
    if p["cls"] == "Quadrupole":
        a["num_steps"], b["num_steps"], w["num_steps"] = c["steps"]
    if p["cls"] == "Dipole":
        a1 = p["angle"] * f
        a["angle"], b["angle"] = a1, p["angle"] - a1
        fa = p.get("fringe_at", "both")
        a["fringe_at"] = "entrance" if fa in ("both", "entrance") else "neither"
        b["fringe_at"] = "exit" if fa in ("both", "exit") else "neither"
    return a, b, w


# clause: tracking through two consecutive pieces of an element equals tracking through the whole
def check_flow(c: dict):
    En, P = c["energy"], np.array(c["particles"], dtype=float)
    a, b, w = pieces_of(c)
    whole = track_np(build(w), P, En)
    mid = track_np(build(a), P, En)
    Pm = np.ones((mid.shape[0], 7))
    Pm[:, :6] = mid
    two = track_np(build(b), Pm, En)
    if not np.all(np.isfinite(whole)):
        j = int(np.argmax(~np.isfinite(whole).all(axis=0)))
        return "non-finite", "track", f"tracking the whole element gives {COORD[j]} = nan"
    r = compare(two, whole, 1e-8 if c["params"]["cls"] == "Dipole" else 1e-9, "flow:" + c["params"]["cls"])
    if r is None:
        return None
    return r[0], r[1], f"pieces give {r[1]}: {r[2]!r}, the whole element gives {r[3]!r}"


# clause: the Bmad-X drift reproduces straight-line motion exactly
def check_straight(c: dict):
    p, En, P = c["params"], c["energy"], np.array(c["particles"], dtype=float)
    out = track_np(build(p), P, En)
    ref = np.array([oracle_drift(p["L"], En, v) for v in P])
    r = compare(out, ref, 1e-9, "straight")
    if r is None:
        return None
    return r[0], r[1], f"Bmad-X drift gives {r[1]} = {r[2]!r}, straight-line motion gives {r[3]!r}"


# clause: a bend body reproduces the exact motion in a uniform field
def check_bend(c: dict):
    p, En, P = c["params"], c["energy"], np.array(c["particles"], dtype=float)
    out = track_np(build(p, fringe_at="neither"), P, En)
    if p["angle"] == 0.0:
        ref = np.array([oracle_drift(p["L"], En, v) for v in P])
    else:
        ref = np.array([oracle_bend(p["L"], p["angle"], p["tilt"], En, v) for v in P])
    r = compare(out, ref, 1e-8, "bend")
    if r is None:
        return None
    return r[0], r[1], f"Bmad-X bend body gives {r[1]} = {r[2]!r}, motion on a circle in a uniform field gives {r[3]!r}"


# clause: a transverse deflecting cavity at zero voltage is exactly a Bmad-X drift
def check_tdc0(c: dict):
    p, En, P = c["params"], c["energy"], np.array(c["particles"], dtype=float)
    out = track_np(E.build(p), P, En)
    ref = track_np(cheetah.Drift(length=E.t(p["L"]), tracking_method="bmadx", dtype=torch.float64), P, En)
    e_out = float(E.build(p).track(LT.particle_beam(P, En)).energy)
    if not abs(e_out - En) <= 1e-12 * En:
        return "differs", "energy", f"TDC(0 V) changes the reference energy from {En!r} to {e_out!r}"
    r = compare(out, ref, 1e-9, "tdc0")
    if r is None:
        return None
    return r[0], r[1], f"TDC(0 V) gives {r[1]} = {r[2]!r}, the Bmad-X drift gives {r[3]!r}"


CHECKS: dict = {"jacobian": check_jacobian_both, "flow": check_flow, "straight": check_straight,
                "bend": check_bend, "tdc0": check_tdc0}


def run_check(c: dict):
    try:
        return CHECKS[c["kind"]](c)
    except Exception as ex:         # an exception on a valid configuration is a failure of the clause as well
        return "exception", type(ex).__name__, f"{type(ex).__name__}: {ex}"


# ------------------------------------------------------------------------------------------------
# shrinking: snap every nuisance parameter to its neutral value while the same kind of failure persists; the
# signature names what could not be removed
# ------------------------------------------------------------------------------------------------
NEUTRAL = [("tilt", 0.0), ("mx", 0.0), ("my", 0.0), ("e1", 0.0), ("e2", 0.0), ("gap", 0.0), ("fint", 0.0),
           ("fintx", 0.0), ("phase", 0.0)]


def candidates(c: dict):
    p = c["params"]
    cls = p["cls"]
    for k, val in NEUTRAL:
        if k in p and p[k] != val:
            yield {**c, "params": {**p, k: val}}
    if cls == "Dipole" and p.get("fringe_at", "both") != "neither" and c["kind"] in ("jacobian", "flow"):
        yield {**c, "params": {**p, "fringe_at": "neither"}}
    if cls == "Quadrupole":
        if p.get("num_steps", 1) != 1:
            yield {**c, "params": {**p, "num_steps": 1}}
        if c.get("steps") and tuple(c["steps"]) != (1, 1, 1):
            yield {**c, "steps": [1, 1, 1]}
        if p["k1"] not in (1.0, -1.0):
            yield {**c, "params": {**p, "k1": 1.0}}
            yield {**c, "params": {**p, "k1": -1.0}}
    if cls in ("Dipole", "RBend") and p["angle"] not in (0.1, -0.1, 0.0):
        yield {**c, "params": {**p, "angle": 0.1}}
        yield {**c, "params": {**p, "angle": -0.1}}
    if cls == "TransverseDeflectingCavity" and p.get("num_steps", 1) != 1:
        yield {**c, "params": {**p, "num_steps": 1}}
    if cls == "RBend":      # the same magnet written as a Dipole: is the failure RBend's own?
        yield {**c, "params": {**p, "cls": "Dipole", "e1": p["e1"] + p["angle"] / 2, "e2": p["e2"] + p["angle"] / 2,
                               "fringe_at": "both"}}
    if p.get("L", 1.0) != 1.0:
        yield {**c, "params": {**p, "L": 1.0}}
    if c.get("frac") is not None and c["frac"] not in (0.5, 0.0, 1.0):
        yield {**c, "frac": 0.5}
    if c["energy"] not in (1e8, 5e6):
        yield {**c, "energy": 1e8}
        yield {**c, "energy": 5e6}
    elif c["energy"] == 5e6:
        yield {**c, "energy": 1e8}
    if c.get("particles") is not None:
        P = c["particles"]
        if len(P) > 1:
            for row in P:
                yield {**c, "particles": [row]}
        else:
            for j in (5, 4, 0, 1, 2, 3):
                if P[0][j] != 0.0:
                    row = list(P[0])
                    row[j] = 0.0
                    yield {**c, "particles": [row]}


def shrink_case(c: dict, kind0: str, max_evals: int = 120) -> tuple[dict, tuple]:
    cur, res = c, run_check(c)
    evals = 0
    progress = True
    while progress and evals < max_evals:
        progress = False
        for cand in candidates(cur):
            evals += 1
            r = run_check(cand)
            if r is not None and r[0] == kind0:
                cur, res, progress = cand, r, True
                break
            if evals >= max_evals:
                break
    return cur, res


def predicate(c: dict) -> str:
    p = c["params"]
    cls = p["cls"]
    f = []
    if p.get("L") == 0.0:
        f.append("L==0")
    if cls in ("Dipole", "RBend"):
        if p["angle"] == 0.0:
            f.append("angle==0")
        elif p["angle"] == -0.1:
            f.append("angle<0")
        if p.get("k1", 0.0) != 0.0:
            f.append("k1!=0")
        if cls == "Dipole" and p.get("fringe_at", "both") != "neither" and c["kind"] in ("jacobian", "flow"):
            f.append("fringe")
        for k in ("e1", "e2"):
            if p.get(k, 0.0) != 0.0:
                f.append(k + "!=0")
        if p.get("gap", 0.0) != 0.0 and (p.get("fint", 0.0) != 0.0 or p.get("fintx", 0.0) != 0.0):
            f.append("fint*gap!=0")
    if cls == "Quadrupole":
        if p["k1"] == 0.0:
            f.append("k1==0")
        elif p["k1"] == -1.0:
            f.append("k1<0")
        if p.get("num_steps", 1) != 1 or (c.get("steps") and tuple(c["steps"]) != (1, 1, 1)):
            f.append("num_steps>1")
    if p.get("tilt", 0.0) != 0.0:
        f.append("tilt!=0")
    if p.get("mx", 0.0) != 0.0 or p.get("my", 0.0) != 0.0:
        f.append("misaligned")
    if cls == "TransverseDeflectingCavity" and p.get("phase", 0.0) != 0.0:
        f.append("phase!=0")
    if c["energy"] != 1e8:
        f.append("E<20MeV" if c["energy"] < 2e7 else "E!=1e8")
    if c.get("particles") is not None and len(c["particles"]) == 1:
        if c["particles"][0][5] != 0.0:
            f.append("delta!=0")
        if c["particles"][0][4] != 0.0:
            f.append("tau!=0")
    return "&".join(f) or "generic"


def examine(rep, c: dict, do_shrink: bool = True, done: Optional[dict] = None) -> None:
    r = run_check(c)
    if r is None:
        return
    if done is not None:        # the same failure class is minimised at most 4 times per run
        pre = (c["params"]["cls"], c["kind"], r[0], r[1], c["params"].get("L") == 0.0)
        done[pre] = done.get(pre, 0) + 1
        if done[pre] > 4:
            rep.count("failing-cases-not-minimised")
            return
    small, r2 = shrink_case(c, r[0]) if do_shrink else (c, r)
    r2 = r2 or r
    p = small["params"]
    if r2[0] == "non-finite":       # NaN/inf out of a plain `track`: one defect whatever clause met it
        sig = f"C07|{cls_tag(p).replace('RBend', 'Dipole')}.track|{predicate(small)}|non-finite"   # RBend inherits it
    else:
        sig = f"C07|{cls_tag(p)}|{small['kind']}|{predicate(small)}|{r2[0]}:{r2[1]}"
    rep.fail("falsifier", sig, f"{small['kind']}: {cls_tag(p)} {desc(p)} at E = {small['energy']:.6g} eV: {r2[2]}",
             {**small, "failure": list(r2)})


def desc(p: dict) -> str:
    return "(" + ", ".join(f"{k}={v!r}" for k, v in p.items() if k not in ("cls", "method", "name")) + ")"


# ------------------------------------------------------------------------------------------------
# generators
# ------------------------------------------------------------------------------------------------
def gen_particles(rng, n: int, En: float, big: bool = True) -> list:
    """paraxial particles with sizeable energy offsets: |delta| up to 5 %, transverse up to ~10x the reference beam"""
    P = LT.gen_particles(rng, n)
    if big:
        P[:, 5] *= float(E.pick(rng, 1.0, 10.0, 30.0))
        P[:, :4] *= float(E.pick(rng, 1.0, 1.0, 5.0, 20.0))
    P[:, 5] = np.clip(P[:, 5], -0.05, 0.05)
    # the particle must stay a particle: total energy above the rest energy with margin
    p0 = math.sqrt(En ** 2 - E.MC2 ** 2)
    lo = (1.2 * E.MC2 - En) / p0
    P[:, 5] = np.maximum(P[:, 5], lo)
    P[0, :6] = 0.0                                      # the reference particle is always part of the beam
    if n > 2:
        P[1, :5] = 0.0                                  # a purely off-energy particle on the design orbit
    return P.tolist()


def cfg_key(kind: str, p: dict, extra=()) -> tuple:
    return (kind,) + E.config_key(p) + (p.get("fringe_at"), p.get("num_steps")) + tuple(extra)


def gen_dipole(rng, cls: str = "Dipole", allow_zero_angle: bool = True) -> dict:
    p = E.gen_params(rng, cls, force={"method": "bmadx", "k1": 0.0})
    if p["L"] == 0.0:
        p["L"] = float(E.pick(rng, 0.2, 1.0))
    if p["angle"] == 0.0 and not (allow_zero_angle and rng.random() < 0.3):
        p["angle"] = float(E.pick(rng, 0.05, -0.3))
    if cls == "Dipole":
        p["fringe_at"] = str(E.pick(rng, "both", "both", "neither", "entrance", "exit"))
    return p


def gen_quad(rng, allow_L0: bool = True) -> dict:
    p = LT.gen_record(rng, "BmadxQuadrupole")
    if p["L"] == 0.0 and not (allow_L0 and rng.random() < 0.5):
        p["L"] = float(E.pick(rng, 0.1, 1.0))
    return p


def gen_case(rng, kind: str) -> dict:
    En = E.energy(rng)
    if kind == "jacobian":
        cls = str(E.pick(rng, "Drift", "Quadrupole", "Quadrupole", "Dipole", "Dipole", "RBend"))
        if cls == "Drift":
            p = LT.gen_record(rng, "BmadxDrift")
        elif cls == "Quadrupole":
            p = gen_quad(rng)
        else:
            p = gen_dipole(rng, cls)
        return {"kind": kind, "params": p, "energy": En}
    if kind == "flow":
        cls = str(E.pick(rng, "Drift", "Quadrupole", "Quadrupole", "Dipole", "Dipole"))
        c = {"kind": kind, "energy": En, "frac": float(E.pick(rng, 0.5, 0.25, float(rng.uniform(0.05, 0.95))))}
        if cls == "Drift":
            p = LT.gen_record(rng, "BmadxDrift")
        elif cls == "Quadrupole":
            while True:
                p = gen_quad(rng)
                if abs(p["k1"]) * p["L"] ** 2 <= 25.0:
                    break
            c["steps"] = [int(E.pick(rng, 1, 2, 5)), int(E.pick(rng, 1, 3)), int(E.pick(rng, 1, 2, 5))]
        else:
            p = gen_dipole(rng)
        c["params"] = p
        c["particles"] = gen_particles(rng, 8, En)
        return c
    if kind == "straight":
        p = LT.gen_record(rng, "BmadxDrift")
        return {"kind": kind, "params": p, "energy": En, "particles": gen_particles(rng, 6, En)}
    if kind == "bend":
        p = gen_dipole(rng)
        p["fringe_at"] = "neither"
        return {"kind": kind, "params": p, "energy": En, "particles": gen_particles(rng, 5, En)}
    if kind == "tdc0":
        p = E.gen_params(rng, "TransverseDeflectingCavity", force={"V": 0.0})
        if rng.random() < 0.1:
            p["L"] = 0.0
        return {"kind": kind, "params": p, "energy": En, "particles": gen_particles(rng, 8, En)}
    raise ValueError(kind)


def run(ctx) -> None:
    rep, rng = ctx.report, ctx.rng
    done: dict = {}
    budget = {"jacobian": ctx.n(300, 6000), "flow": ctx.n(500, 10000),
              "straight": ctx.n(100, 2000), "bend": ctx.n(150, 3000), "tdc0": ctx.n(100, 2000)}
    for kind, n in budget.items():
        for _ in range(n):
            c = gen_case(rng, kind)
            p = c["params"]
            rep.fals_cases += 1
            rep.count(f"{kind}:{p['cls']}")
            rep.case(cfg_key(kind, p, c.get("steps") or ()),
                     {"kind": kind, "params": p, "energy": c["energy"]} if rng.random() < 0.02 else None)
            examine(rep, c, done=done)


def corpus_case(ctx, r: dict) -> None:
    if r.get("kind") in CHECKS and "params" in r:
        ctx.report.fals_cases += 1
        c = {k: v for k, v in r.items() if k not in ("failure", "more_cases")}
        examine(ctx.report, copy.deepcopy(c))
