"""C13 — imported lattices mean what the lattice file says (falsifier).

An *abstract lattice* (JSON-able list of statements: variables, element definitions with type / parent + property
expressions, later assignments incl. wildcards, lines with nesting / repetition, `use`, `call`) is
  (1) interpreted by a reference interpreter written from the Elegant / Bmad conventions (`interpret`, `den_elegant`,
      `den_bmad`): statement order semantics, inheritance by copy, expression values, line expansion, and per element
      type the Cheetah class + parameter values it denotes,
  (2) rendered as text in many spellings (`render`: case, spacing, `!` comments, `&` / implicit continuations,
      definition order, number formats, expressions instead of numbers, `call`ed sub-files),
  (3) imported with the real `Segment.from_elegant` / `from_bmad`, flattened, and compared element by element
      (class, name, every mapped parameter, total length).
Failing files are shrunk (one element alone in a plain file; else statements, line entries, properties, expressions,
spellings one by one) and the signature is built from what is left:
  element-tied  C13|<dialect>|<file type>|<file properties feeding the parameter>|<Class.param | exception ...>
  omitted       C13|<dialect>|<file type>|omitted <property>|KeyError       (property with a format default left out)
  spelling-tied C13|<dialect>|spelling:<minimal set of features the failure needs>
  NX            C13|nx_tables|<observable>
A deterministic part (per type: all properties / each omitted; one file per spelling feature; fixed NX layouts) makes
every finding of the unchanged tree appear in every run, whatever the seed.  NX tables: random layouts in the format of tests/resources/Stage4v3_9.txt, every element's centre
must sit at its tabulated z (relative to the first element).

Alarm rules (see the final report for the reasoning):
  * the generator only uses grammar and properties the converter *claims* (listed as understood, or read by the
    element's branch — obtained by an AST scan of convert_element);
  * a claimed file that raises anything but the converter's own "not understood" AssertionError -> alarm;
  * "not understood" AssertionError for a property the branch itself reads -> alarm (read-but-rejected);
  * unclaimed grammar (`2*cell`, `-line`, `% x sto y`, unquoted strings, KS on SOLE ...) is only probed: loud
    rejection is counted, a silent wrong result would be an alarm.
"""
from __future__ import annotations

import ast
import contextlib
import copy
import inspect
import io
import math
import os
import random
import re
import shutil
from pathlib import Path
from typing import Any, Callable, Optional

import numpy as np
import torch

import cheetah
from cheetah.converters import bmad as CB
from cheetah.converters import elegant as CE
from common import REPO

META = {
    "level": "falsifier",
    "rule": "case = abstract lattice (dialect x element types with random subsets of their claimed properties x "
            "inheritance / later assignments / wildcards / variables / infix or RPN expressions / nested, repeated "
            "lines / definition order / call files) x spelling (case, spacing, comments, continuations, number formats) "
            "x dtype; plus a deterministic sweep (every type: all properties, each property omitted) and grammar "
            "probes; NX case = random layout (classes, lengths, touching / coincident elements, shuffled rows); "
            "distinct = distinct (dialect, expanded type sequence, feature set)",
    "assumptions": [
        "parameter tolerance 1e-6 relative (one float32 rounding = 6e-8; float64 import still carries float32 values, "
        "which is C12's subject); total length 2e-5 relative; NX positions 2e-5*(1+span) absolute",
        "conventions taken as documented: Elegant PHASE-90 (converter comment), Bmad phi0 in units of 2pi (sign of "
        "phi0 not checked), Bmad ks = B/(B rho) vs Cheetah k = B/(2 B rho), gap = 2*hgap, Bmad angle = g*l, "
        "EMATRIX C/R verbatim (entries coupling the 5th coordinate only up to sign), RBEN length taken verbatim",
        "format defaults used when a property is omitted: 0 for lengths/strengths/angles, Elegant FREQ 500e6 / "
        "FREQUENCY 2856e6, apertures unlimited; Bmad fint default (ambiguous) never relied on",
    ],
}

TMP_ROOT = Path("/tmp/fals-F")
RTOL = 1e-6
LEN_RTOL = 2e-5


# =================================================================================================
# expressions  (JSON-able trees)
#   ["n", text]  ["v", name]  ["c", const]  ["a", elem, prop]  ["u", x]  ["b", op, x, y]  ["f", fn, x]
#   ["rpn", textx, op, texty]  ["s", text] (quoted string)  ["w", text] (bare keyword)
# =================================================================================================
CONSTS = {
    "pi": math.pi, "twopi": 2 * math.pi, "c_light": 299792458.0, "emass": 0.51099895e-3,
    "m_electron": 0.51099895e6, "raddeg": math.pi / 180.0,
}
FUNCS = {"sqrt": math.sqrt, "sin": math.sin, "cos": math.cos, "asin": math.asin, "abs": abs}
RESERVED = set(CONSTS) | set(FUNCS) | {"abs_func", "line", "use", "call", "file", "open", "electron", "t", "f",
                                        "traveling_wave", "full", "overlay", "beginning", "parameter"}


def ev(e: list, env: dict) -> Any:
    k = e[0]
    if k == "n":
        return float(e[1])
    if k == "v":
        return env["vars"][e[1]]
    if k == "c":
        return CONSTS[e[1]]
    if k == "a":
        return env["elems"][e[1]]["props"][e[2]]
    if k == "u":
        return -ev(e[1], env)
    if k == "f":
        return float(FUNCS[e[1]](ev(e[2], env)))
    if k == "b":
        x, y = ev(e[2], env), ev(e[3], env)
        return {"+": x + y, "-": x - y, "*": x * y, "/": (x / y) if e[1] == "/" else 0.0,
                "^": (x ** y) if e[1] == "^" else 0.0}[e[1]]
    if k in ("rpn", "rpnu"):
        x, y = float(e[1]), float(e[3])
        return {"+": x + y, "-": x - y, "*": x * y, "/": (x / y) if e[2] == "/" else 0.0}[e[2]]
    if k == "rpnx":
        return float(e[2])
    if k in ("s", "w"):
        return str(e[1]).lower()
    raise ValueError(e)


def _prec(e: list) -> int:
    k = e[0]
    if k == "n":
        return 3 if e[1].startswith("-") else 10
    if k == "u":
        return 3
    if k == "b":
        return {"^": 4, "*": 2, "/": 2, "+": 1, "-": 1}[e[1]]
    return 10


def etoks(e: list, top: bool = True) -> list[str]:
    """infix tokens; parentheses wherever Bmad / Python precedence could be read differently"""
    k = e[0]
    if k == "n":
        return [e[1]]
    if k in ("v", "c"):
        return [e[1]]
    if k == "a":
        return [e[1] + "[" + e[2] + "]"]
    if k == "s":
        return ['"' + e[1] + '"']
    if k == "w":
        return [e[1]]
    if k == "rpn":
        return ['"' + e[1] + " " + e[3] + " " + e[2] + '"']
    if k == "rpnu":        # unquoted reverse Polish notation: `l = 0.5 0.1 -`
        return [e[1] + " " + e[3] + " " + e[2]]
    if k == "rpnx":
        return ['"' + e[1] + '"']
    if k == "f":
        return [e[1], "("] + etoks(e[2]) + [")"]
    if k == "u":
        inner = etoks(e[1], False)
        return ["-"] + (inner if _prec(e[1]) == 10 else ["("] + inner + [")"])
    if k == "b":
        op, x, y = e[1], e[2], e[3]
        px, py, p = _prec(x), _prec(y), _prec(e)
        if op == "^":
            lx, ly = px < 10, py < 10
        elif op in "*/":
            lx, ly = px < 2 or px == 3, py <= 2 or py == 3
        else:
            lx, ly = (px == 3 and not top), py <= 1 or py == 3
        tx, ty = etoks(x, top and not lx), etoks(y, False)
        return (["("] + tx + [")"] if lx else tx) + [op] + (["("] + ty + [")"] if ly else ty)
    raise ValueError(e)


def is_literal(e: list) -> bool:
    return e[0] in ("n", "s", "w")


def expr_kinds(e: list, out: set) -> set:
    k = e[0]
    if k == "v":
        out.add("var")
    elif k == "c":
        out.add("const")
    elif k == "a":
        out.add("attr-ref")
    elif k == "u":
        out.add("infix")
        expr_kinds(e[1], out)
    elif k == "f":
        out.add("func")
        expr_kinds(e[2], out)
    elif k == "b":
        out.add("pow" if e[1] == "^" else "infix")
        expr_kinds(e[2], out)
        expr_kinds(e[3], out)
    elif k in ("rpn", "rpnx"):
        out.add("rpn")
    elif k == "rpnu":
        out.add("rpn-unquoted")
    return out


def expr_refs(e: list, out: set) -> set:
    """names of variables / elements an expression refers to"""
    k = e[0]
    if k == "v":
        out.add(("var", e[1]))
    elif k == "a":
        out.add(("elem", e[1], e[2]))
    elif k == "u":
        expr_refs(e[1], out)
    elif k == "f":
        expr_refs(e[2], out)
    elif k == "b":
        expr_refs(e[2], out)
        expr_refs(e[3], out)
    return out


def num(v: float, rng=None) -> list:
    """numeric literal in one of several spellings (value = float(text))"""
    v = float(v)
    forms = [repr(v)]
    if rng is not None:
        if v == int(v) and abs(v) < 1e6:
            forms += [str(int(v)), str(int(v)) + ".", f"{v:.6f}"]
        if v != 0 and abs(v) < 1:
            r = repr(v)
            if r.startswith("0."):
                forms.append(r[1:])
            elif r.startswith("-0."):
                forms.append("-" + r[2:])
        forms += [f"{v:.10e}", f"{v:.12g}"]
        forms = [f for f in forms if float(f) == v or abs(float(f) - v) <= 1e-9 * abs(v)]
        return ["n", forms[int(rng.integers(len(forms)))]]
    return ["n", forms[0]]


# =================================================================================================
# what the converter claims: AST scan of convert_element (understood lists + keys the branch reads)
# =================================================================================================
def scan_converter(mod) -> dict:
    """{type: {"understood": [regex...] | None (no validation), "read": {keys}}}"""
    out: dict = {}
    try:
        tree = ast.parse(inspect.getsource(mod.convert_element))
    except Exception:
        return out

    def types_of(test) -> list[str]:
        if not isinstance(test, ast.Compare) or len(test.ops) != 1:
            return []
        left = test.left
        if not (isinstance(left, ast.Subscript) and isinstance(left.slice, ast.Constant)
                and left.slice.value == "element_type"):
            return []
        c = test.comparators[0]
        if isinstance(test.ops[0], ast.Eq) and isinstance(c, ast.Constant):
            return [c.value]
        if isinstance(test.ops[0], ast.In) and isinstance(c, (ast.List, ast.Tuple)):
            return [x.value for x in c.elts if isinstance(x, ast.Constant)]
        return []

    for node in ast.walk(tree):
        if not isinstance(node, ast.If):
            continue
        ts = types_of(node.test)
        if not ts:
            continue
        understood, read = None, set()
        for st in node.body:
            for sub in ast.walk(st):
                if isinstance(sub, ast.Call) and getattr(sub.func, "id", "") == "validate_understood_properties" \
                        and sub.args and isinstance(sub.args[0], ast.List):
                    understood = [x.value for x in sub.args[0].elts if isinstance(x, ast.Constant)]
                if isinstance(sub, ast.Subscript) and isinstance(sub.slice, ast.Constant) \
                        and isinstance(sub.slice.value, str) and isinstance(sub.value, ast.Name):
                    read.add(sub.slice.value)
                if isinstance(sub, ast.Call) and isinstance(sub.func, ast.Attribute) and sub.func.attr in ("get",) \
                        and sub.args and isinstance(sub.args[0], ast.Constant) and isinstance(sub.args[0].value, str):
                    read.add(sub.args[0].value)
                if isinstance(sub, ast.JoinedStr):  # parsed.get(f"r{i + 1}{j + 1}") of EMATRIX
                    pass
        read.discard("element_type")
        for t in ts:
            out[t] = {"understood": understood, "read": read}
    return out


_CLAIMS: dict = {}


def claims(dialect: str) -> dict:
    if dialect not in _CLAIMS:
        _CLAIMS[dialect] = scan_converter(CE if dialect == "elegant" else CB)
    return _CLAIMS[dialect]


def claimed(dialect: str, typ: str, prop: str) -> str:
    """'understood' | 'read' (read by the branch but not in its understood list) | 'no' | 'unknown-type'"""
    c = claims(dialect).get(typ)
    if c is None:
        return "unknown-type"
    if c["understood"] is None:
        return "understood"
    if any(re.fullmatch(p, prop) for p in c["understood"]):
        return "understood"
    return "read" if prop in c["read"] else "no"


# =================================================================================================
# element types of the two dialects: properties with value kinds
#   map  : has a Cheetah counterpart, appears in the denotation
#   ign  : no effect on the Cheetah model by design (labels, collective-effect / integrator switches)
#   weak : physical meaning without a Cheetah counterpart on the built class (generated like `ign`, listed in report)
#   probe: valid in the format, has a counterpart, but (today) not claimed by the converter
#   excl : pairs that over-determine each other and are never generated together
# =================================================================================================
ELEGANT: dict = {
    "drift": {"alias": ["drif"], "map": {"l": "len"}, "ign": {"group": "str"}},
    "csrdrift": {"alias": ["csrdrif"], "map": {"l": "len"},
                 "ign": {"group": "str", "use_stupakov": "flag", "n_kicks": "int", "csr": "flag"}},
    "lscdrift": {"alias": ["lscdrif"], "map": {"l": "len"},
                 "ign": {"group": "str", "interpolate": "flag", "smoothing": "flag", "bins": "int",
                         "high_frequency_cutoff0": "frac", "high_frequency_cutoff1": "frac", "lsc": "flag"}},
    "kick": {"map": {"l": "len"}, "ign": {"group": "str"}},
    "sext": {"map": {"l": "len"}, "ign": {}},
    "mark": {"map": {}, "ign": {"group": "str"}},
    "watch": {"map": {}, "ign": {"group": "str", "filename": "fname"}},
    "charge": {"map": {}, "ign": {"total": "tiny"}},
    "moni": {"map": {"l": "len"}, "ign": {"group": "str"}},
    "quad": {"map": {"l": "len", "k1": "k1", "tilt": "tilt"}, "ign": {"group": "str"}},
    "sben": {"map": {"l": "len", "angle": "angle", "k1": "k1s", "e1": "edge", "e2": "edge", "tilt": "tilt"},
             "ign": {"group": "str"}, "probe": {"hgap": "hgap", "fint": "fint"}},
    "rben": {"map": {"l": "len", "angle": "angle", "e1": "edge", "e2": "edge", "tilt": "tilt"},
             "ign": {"group": "str"}},
    "csrcsben": {"map": {"l": "len", "angle": "angle", "k1": "k1s", "e1": "edge", "e2": "edge", "tilt": "tilt",
                         "hgap": "hgap", "fint": "fint"},
                 "ign": {"group": "str", "edge1_effects": "one", "edge2_effects": "one", "sg_halfwidth": "int",
                         "sg_order": "int", "steady_state": "flag", "bins": "int", "n_kicks": "int",
                         "integration_order": "int", "isr": "flag", "csr": "flag"}},
    "sole": {"map": {"l": "len"}, "ign": {"group": "str"}, "probe": {"ks": "ks"}},
    "hkick": {"alias": ["hkic"], "map": {"l": "len", "kick": "kick"}, "ign": {"group": "str"}},
    "vkick": {"alias": ["vkic"], "map": {"l": "len", "kick": "kick"}, "ign": {"group": "str"}},
    "ecol": {"map": {"l": "len", "x_max": "apx", "y_max": "apy"}, "ign": {}},
    "rcol": {"map": {"l": "len", "x_max": "apx", "y_max": "apy"}, "ign": {}},
    "ematrix": {"map": {"l": "len", **{f"r{i}{j}": "mat" for i in range(1, 7) for j in range(1, 7)},
                        **{f"c{i}": "vec" for i in range(1, 7)}},
                "ign": {"group": "str", "order": "one"}},
    "rfca": {"map": {"l": "len", "volt": "volt", "phase": "phase", "freq": "freq"},
             "ign": {"group": "str", "change_p0": "flag", "end1_focus": "flag", "end2_focus": "flag",
                     "body_focus_model": "srs"}},
    "rfcw": {"map": {"l": "len", "volt": "volt", "phase": "phase", "freq": "freq"},
             "ign": {"group": "str", "change_p0": "flag", "end1_focus": "flag", "end2_focus": "flag",
                     "cell_length": "frac", "zwakefile": "fname", "trwakefile": "fname", "tcolumn": "str",
                     "wxcolumn": "str", "wycolumn": "str", "wzcolumn": "str", "interpolate": "flag",
                     "n_kicks": "int", "smoothing": "flag", "zwake": "flag", "trwake": "flag", "lsc": "flag",
                     "lsc_bins": "int", "lsc_high_frequency_cutoff0": "frac",
                     "lsc_high_frequency_cutoff1": "frac"}},
    "rfdf": {"map": {"l": "len", "voltage": "volt", "phase": "phase", "frequency": "freq"},
             "ign": {"group": "str"}},
}

BMAD: dict = {
    "marker": {"map": {}, "ign": {"alias": "str", "type": "str"}},
    "monitor": {"map": {"l": "len"}, "ign": {"alias": "str", "type": "str"}},
    "instrument": {"map": {"l": "len"}, "ign": {"alias": "str", "type": "str"}},
    "pipe": {"map": {"l": "len"}, "ign": {"alias": "str", "type": "str", "descrip": "str"}},
    "drift": {"map": {"l": "len"}, "ign": {"type": "str", "descrip": "str"}},
    "hkicker": {"map": {"l": "len", "kick": "kick"}, "ign": {"alias": "str", "type": "str"}},
    "vkicker": {"map": {"l": "len", "kick": "kick"}, "ign": {"alias": "str", "type": "str"}},
    "sbend": {"map": {"l": "len", "angle": "angle", "g": "g", "e1": "edge", "e2": "edge", "hgap": "hgap",
                      "fint": "fint", "fintx": "fint", "ref_tilt": "tilt"},
              "ign": {"alias": "str", "type": "str", "fringe_type": "full"}, "weak": {"dg": "tiny"},
              "excl": [("angle", "g")], "probe": {"k1": "k1s"}},
    "quadrupole": {"map": {"l": "len", "k1": "k1", "tilt": "tilt"}, "ign": {"alias": "str", "type": "str"},
                   "weak": {"aperture": "apx"}},
    "solenoid": {"map": {"l": "len", "ks": "ks"}, "ign": {"alias": "str"}},
    "lcavity": {"map": {"l": "len", "voltage": "volt", "phi0": "phi0", "rf_frequency": "freq"},
                "ign": {"alias": "str", "type": "str", "cavity_type": "tw"}, "keep": ["rf_frequency"]},
    "rcollimator": {"map": {"l": "len", "x_limit": "apx", "y_limit": "apy"}, "ign": {"alias": "str", "type": "str"}},
    "ecollimator": {"map": {"l": "len", "x_limit": "apx", "y_limit": "apy"}, "ign": {"alias": "str", "type": "str"}},
    "wiggler": {"map": {"l": "len"}, "ign": {"alias": "str", "type": "str", "ds_step": "frac"},
                "weak": {"l_period": "frac", "n_period": "int", "b_max": "frac", "tilt": "tilt"}},
    "patch": {"map": {}, "ign": {}, "weak": {"tilt": "tilt"}},
}


def table(dialect: str) -> dict:
    return ELEGANT if dialect == "elegant" else BMAD


def canon_type(dialect: str, typ: str) -> Optional[str]:
    tb = table(dialect)
    if typ in tb:
        return typ
    for k, v in tb.items():
        if typ in v.get("alias", []):
            return k
    return None


MENUS = {
    "len": [0.1, 0.2, 0.25, 0.5, 1.0, 1.5, 2.0, 0.05, 0.37, 0.0, 0.7],
    "k1": [1.5, -3.0, 0.23, 4.2, -0.8, 12.0],
    "k1s": [0.3, -0.45, 1.1],
    "angle": [0.1, -0.05, 0.3, 0.0174533, 0.2],
    "edge": [0.05, -0.1, 0.25, 0.15, -0.02],
    "tilt": [0.1, -0.2, 0.7853981634, 0.02],
    "hgap": [0.01, 0.02, 0.0125],
    "fint": [0.5, 0.4, 0.7, 0.35],
    "kick": [1e-3, -2e-4, 5e-4, -0.0015],
    "volt": [1e6, 16.175e6, 2.5e7, 3.3e5],
    "phase": [90.0, 80.0, 100.0, 45.0, 0.0, 92.5],
    "phi0": [0.05, -0.1, 0.25, 0.0125],
    "freq": [1.3e9, 2.856e9, 1.2e9, 5e8, 2.998e9],
    "apx": [0.005, 0.01, 0.02],
    "apy": [0.004, 0.008, 0.015],
    "ks": [0.5, -1.2, 2.0],
    "g": [1.0, 0.5, -0.2, 0.125],
    "tiny": [0.001, 0.25e-9],
    "frac": [0.1, 0.035, 0.5],
    "mat": [1.0, 0.04, -0.04, 0.003, 0.5, -1.2],
    "vec": [-0.0027, -0.15, 0.001],
}


# kinds for which an explicitly written zero is a meaningful value (an explicit 0 must not be read as "not given")
ZERO_OK = {"k1", "k1s", "angle", "edge", "tilt", "hgap", "fint", "kick", "volt", "phi0", "ks", "g"}


def gen_value(rng, kind: str) -> list:
    """an expression tree for a value of the given kind (literal; expressions are wrapped around it later)"""
    if kind == "str":
        return ["s", ["abc", "Q grp", "a1", "abc", "q_1", "x=1", "a, y", "L2:B"][int(rng.integers(8))]]
    if kind == "fname":
        return ["s", ["w1.sdds", "%s.w1", "out.dat"][int(rng.integers(3))]]
    if kind == "srs":
        return ["s", "SRS"]
    if kind == "full":
        return ["w", "full"]
    if kind == "tw":
        return ["w", "traveling_wave"]
    if kind == "flag":
        return ["n", str(int(rng.integers(2)))]
    if kind == "one":
        return ["n", "1"]
    if kind == "int":
        return ["n", str(int(rng.integers(1, 40)))]
    m = MENUS[kind]
    if kind in ZERO_OK and rng.random() < 0.08:
        return ["n", "0"] if rng.random() < 0.5 else ["n", "0.0"]
    if rng.random() < 0.7:
        v = m[int(rng.integers(len(m)))]
    else:
        lo, hi = min(abs(x) for x in m if x != 0), max(abs(x) for x in m)
        v = float(f"{math.exp(rng.uniform(math.log(lo), math.log(hi))):.4g}")
        if min(m) < 0 and rng.random() < 0.5:
            v = -v
    return num(v, rng)


# =================================================================================================
# reference denotation: file element (type, evaluated properties) -> alternatives of expected Cheetah elements
#   expected element = {"cls": (allowed class names), "name": str|None, "par": {param: ([accepted values], [source props])},
#                       "str": {attr: value}}
# =================================================================================================
DIAG = ("Marker", "BPM", "Screen")


def E(cls, name, **par) -> dict:
    strs = par.pop("_str", {})
    return {"cls": (cls,) if isinstance(cls, str) else tuple(cls), "name": name,
            "par": {k: ([float(x) for x in (v[0] if isinstance(v[0], (list, tuple)) else [v[0]])], list(v[1]),
                        float(v[2]) if len(v) > 2 else 0.0)
                    for k, v in par.items()}, "str": strs}


def _g(p: dict, k: str, d: float = 0.0) -> float:
    v = p.get(k, d)
    return float(v) if not isinstance(v, str) else d


def _dipole(cls: str, name: str, p: dict, tilt_key: str, e1: str, e2: str, angle_val, angle_src) -> dict:
    # RBend stores e + angle/2 in float32 and returns the difference: absolute round-off ~ 1e-7 * |angle| / 2
    at = RTOL * abs(angle_val) if cls == "RBend" else 0.0
    par = {
        "length": (_g(p, "l"), ["l"]), "angle": (angle_val, angle_src), "k1": (_g(p, "k1"), ["k1"]),
        e1: (_g(p, "e1"), ["e1"], at), e2: (_g(p, "e2"), ["e2"], at), "tilt": (_g(p, tilt_key), [tilt_key]),
        "gap": (2.0 * _g(p, "hgap"), ["hgap"]),
    }
    if "fint" in p:
        par["fringe_integral"] = (_g(p, "fint"), ["fint"])
        par["fringe_integral_exit"] = (_g(p, "fintx", _g(p, "fint")), ["fintx"] if "fintx" in p else ["fint"])
    elif "fintx" in p:
        par["fringe_integral_exit"] = (_g(p, "fintx"), ["fintx"])
    return E(cls, name, **par)


def _collimator(name: str, p: dict, kx: str, ky: str, shape: str) -> list:
    d = E("Drift", None, length=(_g(p, "l"), ["l"]))
    a = E("Aperture", None, x_max=(_g(p, kx, math.inf), [kx]), y_max=(_g(p, ky, math.inf), [ky]),
          _str={"shape": shape, "is_active": True})
    return [[d, a], [a, d], [a, d, a]]


def _diag(name: str, p: dict) -> list:
    if "l" not in p:
        return [[E(DIAG, name)]]
    half = E("Drift", None, length=(_g(p, "l") / 2, ["l"]))
    alts = [[half, E(DIAG, name), half], [E("Drift", name, length=(_g(p, "l"), ["l"]))]]
    if _g(p, "l") == 0.0:
        alts.append([E(DIAG, name)])
    return alts


def den_elegant(name: str, typ: str, p: dict) -> list:
    L = (_g(p, "l"), ["l"])
    if typ in ("drift", "csrdrift", "lscdrift", "kick", "sext"):
        return [[E("Drift", name, length=L)]]
    if typ in ("mark", "watch", "charge", "wake"):
        return [[E(DIAG, name)]]
    if typ == "moni":
        return _diag(name, p)
    if typ == "quad":
        return [[E("Quadrupole", name, length=L, k1=(_g(p, "k1"), ["k1"]), tilt=(_g(p, "tilt"), ["tilt"]))]]
    if typ in ("sben", "csrcsben"):
        return [[_dipole("Dipole", name, p, "tilt", "dipole_e1", "dipole_e2", _g(p, "angle"), ["angle"])]]
    if typ == "rben":
        return [[_dipole("RBend", name, p, "tilt", "rbend_e1", "rbend_e2", _g(p, "angle"), ["angle"])]]
    if typ == "sole":
        # Elegant KS = -B/(B rho) (sign convention not checked); Cheetah k = B/(2 B rho)
        return [[E("Solenoid", name, length=L, k=([_g(p, "ks") / 2, -_g(p, "ks") / 2], ["ks"]))]]
    if typ == "hkick":
        return [[E("HorizontalCorrector", name, length=L, angle=(_g(p, "kick"), ["kick"]))]]
    if typ == "vkick":
        return [[E("VerticalCorrector", name, length=L, angle=(_g(p, "kick"), ["kick"]))]]
    if typ == "ecol":
        return _collimator(name, p, "x_max", "y_max", "elliptical")
    if typ == "rcol":
        return _collimator(name, p, "x_max", "y_max", "rectangular")
    if typ == "ematrix":
        par = {"length": L}
        for i in range(6):
            for j in range(6):
                v = _g(p, f"r{i + 1}{j + 1}")
                amb = (i == 4) != (j == 4)   # couples Elegant's s with Cheetah's tau: sign convention not checked
                par[f"R[{i},{j}]"] = ([v, -v] if amb else [v], [f"r{i + 1}{j + 1}"])
            v = _g(p, f"c{i + 1}")
            par[f"R[{i},6]"] = ([v, -v] if i == 4 else [v], [f"c{i + 1}"])
        for j in range(6):
            par[f"R[6,{j}]"] = (0.0, ["affine-row"])
        par["R[6,6]"] = (1.0, ["affine-row"])
        return [[E("CustomTransferMap", name, **par)]]
    if typ in ("rfca", "rfcw"):
        return [[E("Cavity", name, length=L, voltage=(_g(p, "volt"), ["volt"]),
                   phase=(_g(p, "phase") - 90.0, ["phase"], 90.0 * RTOL), frequency=(_g(p, "freq", 500e6), ["freq"]))]]
    if typ == "rfdf":
        return [[E("TransverseDeflectingCavity", name, length=L, voltage=(_g(p, "voltage"), ["voltage"]),
                   phase=(_g(p, "phase") - 90.0, ["phase"], 90.0 * RTOL),
                   frequency=(_g(p, "frequency", 2856e6), ["frequency"]))]]
    raise KeyError(typ)


def den_bmad(name: str, typ: str, p: dict) -> list:
    L = (_g(p, "l"), ["l"])
    if typ == "marker":
        return [[E(DIAG, name)]]
    if typ in ("monitor", "instrument"):
        return _diag(name, p)
    if typ in ("pipe", "drift"):
        return [[E("Drift", name, length=L)]]
    if typ == "patch":
        return [[E(("Drift", "Marker"), name)]]
    if typ == "hkicker":
        return [[E("HorizontalCorrector", name, length=L, angle=(_g(p, "kick"), ["kick"]))]]
    if typ == "vkicker":
        return [[E("VerticalCorrector", name, length=L, angle=(_g(p, "kick"), ["kick"]))]]
    if typ == "sbend":
        if "angle" in p:
            a, src = _g(p, "angle"), ["angle"]
        elif "g" in p:
            a, src = _g(p, "g") * _g(p, "l"), ["g"]        # Bmad: angle = g * l  (g = 1/rho)
        else:
            a, src = 0.0, ["angle"]
        return [[_dipole("Dipole", name, p, "ref_tilt", "dipole_e1", "dipole_e2", a, src)]]
    if typ == "quadrupole":
        return [[E("Quadrupole", name, length=L, k1=(_g(p, "k1"), ["k1"]), tilt=(_g(p, "tilt"), ["tilt"]))]]
    if typ == "solenoid":
        # Bmad ks = B/(B rho), Larmor angle ks*l/2; Cheetah Solenoid.k = B/(2 B rho) (rotation angle k*l)
        return [[E("Solenoid", name, length=L, k=(_g(p, "ks") / 2, ["ks"]))]]
    if typ == "lcavity":
        ph = 360.0 * _g(p, "phi0")
        par = {"length": L, "voltage": (_g(p, "voltage"), ["voltage"]), "phase": ([-ph, ph], ["phi0"])}
        if "rf_frequency" in p:
            par["frequency"] = (_g(p, "rf_frequency"), ["rf_frequency"])
        return [[E("Cavity", name, **par)]]
    if typ == "rcollimator":
        return _collimator(name, p, "x_limit", "y_limit", "rectangular")
    if typ == "ecollimator":
        return _collimator(name, p, "x_limit", "y_limit", "elliptical")
    if typ == "wiggler":
        return [[E("Undulator", name, length=L)]]
    raise KeyError(typ)


# =================================================================================================
# reference interpreter of an abstract lattice
# =================================================================================================
class Invalid(Exception):
    """the abstract lattice is not a valid file of the supported subset (used by the shrinker)"""


def wildcard_match(pattern: str, name: str) -> bool:
    rx = "".join(".*" if ch == "*" else "." if ch == "%" else re.escape(ch) for ch in pattern)
    return re.fullmatch(rx, name) is not None


def interpret(lat: dict) -> dict:
    """-> {"flat": [(name, root type, props)], "length": float}; raises Invalid"""
    env = {"vars": {}, "elems": {}, "lines": {}, "use": None}
    dialect = lat["dialect"]
    taken: set = set()

    def val(e):
        try:
            return ev(e, env)
        except (KeyError, ZeroDivisionError, ValueError, OverflowError) as ex:
            raise Invalid(f"expression {e}: {ex}")

    def run(stmts):
        for s in stmts:
            k = s["k"]
            if k == "var":
                if s["name"] in taken or s["name"] in RESERVED:
                    raise Invalid("redefinition " + s["name"])
                taken.add(s["name"])
                env["vars"][s["name"]] = val(s["expr"])
            elif k == "elem":
                if s["name"] in taken or s["name"] in RESERVED or canon_type(dialect, s["name"]):
                    raise Invalid("redefinition " + s["name"])
                taken.add(s["name"])
                if s["type"] in env["elems"]:
                    base = copy.deepcopy(env["elems"][s["type"]])
                elif canon_type(dialect, s["type"]):
                    base = {"type": canon_type(dialect, s["type"]), "props": {}}
                else:
                    raise Invalid("unknown type / parent " + s["type"])
                for pn, pe in s["props"]:
                    base["props"][pn] = val(pe)
                env["elems"][s["name"]] = base
            elif k == "assign":
                tgt = s["target"]
                if "::" in tgt:
                    cls, pat = tgt.split("::")
                    names = [n for n, d in env["elems"].items() if d["type"] == cls and wildcard_match(pat, n)]
                else:
                    if tgt not in env["elems"]:
                        raise Invalid("assignment to undefined " + tgt)
                    names = [tgt]
                v = val(s["expr"])
                for n in names:
                    env["elems"][n]["props"][s["prop"]] = v
            elif k == "line":
                if s["name"] in taken or s["name"] in RESERVED:
                    raise Invalid("redefinition " + s["name"])
                taken.add(s["name"])
                if not s["items"]:
                    raise Invalid("empty line")
                env["lines"][s["name"]] = list(s["items"])
            elif k == "use":
                env["use"] = s["name"]
            elif k == "call":
                run(s["stmts"])
            elif k == "raw":
                pass
            else:
                raise Invalid(k)

    run(lat["stmts"])
    root = lat.get("root") if dialect == "elegant" else env["use"]
    if root is None or root not in env["lines"]:
        raise Invalid("no root line")

    flat: list = []

    def expand(item: str, depth: int, rev: bool):
        if depth > 8:
            raise Invalid("recursion")
        m = re.fullmatch(r"(\d+)\*(.+)", item)
        if m:
            for _ in range(int(m.group(1))):
                expand(m.group(2), depth, rev)
            return
        if item.startswith("-"):
            expand(item[1:], depth, not rev)
            return
        if item in env["lines"]:
            items = env["lines"][item]
            for it in (reversed(items) if rev else items):
                expand(it, depth + 1, rev)
        elif item in env["elems"]:
            d = env["elems"][item]
            flat.append((item, d["type"], dict(d["props"])))
        else:
            raise Invalid("undefined line entry " + item)

    expand(root, 0, False)
    if not flat:
        raise Invalid("empty")
    if dialect == "elegant":
        # Elegant: everything used in a line is defined before the line
        seen: set = set()
        for s in all_stmts(lat["stmts"]):
            if s["k"] == "line":
                for it in s["items"]:
                    if re.sub(r"^(\d+\*|-)+", "", it) not in seen:
                        raise Invalid("use before definition")
            if s["k"] in ("elem", "line"):
                seen.add(s["name"])
    return {"flat": flat, "root": root, "length": sum(_g(p, "l") for _, _, p in flat)}


def all_stmts(stmts: list):
    for s in stmts:
        if s["k"] == "call":
            yield from all_stmts(s["stmts"])
        else:
            yield s


# =================================================================================================
# renderer: abstract lattice -> text in a chosen spelling
#   style = {"case": 0 lower | 1 UPPER | 2 Title, "gaps": {gap kind: index into GAP_CHOICES} (others canonical),
#            "lead": leading blanks, "sp": seed (indentation of continuation lines),
#            "cm": 0 none | 1 trailing | 2 own line before | 3 after the first `&`, "cmt": index of comment text,
#            "brk": [gap indices broken with `&`], "impl": implicit continuation after a comma (Bmad), "blank": bool}
# =================================================================================================
GAP_CANON = {"bc": "", "ac": " ", "b,": "", "a,": " ", "b=": " ", "a=": " ", "par": "", "ex": ""}
GAP_NAMES = {"bc": "before-colon", "ac": "after-colon", "b,": "before-comma", "a,": "after-comma", "b=": "before-equals",
             "a=": "after-equals", "par": "at-parenthesis", "ex": "inside-expression"}
GAP_CHOICES = ["", " ", "  ", "\t"]
PLAIN = {"case": 0, "gaps": {}, "lead": 0, "sp": 0, "cm": 0, "cmt": 0, "brk": [], "impl": False, "blank": False}
COMMENTS = ["comment", "old: q9: quad, l=3", "k1 = 5 &", "see line=(a,b),", "100% ok {", "x[k1] = 2", "use, other",
            "q1: drift, l = 7"]
CALL_SPELLINGS = ["call, file = {f}", "call, file ={f}", "call, file={f}", "call,file = {f}", "CALL, FILE = {f}",
                  "Call, file = {f}", "call, file =   {f}", "call,  file = {f}"]


def stmt_tokens(s: dict) -> list[str]:
    k = s["k"]
    if k == "var":
        return [s["name"], "="] + etoks(s["expr"])
    if k == "elem":
        t = [s["name"], ":", s["type"]]
        for pn, pe in s["props"]:
            t += [",", pn, "="] + etoks(pe)
        return t
    if k == "assign":
        return [s["target"] + "[" + s["prop"] + "]", "="] + etoks(s["expr"])
    if k == "line":
        t = [s["name"], ":", "line", "=", "("]
        for i, it in enumerate(s["items"]):
            t += ([","] if i else []) + [it]
        return t + [")"]
    if k == "use":
        return ["use", ",", s["name"]]
    raise ValueError(k)


def _case(tok: str, mode: int) -> str:
    if mode == 0:
        return tok
    if mode == 1:
        return tok.upper()
    return tok[:1].upper() + tok[1:]


def gap_kind(t: str, nxt: str) -> str:
    if nxt == ":":
        return "bc"
    if t == ":":
        return "ac"
    if nxt == ",":
        return "b,"
    if t == ",":
        return "a,"
    if nxt == "=":
        return "b="
    if t == "=":
        return "a="
    if t in "()" or nxt in "()":
        return "par"
    return "ex"


def render_stmt(s: dict, dialect: str) -> list[str]:
    """physical lines of one statement"""
    if s["k"] == "raw":
        return [s["text"]]
    st = {**PLAIN, **s.get("st", {})}
    raw = stmt_tokens(s)
    toks = [_case(t, st["case"]) for t in raw]
    r = random.Random(st["sp"])
    out, cur = [], ""
    brk = {b % max(1, len(toks) - 1) for b in st["brk"]} if len(toks) > 1 else set()
    first_break_done = False
    cm_text = " ! " + COMMENTS[st["cmt"] % len(COMMENTS)]
    for i, t in enumerate(toks):
        cur += t
        if i == len(toks) - 1:
            break
        kind = gap_kind(raw[i], raw[i + 1])
        gap = GAP_CHOICES[st["gaps"][kind]] if kind in st["gaps"] else GAP_CANON[kind]
        if i in brk:
            # the gap's own spacing goes in front of the continuation mark, so that removing the break keeps the text
            if st["impl"] and dialect == "bmad" and raw[i] == ",":
                line = cur + gap
            else:
                line = cur + gap + "&"
            if st["cm"] == 3 and dialect == "bmad" and not first_break_done:
                line += cm_text
            first_break_done = True
            out.append(line)
            cur = " " * r.randrange(0, 6)
            continue
        cur += gap
    if st["cm"] == 1 or (st["cm"] == 3 and not first_break_done):
        cur += cm_text
    out.append(cur)
    if st["lead"]:
        out[0] = " " * st["lead"] + out[0]
    if st["cm"] == 2:
        out.insert(0, "!" + cm_text[2:])
    if st["blank"]:
        out.insert(0, "")
    return out


def render(lat: dict, directory: Path) -> Path:
    """writes the main file (and called files) into `directory`, returns the main path"""
    ext = ".lte" if lat["dialect"] == "elegant" else ".bmad"

    def body(stmts: list) -> str:
        lines: list[str] = []
        for s in stmts:
            if s["k"] == "call":
                (directory / s["file"]).write_text(body(s["stmts"]))
                lines.append(CALL_SPELLINGS[s.get("spell", 0) % len(CALL_SPELLINGS)].format(f=s["file"]))
            else:
                lines += render_stmt(s, lat["dialect"])
        return "\n".join(lines) + "\n"

    main = directory / ("lat" + ext)
    main.write_text(body(lat["stmts"]))
    return main


# =================================================================================================
# import with the real converter and compare with the denotation
# =================================================================================================
_WORK: list = []


def workdir() -> Path:
    if not _WORK:
        d = TMP_ROOT / f"c13-{os.getpid()}"
        d.mkdir(parents=True, exist_ok=True)
        _WORK.append(d)
    return _WORK[0]


def cleanup() -> None:
    while _WORK:
        shutil.rmtree(_WORK.pop(), ignore_errors=True)
    try:
        TMP_ROOT.rmdir()
    except OSError:
        pass


def flatten(el) -> list:
    if isinstance(el, cheetah.Segment):
        out = []
        for sub in el.elements:
            out += flatten(sub)
        return out
    return [el]


def getp(el, param: str) -> float:
    if param.startswith("R["):
        i, j = (int(x) for x in param[2:-1].split(","))
        return float(el.predefined_transfer_map[..., i, j].reshape(-1)[0])
    v = getattr(el, param)
    if isinstance(v, torch.Tensor):
        if v.numel() != 1:
            raise ValueError(f"{param} has shape {tuple(v.shape)}")
        return float(v.reshape(-1)[0])
    return float(v)


def close(got: float, exp: float, rtol: float = RTOL, atol: float = 0.0) -> bool:
    if math.isinf(exp) or math.isinf(got):
        return got == exp
    if math.isnan(got):
        return False
    WORST[0] = max(WORST[0], abs(got - exp) / (abs(exp) + atol / rtol) if exp != 0 or atol else 0.0)
    return abs(got - exp) <= rtol * abs(exp) + atol + 1e-30


WORST = [0.0]   # largest relative deviation seen among accepted / rejected comparisons (head-room measurement)


def do_import(lat: dict):
    d = workdir()
    for f in d.iterdir():
        f.unlink()
    path = render(lat, d)
    dtype = torch.float64 if lat.get("dtype") == "float64" else torch.float32
    buf = io.StringIO()
    with contextlib.redirect_stdout(buf):
        if lat["dialect"] == "elegant":
            seg = cheetah.Segment.from_elegant(str(path), lat.get("root_arg", lat["root"]), dtype=dtype)
        else:
            seg = cheetah.Segment.from_bmad(str(path), dtype=dtype)
    return seg, buf.getvalue()


def lattice_names(lat: dict) -> set:
    names = set()
    for s in all_stmts(lat["stmts"]):
        if "name" in s:
            names.add(s["name"])
    return names


def norm_msg(msg: str, lat: dict) -> str:
    for n in sorted(lattice_names(lat), key=len, reverse=True):
        msg = re.sub(r"(?<![a-z0-9_.])" + re.escape(n) + r"(?![a-z0-9_.])", "<id>", msg)
    msg = re.sub(r"/tmp/\S+", "<path>", msg)
    msg = re.sub(r"\d+(\.\d+)?(e[-+]?\d+)?", "<n>", msg)
    return msg[:70]


def D(key: str, what: str, types=(), props=(), alarm: bool = True) -> dict:
    return {"key": key, "what": what, "types": sorted(set(types)), "props": sorted(set(props)), "alarm": alarm}


def classify_exception(ex: Exception, lat: dict, ref: dict) -> dict:
    dialect = lat["dialect"]
    name = type(ex).__name__
    msg = str(ex)
    if isinstance(ex, AssertionError) and "is currently not understood" in msg:
        m = re.match(r"Property (\S+) with value .* for element type (\S+) is currently", msg, flags=re.S)
        if m:
            prop, typ = m.group(1), m.group(2)
            cl = claimed(dialect, typ, prop)
            if cl == "read":
                # the element's branch reads this property, its own validation rejects it
                return D(f"read-but-rejected {prop}", f"{typ}.{prop}: {msg[:120]}", [typ], [prop])
            return D(f"rejected:{typ}.{prop}", msg[:120], [typ], [prop], alarm=False)
    if isinstance(ex, KeyError) and ex.args and isinstance(ex.args[0], str):
        key = ex.args[0]
        lacking = {t for _, t, p in ref["flat"] if key in table(dialect)[t]["map"] and key not in p}
        if lacking:
            # a property with a format default is omitted and the converter indexes it unconditionally
            return D(f"omitted {key}|KeyError", f"{sorted(lacking)} without `{key}`: KeyError({key!r})", lacking, [])
    return D(f"exception {name}: {norm_msg(msg, lat)}", f"{name}: {msg[:200]}",
             {t for _, t, _ in ref["flat"]}, [])


def compare(lat: dict, ref: dict, seg) -> list[dict]:
    dialect = lat["dialect"]
    den = den_elegant if dialect == "elegant" else den_bmad
    got = flatten(seg)
    out: list[dict] = []
    pos = 0
    for idx, (name, typ, p) in enumerate(ref["flat"]):
        alts = den(name, typ, p)
        chosen = None
        for strict in (True, False):   # prefer the alternative whose named elements also carry the right names
            for alt in alts:
                window = got[pos:pos + len(alt)]
                if len(window) == len(alt) and all(
                        type(g).__name__ in e["cls"] and (not strict or e["name"] is None
                                                          or str(g.name).lower() == e["name"].lower())
                        for g, e in zip(window, alt)):
                    chosen = alt
                    break
            if chosen is not None:
                break
        if chosen is None:
            seen = [type(g).__name__ for g in got[pos:pos + len(alts[0])]]
            out.append(D("class", f"file element #{idx} {name}: {typ} should import as "
                                  f"{[list(e['cls']) for e in alts[0]]}, imported sequence continues with {seen} "
                                  f"(names {[g.name for g in got[pos:pos + len(alts[0])]]})", [typ], []))
            return out   # alignment lost
        for g, e in zip(got[pos:pos + len(chosen)], chosen):
            cls = type(g).__name__
            if e["name"] is not None and str(g.name).lower() != e["name"].lower():
                out.append(D("name", f"file element #{idx} {name}: imported {cls} is called {g.name!r}", [typ], []))
            for par, (vals, src, atol) in e["par"].items():
                try:
                    v = getp(g, par)
                except Exception as ex:
                    out.append(D(f"{cls}.{par}", f"{name}: cannot read {cls}.{par}: {ex}", [typ], src))
                    continue
                if not any(close(v, x, atol=atol) for x in vals):
                    if par == "fringe_integral_exit" and src == ["fint"] and any(o["key"].endswith(".fringe_integral") for o in out):
                        continue   # same dropped `fint`, already reported for the entrance face
                    present = [s for s in src if s in p]
                    out.append(D(f"{cls}.{par}", f"{name}: {typ}({_show(p)}) imports with {cls}.{par} = {v!r}, the file "
                                                 f"denotes {vals[0]!r}" + (f" (or {vals[1]!r})" if len(vals) > 1 else ""),
                                 [typ], present or src))
            for attr, val in e["str"].items():
                if getattr(g, attr) != val:
                    out.append(D(f"{cls}.{attr}", f"{name}: {cls}.{attr} = {getattr(g, attr)!r}, expected {val!r}",
                                 [typ], []))
        pos += len(chosen)
    if pos != len(got):
        out.append(D("sequence", f"{len(got) - pos} extra imported elements after the expanded line: "
                                 f"{[g.name for g in got[pos:pos + 5]]}", [], []))
    # total length = sum of the file's element lengths
    try:
        tot = float(torch.as_tensor(seg.length).reshape(-1)[0])
        if not abs(tot - ref["length"]) <= LEN_RTOL * max(1.0, abs(ref["length"])) and not out:
            out.append(D("Segment.length", f"Segment.length = {tot!r}, file lengths sum to {ref['length']!r}", [], ["l"]))
    except Exception as ex:
        out.append(D("Segment.length", f"Segment.length raised {type(ex).__name__}: {ex}", [], ["l"]))
    return out


def _show(p: dict) -> str:
    return ", ".join(f"{k}={v:g}" if isinstance(v, float) else f"{k}={v!r}" for k, v in list(p.items())[:8])


def check(lat: dict) -> list[dict]:
    """all discrepancies of one abstract lattice (raises Invalid if it is not a valid file)"""
    ref = interpret(lat)
    try:
        seg, _ = do_import(lat)
    except Exception as ex:
        return [classify_exception(ex, lat, ref)]
    try:
        return compare(lat, ref, seg)
    except Exception as ex:  # the imported object cannot even be inspected
        return [D(f"exception in inspection {type(ex).__name__}", f"{type(ex).__name__}: {ex}", [], [])]


# =================================================================================================
# features of a lattice (what spellings / constructs it uses) and the shrinker
# =================================================================================================
def stmt_exprs(s: dict) -> list:
    if s["k"] in ("var", "assign"):
        return [s["expr"]]
    if s["k"] == "elem":
        return [pe for _, pe in s["props"]]
    return []


def features(lat: dict) -> list[str]:
    f: set = set()
    stmts = list(all_stmts(lat["stmts"]))
    elem_names = {s["name"] for s in stmts if s["k"] == "elem"}
    line_names = {s["name"] for s in stmts if s["k"] == "line"}
    defined: set = set()
    for s in lat["stmts"]:
        if s["k"] == "call":
            f.add("call")
            if s.get("spell", 0) % len(CALL_SPELLINGS):
                f.add("call-spelling-variant")
    for s in stmts:
        for e in stmt_exprs(s):
            expr_kinds(e, f)
            for lit in _literals(e):
                if lit[0] == "n" and lit[1] != repr(float(lit[1])):
                    f.add("number-format")
                if lit[0] == "s":
                    for ch in sorted(set(re.findall(r"[,=:!&%]", lit[1]))):
                        f.add(f"string-with-'{ch}'")
        if s["k"] == "elem":
            if s["type"] in elem_names:
                f.add("inherit")
            if "." in s["name"]:
                f.add("dotted-name")
        if s["k"] == "assign":
            f.add("wildcard-%" if "%" in s["target"] else "wildcard-*" if "*" in s["target"] else "assign")
            if "." in s["target"]:
                f.add("dotted-name")
        if s["k"] == "line":
            for it in s["items"]:
                base = re.sub(r"^(\d+\*|-)+", "", it)
                if re.match(r"\d+\*", it):
                    f.add("rep")
                if it.startswith("-") or "*-" in it:
                    f.add("rev")
                if base in line_names:
                    f.add("nested-line")
                if base not in defined:
                    f.add("defined-after-use")
            if len(set(s["items"])) < len(s["items"]):
                f.add("repeated-entry")
        if s["k"] in ("elem", "line"):
            defined.add(s["name"])
        if s["k"] == "raw":
            f.add("raw:" + re.sub(r"[0-9.]+", "n", s["text"].strip())[:24])
        st = {**PLAIN, **s.get("st", {})} if s["k"] != "raw" else PLAIN
        if st["case"]:
            f.add("case-upper" if st["case"] == 1 else "case-title")
        for gk, gi in st["gaps"].items():
            if GAP_CHOICES[gi] != GAP_CANON[gk]:
                f.add(("blank-" if GAP_CANON[gk] == "" else "no-blank-" if GAP_CHOICES[gi] == "" else "wide-blank-")
                      + GAP_NAMES[gk])
        if st["lead"]:
            f.add("leading-blanks")
        if st["cm"]:
            after_amp = st["cm"] == 3 and st["brk"] and lat["dialect"] == "bmad"
            f.add("comment-after-&" if after_amp else "comment-line" if st["cm"] == 2 else "comment-trailing")
        if st["brk"]:
            f.add("continuation-implicit" if st["impl"] else "continuation-&")
        if st["blank"]:
            f.add("blank-line")
    if lat.get("dtype") == "float64":
        f.add("float64")
    if lat.get("root_arg", lat.get("root")) != lat.get("root"):
        f.add("root-name-case")
    return sorted(f)


def _literals(e: list):
    if e[0] in ("n", "s", "w"):
        yield e
    elif e[0] == "u":
        yield from _literals(e[1])
    elif e[0] == "f":
        yield from _literals(e[2])
    elif e[0] == "b":
        yield from _literals(e[2])
        yield from _literals(e[3])


def _expr_simplifications(e: list, env_value: Optional[float]):
    """smaller expressions to try instead of e (first the plain literal of its value)"""
    if e[0] == "n":
        if e[1] != repr(float(e[1])):
            yield ["n", repr(float(e[1]))]
        return
    if e[0] == "s":
        if e[1] != "abc":
            yield ["s", "abc"]
            for ch in sorted(set(re.findall(r"[^a-z0-9]", e[1]))):
                yield ["s", e[1].replace(ch, "") or "abc"]
        return
    if e[0] == "w":
        return
    if env_value is not None and isinstance(env_value, float) and math.isfinite(env_value):
        yield ["n", repr(env_value)]
    if e[0] == "u":
        yield e[1]
    if e[0] == "f":
        yield e[2]
    if e[0] == "b":
        yield e[2]
        yield e[3]
        for sub, i in ((e[2], 2), (e[3], 3)):
            if not is_literal(sub):
                for alt in _expr_simplifications(sub, None):
                    c = list(e)
                    c[i] = alt
                    yield c


def candidates(lat: dict, inner: bool = False):
    """one-step reductions of a lattice (possibly invalid; the caller filters with `interpret`)"""
    stmts = lat["stmts"]
    if not inner:
        for i, s in enumerate(stmts):
            if s["k"] == "call":   # the same reductions inside a called file
                for c in candidates({"dialect": lat["dialect"], "stmts": s["stmts"], "root": lat.get("root")}, True):
                    if c["stmts"] != s["stmts"]:
                        yield {**lat, "stmts": stmts[:i] + [{**s, "stmts": c["stmts"]}] + stmts[i + 1:]}

    def with_stmts(new):
        c = dict(lat)
        c["stmts"] = new
        return c

    # whole statements
    for i, s in enumerate(stmts):
        if s["k"] != "use":
            yield with_stmts(stmts[:i] + stmts[i + 1:])
    # inline call files
    for i, s in enumerate(stmts):
        if s["k"] == "call":
            yield with_stmts(stmts[:i] + s["stmts"] + stmts[i + 1:])
            if s.get("spell", 0):
                yield with_stmts(stmts[:i] + [{**s, "spell": 0}] + stmts[i + 1:])
            for j in range(len(s["stmts"])):
                yield with_stmts(stmts[:i] + [{**s, "stmts": s["stmts"][:j] + s["stmts"][j + 1:]}] + stmts[i + 1:])
    # everything plain at once, then canonical order
    if any(s.get("st") and {**PLAIN, **s["st"]} != PLAIN for s in stmts):
        yield with_stmts([{**s, "st": dict(PLAIN)} if s["k"] not in ("raw", "call") else s for s in stmts])
    order = {"raw": 0, "var": 1, "elem": 2, "assign": 3, "call": 3, "line": 4, "use": 5}
    srt = sorted(stmts, key=lambda s: order[s["k"]])
    if srt != stmts:
        yield with_stmts(srt)
    if lat.get("dtype") == "float64":
        yield {**lat, "dtype": "float32"}
    if lat.get("root_arg", lat.get("root")) != lat.get("root"):
        yield {**lat, "root_arg": lat["root"]}
    elem_defs = {s["name"]: s for s in stmts if s["k"] == "elem"}
    line_defs = {s["name"]: s for s in stmts if s["k"] == "line"}
    for i, s in enumerate(stmts):
        def put(new_s, _i=i):
            return with_stmts(stmts[:_i] + [new_s] + stmts[_i + 1:])
        if s["k"] == "line":
            for j, it in enumerate(s["items"]):
                yield put({**s, "items": s["items"][:j] + s["items"][j + 1:]})
                m = re.fullmatch(r"(\d+)\*(.+)", it)
                if m:
                    yield put({**s, "items": s["items"][:j] + [m.group(2)] * int(m.group(1)) + s["items"][j + 1:]})
                    yield put({**s, "items": s["items"][:j] + [m.group(2)] + s["items"][j + 1:]})
                elif it.startswith("-"):
                    yield put({**s, "items": s["items"][:j] + [it[1:]] + s["items"][j + 1:]})
                elif it in line_defs:
                    yield put({**s, "items": s["items"][:j] + line_defs[it]["items"] + s["items"][j + 1:]})
        if s["k"] == "elem":
            for j in range(len(s["props"])):
                yield put({**s, "props": s["props"][:j] + s["props"][j + 1:]})
            if s["type"] in elem_defs:   # flatten inheritance: own definition with the parent's properties in front
                par = elem_defs[s["type"]]
                own = {pn for pn, _ in s["props"]}
                yield put({**s, "type": par["type"],
                           "props": [pp for pp in par["props"] if pp[0] not in own] + s["props"]})
            if "." in s["name"]:
                new = s["name"].replace(".", "")
                if new not in elem_defs and new not in line_defs:
                    yield rename(lat, s["name"], new)
        if s["k"] == "assign":
            if "::" in s["target"]:
                cls, pat = s["target"].split("::")
                hits = [n for n, d in elem_defs.items() if wildcard_match(pat, n)]
                for n in hits:
                    yield put({**s, "target": n})
            elif s["target"] in elem_defs:   # fold into the definition
                tgt = elem_defs[s["target"]]
                ti = stmts.index(tgt)
                props = [pp for pp in tgt["props"] if pp[0] != s["prop"]] + [[s["prop"], s["expr"]]]
                new = [({**tgt, "props": props} if k == ti else x) for k, x in enumerate(stmts) if k != i]
                yield with_stmts(new)
        if s["k"] not in ("raw", "call"):
            st = {**PLAIN, **s.get("st", {})}
            for key in ("case", "gaps", "lead", "cm", "brk", "impl", "blank"):
                if st[key] != PLAIN[key]:
                    yield put({**s, "st": {**st, key: copy.deepcopy(PLAIN[key])}})
            for gk in st["gaps"]:
                yield put({**s, "st": {**st, "gaps": {k: v for k, v in st["gaps"].items() if k != gk}}})
            if len(st["brk"]) > 1:
                for b in st["brk"]:
                    yield put({**s, "st": {**st, "brk": [b]}})
    # expressions -> literals / sub-expressions (needs values: evaluate in a scratch interpretation)
    vals = expr_values(lat)
    for i, s in enumerate(stmts):
        if s["k"] in ("var", "assign") and not (s["expr"][0] == "n" and s["expr"][1] == repr(float(s["expr"][1]))):
            for alt in _expr_simplifications(s["expr"], vals.get((i, None))):
                yield with_stmts(stmts[:i] + [{**s, "expr": alt}] + stmts[i + 1:])
        if s["k"] == "elem":
            for j, (pn, pe) in enumerate(s["props"]):
                for alt in _expr_simplifications(pe, vals.get((i, pn))):
                    yield with_stmts(stmts[:i] + [{**s, "props": s["props"][:j] + [[pn, alt]] + s["props"][j + 1:]}]
                                     + stmts[i + 1:])


def rename(lat: dict, old: str, new: str) -> dict:
    def rn_expr(e):
        if e[0] == "a" and e[1] == old:
            return ["a", new, e[2]]
        if e[0] in ("u",):
            return [e[0], rn_expr(e[1])]
        if e[0] == "f":
            return [e[0], e[1], rn_expr(e[2])]
        if e[0] == "b":
            return [e[0], e[1], rn_expr(e[2]), rn_expr(e[3])]
        return e

    def rn(s):
        s = dict(s)
        if s["k"] == "call":
            s["stmts"] = [rn(x) for x in s["stmts"]]
            return s
        if s.get("name") == old:
            s["name"] = new
        if s["k"] == "elem":
            if s["type"] == old:
                s["type"] = new
            s["props"] = [[pn, rn_expr(pe)] for pn, pe in s["props"]]
        if s["k"] in ("var", "assign"):
            s["expr"] = rn_expr(s["expr"])
        if s["k"] == "assign" and s["target"] == old:
            s["target"] = new
        if s["k"] == "line":
            s["items"] = [re.sub(r"(^|[*-])" + re.escape(old) + "$", lambda m: m.group(1) + new, it)
                          for it in s["items"]]
        return s
    return {**lat, "stmts": [rn(s) for s in lat["stmts"]]}


def expr_values(lat: dict) -> dict:
    """value of each top-level statement's expressions at its point of definition: {(stmt index, prop|None): value}"""
    out: dict = {}
    env = {"vars": {}, "elems": {}}
    dialect = lat["dialect"]

    def run(stmts, top):
        for i, s in enumerate(stmts):
            try:
                if s["k"] == "var":
                    v = ev(s["expr"], env)
                    env["vars"][s["name"]] = v
                    if top:
                        out[(i, None)] = v
                elif s["k"] == "elem":
                    base = copy.deepcopy(env["elems"].get(s["type"], {"type": canon_type(dialect, s["type"]), "props": {}}))
                    for pn, pe in s["props"]:
                        v = ev(pe, env)
                        base["props"][pn] = v
                        if top:
                            out[(i, pn)] = v
                    env["elems"][s["name"]] = base
                elif s["k"] == "assign":
                    v = ev(s["expr"], env)
                    if top:
                        out[(i, None)] = v
                    if s["target"] in env["elems"]:
                        env["elems"][s["target"]]["props"][s["prop"]] = v
                elif s["k"] == "call":
                    run(s["stmts"], False)
            except Exception:
                pass
    run(lat["stmts"], True)
    return out


def shrink_lattice(lat: dict, key: str, max_evals: int = 350) -> dict:
    """greedy: accept any reduction that is still a valid file of the subset and still shows discrepancy `key`"""
    evals = 0

    def still(c: dict) -> bool:
        nonlocal evals
        try:
            interpret(c)
        except Exception:
            return False
        evals += 1
        try:
            return any(d["key"] == key for d in check(c))
        except Invalid:
            return False

    # big steps first: one element alone in a plain file
    try:
        for iso in isolated(lat):
            if still(iso):
                lat = iso
                break
    except Invalid:
        pass
    # statements from the back (no restart)
    i = len(lat["stmts"]) - 1
    while i >= 0 and evals < max_evals:
        if lat["stmts"][i]["k"] != "use":
            c = {**lat, "stmts": lat["stmts"][:i] + lat["stmts"][i + 1:]}
            if still(c):
                lat = c
        i -= 1
    changed = True
    while changed and evals < max_evals:
        changed = False
        for c in candidates(lat):
            if evals >= max_evals:
                break
            if still(c):
                lat, changed = c, True
                break
    return lat


def isolated(lat: dict) -> list:
    """for every element of the expanded line: a plain file with only that element (resolved literal properties)"""
    ref = interpret(lat)
    out, seen = [], set()
    for name, typ, p in ref["flat"]:
        if name in seen:
            continue
        seen.add(name)
        props = [[k, num(v) if isinstance(v, float) else ["s", str(v)]] for k, v in p.items()]
        nm = name.replace(".", "")
        stmts = [{"k": "elem", "name": nm, "type": typ, "props": props}, {"k": "line", "name": "lat", "items": [nm]}]
        if lat["dialect"] == "bmad":
            stmts.append({"k": "use", "name": "lat"})
        out.append({"dialect": lat["dialect"], "stmts": stmts, "root": "lat", "dtype": "float32"})
    return out


def map_stmts(lat: dict, fn: Callable[[dict], Optional[dict]]) -> dict:
    def go(stmts):
        out = []
        for s in stmts:
            if s["k"] == "call":
                out.append({**s, "stmts": go(s["stmts"])})
            else:
                r = fn(s)
                if r is not None:
                    out.append(r)
        return out
    return {**lat, "stmts": go(lat["stmts"])}


def map_exprs(lat: dict, fn: Callable[[list], list]) -> dict:
    def deep(e):
        if e[0] == "u":
            e = ["u", deep(e[1])]
        elif e[0] == "f":
            e = ["f", e[1], deep(e[2])]
        elif e[0] == "b":
            e = ["b", e[1], deep(e[2]), deep(e[3])]
        return fn(e)

    def st(s):
        s = dict(s)
        if s["k"] in ("var", "assign"):
            s["expr"] = deep(s["expr"])
        if s["k"] == "elem":
            s["props"] = [[pn, deep(pe)] for pn, pe in s["props"]]
        return s
    return map_stmts(lat, st)


def inline_calls(lat: dict) -> dict:
    def go(stmts):
        out = []
        for s in stmts:
            out += go(s["stmts"]) if s["k"] == "call" else [s]
        return out
    return {**lat, "stmts": go(lat["stmts"])}


def neutralise(lat: dict, feats) -> Optional[dict]:
    """the same lattice without the given features (None if a feature cannot be removed mechanically)"""
    def style(fn):
        return lambda s: s if s["k"] == "raw" else {**s, "st": fn({**PLAIN, **s.get("st", {})})}
    for f in feats:
        m = re.match(r"(blank|no-blank|wide-blank)-(.+)$", f)
        if m and m.group(2) in GAP_NAMES.values():
            gk = next(k for k, v in GAP_NAMES.items() if v == m.group(2))
            lat = map_stmts(lat, style(lambda st, gk=gk: {**st, "gaps": {k: v for k, v in st["gaps"].items() if k != gk}}))
        elif f == "leading-blanks":
            lat = map_stmts(lat, style(lambda st: {**st, "lead": 0}))
        elif f.startswith("case-"):
            lat = map_stmts(lat, style(lambda st: {**st, "case": 0}))
        elif f.startswith("comment-"):
            lat = map_stmts(lat, style(lambda st: {**st, "cm": 0}))
        elif f.startswith("continuation-"):
            lat = map_stmts(lat, style(lambda st: {**st, "brk": [], "impl": False}))
        elif f == "blank-line":
            lat = map_stmts(lat, style(lambda st: {**st, "blank": False}))
        elif f.startswith("string-with-"):
            ch = f[len("string-with-") + 1]
            lat = map_exprs(lat, lambda e, ch=ch: ["s", e[1].replace(ch, "") or "abc"] if e[0] == "s" else e)
        elif f == "number-format":
            lat = map_exprs(lat, lambda e: ["n", repr(float(e[1]))] if e[0] == "n" else e)
        elif f == "dotted-name":
            names = lattice_names(lat)
            for n in sorted(names):
                if "." in n:
                    if n.replace(".", "") in names:
                        return None
                    lat = rename(lat, n, n.replace(".", ""))
        elif f == "float64":
            lat = {**lat, "dtype": "float32"}
        elif f.startswith("call-spelling"):
            lat = {**lat, "stmts": [({**s, "spell": 0} if s["k"] == "call" else s) for s in lat["stmts"]]}
        elif f == "call":
            lat = inline_calls(lat)
        elif f in ("rpn", "var", "const", "attr-ref", "infix", "pow", "func"):
            lat = inline_calls(lat)
            vals = expr_values(lat)
            new = []
            for i, s in enumerate(lat["stmts"]):
                s = dict(s)
                if s["k"] in ("var", "assign") and not is_literal(s["expr"]) and isinstance(vals.get((i, None)), float):
                    s["expr"] = ["n", repr(vals[(i, None)])]
                if s["k"] == "elem":
                    s["props"] = [[pn, (["n", repr(vals[(i, pn)])] if not is_literal(pe) and isinstance(vals.get((i, pn)), float)
                                        else pe)] for pn, pe in s["props"]]
                new.append(s)
            lat = {**lat, "stmts": new}
        elif f in ("wildcard-%", "wildcard-*"):
            lat = inline_calls(lat)
            roots: dict = {}
            new = []
            for s in lat["stmts"]:
                if s["k"] == "elem":
                    roots[s["name"]] = roots.get(s["type"], canon_type(lat["dialect"], s["type"]))
                if s["k"] == "assign" and "::" in s["target"] and (("%" in s["target"]) == (f == "wildcard-%")):
                    cls, pat = s["target"].split("::")
                    new += [{**s, "target": n} for n, t in roots.items() if t == cls and wildcard_match(pat, n)]
                else:
                    new.append(s)
            lat = {**lat, "stmts": new}
        elif f == "root-name-case":
            lat = {**lat, "root_arg": lat["root"]}
        else:
            return None
    return lat


def signature(lat: dict, d: dict) -> str:
    feats = features(lat)
    if d["key"].startswith("omitted "):
        return f"C13|{lat['dialect']}|{','.join(d['types'])}|{d['key']}"
    if d["key"].startswith("read-but-rejected ") and not feats:
        return (f"C13|{lat['dialect']}|{','.join(d['types'])}|{d['key'].split()[1]}|"
                "read by the converter but rejected as not understood")
    if feats:
        # spelling-tied: the minimal feature set identifies the defect; its symptoms (ignored statement -> wrong value,
        # KeyError, NameError ... downstream) vary with the rest of the file and are left out of the signature
        return f"C13|{lat['dialect']}|spelling:{'+'.join(feats)}"
    return f"C13|{lat['dialect']}|{','.join(d['types'])}|{','.join(d['props'])}|{d['key']}"


# =================================================================================================
# generators
# =================================================================================================
PREFIX = {"quad": "q", "quadrupole": "q", "sben": "b", "sbend": "b", "rben": "rb", "csrcsben": "cb", "drift": "d",
          "csrdrift": "cd", "lscdrift": "ld", "kick": "kk", "sext": "sx", "mark": "m", "marker": "m", "watch": "w",
          "charge": "ch", "moni": "bpm", "monitor": "bpm", "instrument": "ins", "pipe": "pp", "sole": "so",
          "solenoid": "so", "hkick": "hc", "vkick": "vc", "hkicker": "hc", "vkicker": "vc", "ecol": "ec", "rcol": "rc",
          "ecollimator": "ec", "rcollimator": "rc", "ematrix": "em", "rfca": "ca", "rfcw": "cw", "rfdf": "td",
          "lcavity": "ca", "wiggler": "wg", "patch": "pt"}
WEIGHTS = {"quad": 4, "quadrupole": 4, "sben": 3, "sbend": 4, "drift": 4, "csrcsben": 2, "rfca": 2, "lcavity": 2,
           "solenoid": 2, "hkicker": 2, "vkicker": 1}


def rand_style(rng, dialect: str, base_case: int) -> dict:
    st = dict(PLAIN)
    st["case"] = base_case if rng.random() < 0.7 else int(rng.integers(3))
    r = rng.random()
    if r < 0.15:
        st["gaps"] = {k: 0 for k in GAP_CANON}                      # no blanks at all
    elif r < 0.55:
        st["gaps"] = {k: int(rng.integers(len(GAP_CHOICES))) for k in GAP_CANON if rng.random() < 0.2}
    else:
        st["gaps"] = {}
    st["lead"] = int(rng.integers(1, 4)) if rng.random() < 0.1 else 0
    st["sp"] = int(rng.integers(1 << 30))
    if rng.random() < 0.3:
        st["cm"] = int(rng.integers(1, 4))
        st["cmt"] = int(rng.integers(len(COMMENTS)))
    if rng.random() < 0.3:
        st["brk"] = [int(x) for x in rng.integers(0, 40, size=int(rng.integers(1, 3)))]
        st["impl"] = bool(dialect == "bmad" and rng.random() < 0.35)
    st["blank"] = bool(rng.random() < 0.1)
    return st


def gen_props(rng, dialect: str, typ: str, omit_p: float, ign_p: float) -> list:
    tb = table(dialect)[typ]
    props: list = []
    for p, kind in tb["map"].items():
        if claimed(dialect, typ, p) == "no":
            continue
        keep_p = 0.2 if kind in ("mat", "vec") else 1.0 - omit_p
        if p in tb.get("keep", []) or rng.random() < keep_p:
            props.append([p, gen_value(rng, kind)])
    for a, b in tb.get("excl", []):
        names = [p for p, _ in props]
        if a in names and b in names:
            drop = a if rng.random() < 0.5 else b
            props = [pp for pp in props if pp[0] != drop]
    names = [p for p, _ in props]
    if dialect == "bmad" and "hgap" in names and "fint" not in names and claimed(dialect, typ, "fint") != "no":
        props.append(["fint", gen_value(rng, "fint")])   # Bmad's default fint is not relied upon
    for p, kind in {**tb["ign"], **tb.get("weak", {})}.items():
        if claimed(dialect, typ, p) != "no" and rng.random() < ign_p:
            props.append([p, gen_value(rng, kind)])
    order = rng.permutation(len(props))
    return [props[int(i)] for i in order]


def wrap_expr(rng, lit: list, env: dict, new_vars: list, depth: int = 0) -> list:
    """an infix expression (Bmad) with (almost) the value of the numeric literal `lit`"""
    v = float(lit[1])
    n = lambda x: num(float(f"{x:.12g}"), rng)   # noqa: E731
    forms = ["mul", "add", "sub", "div", "neg", "const", "cosmul", "var"]
    if v > 0:
        forms += ["sq", "sqrt", "pow3", "abs", "asin"]
    if env["refs"]:
        forms.append("attr")
    form = forms[int(rng.integers(len(forms)))]
    a = float(rng.choice([2.0, 0.5, 3.0, 1.25, 10.0, 0.1]))
    if form == "mul":
        e = ["b", "*", n(a), n(v / a)]
    elif form == "add":
        e = ["b", "+", n(v - a), n(a)]
    elif form == "sub":
        e = ["b", "-", n(v + a), n(a)]
    elif form == "div":
        e = ["b", "/", n(v * a), n(a)]
    elif form == "neg":
        e = ["u", n(-v)] if v != 0 else ["b", "-", n(a), n(a)]
    elif form == "const":
        c = str(rng.choice(["pi", "twopi", "raddeg"]))
        e = ["b", "*", n(v / CONSTS[c]), ["c", c]]
    elif form == "cosmul":
        e = ["b", "*", n(v), ["f", "cos", ["n", "0"]]]
    elif form == "sq":
        e = ["b", "^", n(math.sqrt(v)), ["n", "2"]]
    elif form == "sqrt":
        e = ["f", "sqrt", n(v * v)]
    elif form == "pow3":
        e = ["b", "*", n(v / 8), ["b", "^", ["n", "2"], ["n", "3"]]]
    elif form == "abs":
        e = ["f", "abs", n(-v)]
    elif form == "asin":
        e = ["b", "*", n(v / math.asin(0.5)), ["f", "asin", ["n", "0.5"]]]
    elif form == "attr":
        el, pr, val = env["refs"][int(rng.integers(len(env["refs"])))]
        e = ["b", "*", ["a", el, pr], n(v / val)] if rng.random() < 0.5 else ["b", "+", n(v - val), ["a", el, pr]]
    else:
        name = f"v{len(env['varnames']) + 1}" + str(rng.choice(["", "_a", "x"]))
        env["varnames"].append(name)
        sub = lit if depth or rng.random() < 0.6 else wrap_expr(rng, lit, env, new_vars, depth + 1)
        new_vars.append({"k": "var", "name": name, "expr": sub})
        e = ["v", name]
    if depth == 0 and e[0] == "b" and rng.random() < 0.25:   # one more level
        i = 2 if is_literal(e[2]) and e[2][0] == "n" else 3
        if e[i][0] == "n" and not e[i][1].startswith("-") and e[1] != "^":
            e = list(e)
            e[i] = wrap_expr(rng, e[i], env, new_vars, depth + 1)
    return e


def gen_lattice(rng, dialect: str) -> dict:
    tb = table(dialect)
    types = [t for t in tb if t in claims(dialect)] or list(tb)
    w = np.array([WEIGHTS.get(t, 1) for t in types], dtype=float)
    n_el = int(rng.integers(2, 7))
    base_case = int(rng.choice([0, 0, 1, 2]))
    env = {"refs": [], "varnames": []}
    stmts: list = []
    elems: list = []
    counters: dict = {}
    use_expr = dialect == "bmad" and rng.random() < 0.6
    use_rpn = dialect == "elegant" and rng.random() < 0.08
    dotted = rng.random() < 0.08
    for _ in range(n_el):
        typ = types[int(rng.choice(len(types), p=w / w.sum()))]
        counters[typ] = counters.get(typ, 0) + 1
        name = PREFIX.get(typ, "x") + ("." if dotted and rng.random() < 0.5 else "") + str(counters[typ])
        same = [n for n, t in elems if t == typ]
        if same and rng.random() < 0.3:
            # a name that extends another element's name (q1 / q1a): wildcard patterns must match whole names
            cand = same[int(rng.integers(len(same)))] + str(rng.choice(["a", "x", "0"]))
            if all(cand != n for n, _ in elems):
                name = cand
        spelled = typ if rng.random() < 0.7 else str(rng.choice([typ] + tb[typ].get("alias", [])))
        props = gen_props(rng, dialect, typ, omit_p=0.08, ign_p=0.25)
        new_vars: list = []
        for pp in props:
            if pp[1][0] != "n":
                continue
            if use_expr and rng.random() < 0.4:
                pp[1] = wrap_expr(rng, pp[1], env, new_vars)
            elif use_rpn and rng.random() < 0.5:
                v, a = float(pp[1][1]), 2.0
                pp[1] = ["rpn", repr(v / a), "*", repr(a)]
        stmts += new_vars
        stmts.append({"k": "elem", "name": name, "type": spelled, "props": props})
        elems.append((name, typ))
        for pn, pe in props:
            if pe[0] == "n" and float(pe[1]) != 0 and use_expr:
                env["refs"].append((name, pn, float(pe[1])))
        # inheritance: a second element defined from this one
        if rng.random() < 0.25:
            counters[typ] += 1
            child = PREFIX.get(typ, "x") + str(counters[typ])
            over = [pp for pp in gen_props(rng, dialect, typ, omit_p=0.0, ign_p=0.0) if rng.random() < 0.3
                    and pp[0] not in sum(tb[typ].get("excl", []), ())]
            stmts.append({"k": "elem", "name": child, "type": name, "props": over})
            elems.append((child, typ))
    # later assignments (Bmad)
    if dialect == "bmad":
        for _ in range(int(rng.choice([0, 0, 1, 2, 3]))):
            name, typ = elems[int(rng.integers(len(elems)))]
            cand = [p for p, k in tb[typ]["map"].items() if claimed(dialect, typ, p) != "no"
                    and p not in sum(tb[typ].get("excl", []), ())]
            if not cand:
                continue
            p = cand[int(rng.integers(len(cand)))]
            e = gen_value(rng, tb[typ]["map"][p])
            if use_expr and rng.random() < 0.3:
                nv: list = []
                e = wrap_expr(rng, e, env, nv)
                stmts += nv
            r = rng.random()
            target = name
            if r < 0.25:
                target = f"{typ}::*"
            elif r < 0.4:
                target = f"{typ}::{name[0]}*"
            elif r < 0.5 and "." not in name:
                target = f"{typ}::{name[:-1]}%"
            elif r < 0.6 and len(name) >= 3 and "." not in name:
                target = f"{typ}::{name[0]}*{name[-1]}"
            stmts.append({"k": "assign", "target": target, "prop": p, "expr": e})
    # lines
    names = [n for n, _ in elems]
    subs: list = []
    for ln in ["cell", "arc"][:int(rng.choice([0, 0, 1, 2]))]:
        pool = names + [s for s in subs]
        items = [pool[int(rng.integers(len(pool)))] for _ in range(int(rng.integers(1, 5)))]
        stmts.append({"k": "line", "name": ln, "items": items})
        subs.append(ln)
    root = str(rng.choice(["lat", "ring", "fodo", "l0"]))
    pool = names + subs + subs
    items = [pool[int(rng.integers(len(pool)))] for _ in range(int(rng.integers(2, 9)))]
    for n in names:   # every element appears w.p. 0.8
        if n not in items and not any(n in s["items"] for s in stmts if s["k"] == "line") and rng.random() < 0.8:
            items.insert(int(rng.integers(len(items) + 1)), n)
    stmts.append({"k": "line", "name": root, "items": items})
    if dialect == "bmad":
        if subs and rng.random() < 0.3:
            # an earlier `use` (e.g. of an included stand-alone cell file): the last one selects the beamline
            stmts.append({"k": "use", "name": subs[int(rng.integers(len(subs)))]})
        stmts.append({"k": "use", "name": root})
        for text in ["beginning[beta_a] = 10.", "parameter[geometry] = open", "parameter[particle] = electron",
                     "beginning[e_tot] = 10e6"]:
            if rng.random() < 0.3:
                stmts.insert(0, {"k": "raw", "text": text + ("  ! m" if rng.random() < 0.5 else "")})
        stmts = shuffle_valid(rng, stmts)
    else:
        if rng.random() < 0.3:
            stmts.insert(0, {"k": "raw", "text": "! Elegant lattice, generated"})
    for s in stmts:
        if s["k"] != "raw":
            s["st"] = rand_style(rng, dialect, base_case)
    if dialect == "bmad" and rng.random() < 0.15 and len(stmts) > 3:
        i = int(rng.integers(0, len(stmts) - 1))
        j = int(rng.integers(i + 1, min(len(stmts), i + 4) + 1))
        block = [s for s in stmts[i:j]]
        stmts = stmts[:i] + [{"k": "call", "file": "sub.bmad", "spell": int(rng.choice([0, 0, 0, 1, 2, 3, 4, 5, 6, 7])),
                              "stmts": block}] + stmts[j:]
    return {"dialect": dialect, "stmts": stmts, "root": root,
            "dtype": "float64" if rng.random() < 0.2 else "float32"}


def stmt_needs(s: dict) -> set:
    need: set = set()
    for e in stmt_exprs(s):
        for r in expr_refs(e, set()):
            need.add(r[1])
    if s["k"] == "assign" and "::" not in s["target"]:
        need.add(s["target"])
    return need


def shuffle_valid(rng, stmts: list) -> list:
    """random order that keeps: variable / referenced element / parent / assignment target defined before use"""
    elem_names = {s["name"] for s in stmts if s["k"] == "elem"}
    remaining = list(stmts)
    defined: set = set()
    out: list = []
    while remaining:
        ok = []
        for i, s in enumerate(remaining):
            need = stmt_needs(s)
            if s["k"] == "elem" and s["type"] in elem_names:
                need.add(s["type"])
            if s["k"] == "assign" and "::" in s["target"]:
                # keep wildcard assignments behind every earlier statement (their meaning depends on what exists)
                if i != 0:
                    continue
            if need <= defined:
                ok.append(i)
        if not ok:
            ok = [0]
        i = ok[0] if rng.random() < 0.6 else ok[int(rng.integers(len(ok)))]
        s = remaining.pop(i)
        if s["k"] in ("var", "elem"):
            defined.add(s["name"])
        out.append(s)
    return out


def sweep_lattices(dialect: str) -> list:
    """deterministic: per type one element with all claimed mapped properties, and one per omitted property"""
    out = []
    for typ, tb in table(dialect).items():
        if typ not in claims(dialect):
            continue
        mapped = [p for p in tb["map"] if claimed(dialect, typ, p) != "no"]
        if tb["map"] and any(k in ("mat", "vec") for k in tb["map"].values()):
            mapped = ["l", "r11", "r12", "r21", "r22", "r33", "r34", "r43", "r44", "r55", "r56", "r66", "r16", "r51",
                      "c1", "c2", "c4", "c5"]
        variants = [mapped]
        for a, b in tb.get("excl", []):
            variants = [[p for p in mapped if p != a], [p for p in mapped if p != b]]
        for vi, var in enumerate(variants):
            vals = {}
            for k, p in enumerate(var):
                m = MENUS[tb["map"][p]]
                vals[p] = num([x for x in m if x != 0][(k + vi) % len([x for x in m if x != 0])])
            omits = [None] + [p for p in var if p not in tb.get("keep", [])] if vi == 0 else [None]
            for om in omits:
                props = [[p, vals[p]] for p in var if p != om]
                stmts = [{"k": "elem", "name": "d0", "type": "drift", "props": [["l", ["n", "0.5"]]]},
                         {"k": "elem", "name": "x1", "type": typ, "props": props},
                         {"k": "line", "name": "lat", "items": ["d0", "x1", "d0"]}]
                if dialect == "bmad":
                    stmts.append({"k": "use", "name": "lat"})
                out.append((f"{typ}:{'all' if om is None else 'omit ' + om}",
                            {"dialect": dialect, "stmts": stmts, "root": "lat", "dtype": "float32"}))
            # aliases of the type keyword
            for al in tb.get("alias", []):
                stmts = [{"k": "elem", "name": "x1", "type": al, "props": [[p, vals[p]] for p in var]},
                         {"k": "line", "name": "lat", "items": ["x1"]}]
                out.append((f"{typ}:alias {al}", {"dialect": dialect, "stmts": stmts, "root": "lat", "dtype": "float32"}))
    return out


def probe_lattices() -> list:
    """grammar the converter does not claim: (label, lattice).  Loud rejection is counted, silent wrong result alarms."""
    def base(dialect, items, extra=(), elemprops=None):
        ty = "quad" if dialect == "elegant" else "quadrupole"
        stmts = [{"k": "elem", "name": "q1", "type": ty, "props": elemprops or [["l", ["n", "0.2"]], ["k1", ["n", "1.5"]]]},
                 {"k": "elem", "name": "d1", "type": "drift", "props": [["l", ["n", "1.0"]]]},
                 {"k": "line", "name": "cell", "items": ["q1", "d1"]}] + list(extra) + \
                [{"k": "line", "name": "lat", "items": items}]
        if dialect == "bmad":
            stmts.append({"k": "use", "name": "lat"})
        return {"dialect": dialect, "stmts": stmts, "root": "lat", "dtype": "float32"}
    out = []
    for dl in ("elegant", "bmad"):
        out.append((f"{dl}:repetition 2*cell", base(dl, ["2*cell", "d1"])))
        out.append((f"{dl}:reversed -cell", base(dl, ["-cell", "d1"])))
        out.append((f"{dl}:repetition 2*q1", base(dl, ["2*q1", "d1"])))
    out.append(("elegant:root name in upper case", {**base("elegant", ["cell"]), "root_arg": "LAT"}))
    out.append(("elegant:nested rpn", base("elegant", ["q1"], elemprops=[["l", ["rpnx", "0.1 2 * 1 *", 0.2]], ["k1", ["n", "1.5"]]])))
    out.append(("elegant:unquoted string", base("elegant", ["q1"], elemprops=[["l", ["n", "0.2"]], ["k1", ["n", "1"]],
                                                                              ["group", ["w", "abc"]]])))
    out.append(("bmad:unquoted string", base("bmad", ["q1"], elemprops=[["l", ["n", "0.2"]], ["k1", ["n", "1"]],
                                                                        ["type", ["w", "abc"]]])))
    for dialect in ("elegant", "bmad"):
        for typ, tb in table(dialect).items():
            for p, kind in tb.get("probe", {}).items():
                if claimed(dialect, typ, p) != "no":
                    continue
                props = [["l", ["n", "0.5"]], [p, num(MENUS[kind][0])]]
                if typ in ("sben", "sbend"):
                    props += [["angle", ["n", "0.1"]], ["e1", ["n", "0.05"]]]
                stmts = [{"k": "elem", "name": "x1", "type": typ, "props": props},
                         {"k": "line", "name": "lat", "items": ["x1"]}]
                if dialect == "bmad":
                    stmts.append({"k": "use", "name": "lat"})
                out.append((f"{dialect}:{typ}.{p}", {"dialect": dialect, "stmts": stmts, "root": "lat", "dtype": "float32"}))
    return out


def feature_lattices() -> list:
    """deterministic single-feature files so that every spelling-tied finding is met in every run"""
    out = []
    for dialect in ("elegant", "bmad"):
        qt = "quad" if dialect == "elegant" else "quadrupole"

        def mk(stmts, dialect=dialect, items=("q1", "d1", "q2", "d1")):
            stmts = list(stmts) + [{"k": "line", "name": "lat", "items": list(items)}]
            if dialect == "bmad":
                stmts.append({"k": "use", "name": "lat"})
            return {"dialect": dialect, "stmts": stmts, "root": "lat", "dtype": "float32"}
        q1 = {"k": "elem", "name": "q1", "type": qt, "props": [["l", ["n", "0.2"]], ["k1", ["n", "1.5"]]]}
        q2 = {"k": "elem", "name": "q2", "type": qt, "props": [["l", ["n", "0.1"]], ["k1", ["n", "-3"]]]}
        d1 = {"k": "elem", "name": "d1", "type": "drift", "props": [["l", ["n", "1"]]]}
        out.append((f"{dialect}:plain", mk([q1, q2, d1])))
        out.append((f"{dialect}:inherit", mk([q1, {"k": "elem", "name": "q2", "type": "q1", "props": [["k1", ["n", "-3"]]]}, d1])))
        out.append((f"{dialect}:inherit-bare", mk([q1, {"k": "elem", "name": "q2", "type": "q1", "props": []}, d1])))
        for case in (1, 2):
            out.append((f"{dialect}:case{case}", mk([{**s, "st": {**PLAIN, "case": case}} for s in (q1, q2, d1)])))
        out.append((f"{dialect}:nospace", mk([{**s, "st": {**PLAIN, "gaps": {k: 0 for k in GAP_CANON}}} for s in (q1, q2, d1)])))
        for gk in GAP_CANON:
            for gi in (1, 3):
                if GAP_CHOICES[gi] != GAP_CANON[gk]:
                    out.append((f"{dialect}:gap {gk} {gi}", mk([{**s, "st": {**PLAIN, "gaps": {gk: gi}}} for s in (q1, q2, d1)])))
        out.append((f"{dialect}:lead", mk([{**s, "st": {**PLAIN, "lead": 2}} for s in (q1, q2, d1)])))
        for txt in ("a, b", "a=b", "a:b", "%s.w1"):
            pn = "group" if dialect == "elegant" else "type"
            out.append((f"{dialect}:string {txt}", mk([{**q1, "props": q1["props"] + [[pn, ["s", txt]]]}, q2, d1])))
        out.append((f"{dialect}:cont", mk([{**q1, "st": {**PLAIN, "brk": [3]}}, {**q2, "st": {**PLAIN, "brk": [2, 6]}}, d1])))
        out.append((f"{dialect}:comments", mk([{**q1, "st": {**PLAIN, "cm": 1, "cmt": 1}},
                                               {**q2, "st": {**PLAIN, "cm": 2, "cmt": 2}}, {**d1, "st": {**PLAIN, "cm": 1, "cmt": 3}}])))
        out.append((f"{dialect}:dotted", rename(mk([q1, q2, d1]), "q2", "q.2")))
        out.append((f"{dialect}:dotted parent", rename(mk([{**q1, "name": "q0"}, {"k": "elem", "name": "q1", "type": "q0", "props": []},
                                                            q2, d1]), "q0", "q.0")))
        if dialect == "elegant":
            out.append(("elegant:rpn", mk([{**q1, "props": [["l", ["rpn", "0.1", "*", "2"]], ["k1", ["n", "1.5"]]]}, q2, d1])))
            # unquoted RPN with the operators whose operand order matters
            out.append(("elegant:rpn-unquoted -", mk([{**q1, "props": [["l", ["rpnu", "0.5", "-", "0.3"]], ["k1", ["n", "1.5"]]]}, q2, d1])))
            out.append(("elegant:rpn-unquoted /", mk([{**q1, "props": [["l", ["n", "0.2"]], ["k1", ["rpnu", "3", "/", "2"]]]}, q2, d1])))
        else:
            out.append(("bmad:expr", mk([{"k": "var", "name": "lq", "expr": ["b", "*", ["n", "0.1"], ["n", "2"]]},
                                         {**q1, "props": [["l", ["v", "lq"]], ["k1", ["b", "^", ["n", "2"], ["n", "2"]]]]},
                                         {**q2, "props": [["l", ["b", "/", ["v", "lq"], ["n", "2"]]],
                                                          ["k1", ["u", ["b", "*", ["a", "q1", "k1"], ["f", "sqrt", ["n", "4"]]]]]]}, d1])))
            out.append(("bmad:dotted attr-ref", rename(mk([q1, {**q2, "props": [["l", ["n", "0.1"]], ["k1", ["u", ["a", "q1", "k1"]]]]}, d1]),
                                                       "q1", "q.1")))
            out.append(("bmad:assign", mk([q1, q2, d1, {"k": "assign", "target": "q1", "prop": "k1", "expr": ["n", "0.7"]}])))
            out.append(("bmad:wildcard*", mk([q1, q2, d1, {"k": "assign", "target": "quadrupole::q*", "prop": "k1", "expr": ["n", "0.7"]}])))
            out.append(("bmad:wildcard%", mk([q1, q2, d1, {"k": "assign", "target": "quadrupole::q%", "prop": "k1", "expr": ["n", "0.7"]}])))
            # the right-hand side of a wildcard assignment may mention one of the matched elements: it is evaluated once, before
            # any of them is written (q1 first in the dictionary, so a per-element evaluation would show on q2)
            out.append(("bmad:wildcard* self-reference", mk([q1, q2, d1, {"k": "assign", "target": "quadrupole::q*", "prop": "k1",
                                                                          "expr": ["b", "*", ["n", "2"], ["a", "q1", "k1"]]}])))
            # a wildcard pattern selects the names it matches as a whole (q1, not q1a / q12)
            q1a = {**q2, "name": "q1a"}
            q12 = {**q2, "name": "q12"}
            out.append(("bmad:wildcard% whole name", mk([q1, q1a, d1, {"k": "assign", "target": "quadrupole::q%", "prop": "k1", "expr": ["n", "0.7"]}], items=("q1", "d1", "q1a", "d1"))))
            out.append(("bmad:wildcard*x whole name", mk([q1, q12, d1, {"k": "assign", "target": "quadrupole::q*1", "prop": "k1", "expr": ["n", "0.7"]}], items=("q1", "d1", "q12", "d1"))))
            out.append(("bmad:dotted-assign", rename(mk([q1, q2, d1, {"k": "assign", "target": "q2", "prop": "k1", "expr": ["n", "0.7"]}]), "q2", "q.2")))
            out.append(("bmad:implicit-cont", mk([{**q1, "st": {**PLAIN, "brk": [3], "impl": True}}, q2, d1])))
            out.append(("bmad:order", {"dialect": "bmad", "root": "lat", "dtype": "float32", "stmts": [
                {"k": "use", "name": "lat"}, {"k": "line", "name": "lat", "items": ["q1", "d1", "q2"]}, d1, q2, q1]}))
            for sp in range(len(CALL_SPELLINGS)):
                out.append((f"bmad:call{sp}", mk([q1, q2, d1, {"k": "call", "file": "sub.bmad", "spell": sp, "stmts": [
                    {"k": "assign", "target": "q1", "prop": "k1", "expr": ["n", "0.7"]}]}])))
                out.append((f"bmad:call{sp} with definitions", mk([q1, d1, {"k": "call", "file": "sub.bmad", "spell": sp,
                                                                             "stmts": [q2]}])))
                out.append((f"bmad:call{sp} with use", {"dialect": "bmad", "root": "lat", "dtype": "float32", "stmts": [
                    q1, d1, {"k": "line", "name": "lat", "items": ["q1", "d1"]},
                    {"k": "call", "file": "sub.bmad", "spell": sp, "stmts": [{"k": "use", "name": "lat"}]}]}))
    return out


# =================================================================================================
# examining one lattice: check, shrink each distinct discrepancy, report
# =================================================================================================
def file_text(lat: dict) -> str:
    d = workdir()
    for f in d.iterdir():
        f.unlink()
    main = render(lat, d)
    txt = main.read_text()
    for f in sorted(d.iterdir()):
        if f != main:
            txt += f"\n--- {f.name} ---\n" + f.read_text()
    return txt


_ELEMENT_SIGS: dict = {}        # (dialect, key, types, props) of an isolated element -> signature, within this run
_KNOWN_SPELLINGS: list = []     # [(dialect, features, generic key, signature)] spelling-tied defects found in this run
# features that only provide the context in which a spelling defect becomes visible
CONTEXT_FEATURES = {"assign"}


def generic_key(key: str) -> str:
    if key.startswith("exception"):
        return key.split(":")[0]
    return "value" if re.fullmatch(r"[A-Za-z]+\.[A-Za-z_0-9\[\],]+", key) else key


def repair(lat: dict, d: dict) -> Optional[dict]:
    """a lattice that avoids the (already reported) element-tied defect `d`, so that the rest of the file is examined"""
    dialect = lat["dialect"]
    roots: dict = {}
    for s in all_stmts(lat["stmts"]):
        if s["k"] == "elem":
            roots[s["name"]] = roots.get(s["type"], canon_type(dialect, s["type"]))
    if d["key"].startswith("omitted "):
        prop = d["key"].split()[1].split("|")[0]
        kind = next((table(dialect)[t]["map"][prop] for t in d["types"] if prop in table(dialect)[t]["map"]), None)
        if kind is None:
            return None
        val = num([x for x in MENUS[kind] if x != 0][0])

        def add(s):
            if s["k"] == "elem" and canon_type(dialect, s["type"]) in d["types"] and prop not in [p for p, _ in s["props"]]:
                return {**s, "props": s["props"] + [[prop, val]]}
            return s
        return map_stmts(lat, add)
    if d["props"] and d["types"]:
        # drop the offending properties from every element of the type (definitions and later assignments)
        def drop(s):
            if s["k"] == "elem" and roots.get(s["name"]) in d["types"]:
                return {**s, "props": [pp for pp in s["props"] if pp[0] not in d["props"]]}
            if s["k"] == "assign" and s["prop"] in d["props"]:
                tgt = s["target"]
                if (tgt.split("::")[0] in d["types"]) if "::" in tgt else (roots.get(tgt) in d["types"]):
                    return None
            return s
        new = map_stmts(lat, drop)
        return new if new != lat else None
    return None


def examine(rep, lat: dict, do_shrink: bool = True, probe: Optional[str] = None, budget: Optional[list] = None,
            depth: int = 0) -> list:
    """returns the discrepancies found; reports the alarming ones"""
    try:
        ds = check(lat)
    except Invalid:
        rep.count("generator-invalid")
        return []
    for d in ds:
        if not d["alarm"]:
            rep.count(d["key"])
    if probe is not None:
        # unclaimed grammar: an exception is a loud rejection (counted); a wrong result without exception is an alarm
        loud = [d for d in ds if d["key"].startswith(("exception", "rejected:", "omitted"))]
        rep.count(f"probe {probe}: " + ("rejected " + loud[0]["key"][:40] if loud else "wrong result" if ds else "accepted, correct"))
        if loud:
            return ds
    seen_keys: set = set()
    follow: Optional[dict] = None
    for d in ds:
        if not d["alarm"] or d["key"] in seen_keys:
            continue
        seen_keys.add(d["key"])
        masked = d["key"].startswith(("exception", "omitted", "read-but", "class", "sequence"))
        cache_key = None
        if not do_shrink:
            small, d2 = lat, d
        else:
            small = None
            # (a) one element alone in a plain file shows it -> element-tied
            try:
                for iso in isolated(lat):
                    hit = next((x for x in check(iso) if x["key"] == d["key"]), None)
                    if hit is not None:
                        ck = (lat["dialect"], d["key"], tuple(hit["types"]), tuple(hit["props"]))
                        if ck in _ELEMENT_SIGS:        # met before in this run: same element-tied defect
                            rep.fail("falsifier", _ELEMENT_SIGS[ck], "", {})
                            small = False
                            if masked and follow is None:
                                follow = repair(lat, hit)
                        else:
                            small = shrink_lattice(iso, d["key"], max_evals=120)
                            cache_key = ck
                        break
            except Invalid:
                pass
            # (b) it disappears when the features of a spelling defect already found in this run are removed
            if small is None:
                for kdialect, feats, gkey, sig in _KNOWN_SPELLINGS:
                    if kdialect != lat["dialect"]:
                        continue
                    core = [f for f in feats if f not in CONTEXT_FEATURES]
                    neutral = neutralise(lat, core) if core and set(core) <= set(features(lat)) else None
                    if neutral is None:
                        continue
                    try:
                        if not any(x["key"] == d["key"] for x in check(neutral)):
                            rep.fail("falsifier", sig, "", {})     # same signature: counted as one more case
                            if masked and follow is None:
                                follow = neutral
                            small = False
                            break
                    except Invalid:
                        continue
            if small is False:
                continue
            # (c) full shrink
            if small is None:
                if budget is not None:
                    if budget[0] <= 0:
                        rep.count("not shrunk (budget): " + d["key"][:50])
                        continue
                    budget[0] -= 1
                small = shrink_lattice(lat, d["key"])
            try:
                d2 = next((x for x in check(small) if x["key"] == d["key"]), None)
            except Invalid:
                d2 = None
            if d2 is None:
                small, d2 = lat, d
        sig = signature(small, d2)
        if probe is not None:
            sig = f"C13|probe {probe}|silently wrong|{d2['key']}"
        feats = features(small)
        if cache_key is not None and not feats:
            _ELEMENT_SIGS[cache_key] = sig
        if feats and do_shrink and probe is None and small is not lat and not any(sig == k[3] for k in _KNOWN_SPELLINGS):
            _KNOWN_SPELLINGS.append((lat["dialect"], tuple(feats), generic_key(d["key"]), sig))
        rep.fail("falsifier", sig, f"{lat['dialect']} import: {d2['what']}  [file: {file_text(small).strip()!r}]"[:900],
                 {"kind": "lattice", "lattice": small, "key": d["key"], "file": file_text(small), "probe": probe})
        if masked and follow is None and do_shrink and probe is None:
            follow = neutralise(lat, feats) if feats else repair(lat, d2)
    # what the first (masking) defect hid: examine the file again without it
    if follow is not None and depth < 6:
        try:
            interpret(follow)
            examine(rep, follow, do_shrink, probe, budget, depth + 1)
        except Invalid:
            pass
    return ds


# =================================================================================================
# NX tables
# =================================================================================================
NX_HEADER = ("NAME,CLASS,X_beam,Y_beam,Z_beam,PHI_beam,THETA_beam,PSI_beam,empty,Xp,Yp,Zp,PHIp,THETAp,PSIp,empty1,"
             "Xp_beam,Yp_beam,Zp_beam,PHIp_beam,THETAp_beam,PSIp_beam,empty2,Beam_radius_X,Beam_radius_Y,Stage,"
             "CAD_Sub_section,Comments")
# ARES class code -> (Cheetah class it stands for, upper bound of the length the converter gives it)
NX_CLASSES = {
    "MQZM": ("Quadrupole", 0.122), "MCHM": ("HorizontalCorrector", 0.02), "MCVM": ("VerticalCorrector", 0.02),
    "MBHL": ("Dipole", 0.322), "MBHB": ("Dipole", 0.22), "MBHO": ("Dipole", 0.43852543421396856),
    "RSBL": ("Cavity", 4.139), "RXBD": ("Cavity", 1.0), "UNDA": ("Undulator", 0.25),
    "BSCX": ("Screen", 0.0), "BSCR": ("Screen", 0.0), "BSCM": ("Screen", 0.0), "BSCO": ("Screen", 0.0),
    "BSCA": ("Screen", 0.0), "BSCE": ("Screen", 0.0), "SCRD": ("Screen", 0.0), "BPMG": ("BPM", 0.0), "BPML": ("BPM", 0.0),
    "SLHG": ("Aperture", 0.0), "SLHB": ("Aperture", 0.0), "SLHS": ("Aperture", 0.0),
    "SOLG": ("Marker", 0.0), "BCMG": ("Marker", 0.0), "EOLG": ("Marker", 0.0), "TORF": ("Marker", 0.0),
    "MKBB": ("Marker", 0.0), "WINA": ("Marker", 0.0), "ECHA": ("Marker", 0.0),
    "MCXG": ("HV", 1e-4),
}
# class codes of things that are not beamline elements of the model (supports, vacuum, lasers ...): never imported
NX_IGNORED = ["RSBG", "MSOB", "MSOH", "MSOG", "VVAG", "BSCL", "MIRA", "BAML", "SCRL", "TEMG", "FCNG", "SOLE", "EOLE",
              "MSOL", "BELS", "VVAF", "MIRM", "SCRY", "FPSA", "VPUL", "SOLC", "SCRE", "SOLX", "ICTB", "BSCS"]


NX_WORST = [0.0]   # largest centre-position error / tolerance seen (head-room measurement)


def gen_nx(rng) -> dict:
    n = int(rng.integers(2, 14))
    codes = list(NX_CLASSES)
    rows, z_end = [], float(rng.choice([0.0, 0.0, -0.3, 1.25]))
    first = True
    for i in range(n):
        code = codes[int(rng.integers(len(codes)))] if rng.random() < 0.8 else \
            str(rng.choice(["MQZM", "MCHM", "MBHL", "BSCR", "BPMG"]))
        L = NX_CLASSES[code][1]
        r = rng.random()
        if first:
            gap = 0.0
        elif r < 0.12:
            gap = 0.0                                # touching / coincident with the previous element
        else:
            gap = float(f"{rng.uniform(0.001, 2.0):.6f}")
        z = round(z_end + gap + L / 2, 6)
        if z - L / 2 < z_end - 1e-12 and not first:  # rounding of z must not create an overlap
            z = round(z + 1e-6, 6)
        tag = "ARXX" + ("MC" if code != "MCXG" else "MC") + ("X" if code == "MCXG" else "Q") + f"{code[:2]}{i}"
        rows.append({"name": tag, "cls": code, "z": z})
        z_end = z + L / 2
        first = False
    # rows the converter ignores, anywhere (also on top of other elements)
    for j in range(int(rng.choice([0, 1, 2, 3]))):
        rows.append({"name": f"ARIGNO{j}", "cls": NX_IGNORED[int(rng.integers(len(NX_IGNORED)))],
                     "z": round(float(rng.uniform(rows[0]["z"] - 1, z_end + 1)), 6)})
    order = [int(i) for i in rng.permutation(len(rows))] if rng.random() < 0.6 else list(range(len(rows)))
    return {"rows": [rows[i] for i in order], "fmt": int(rng.integers(2))}


def nx_text(nx: dict) -> str:
    lines = [NX_HEADER]
    for r in nx["rows"]:
        z = f"{r['z']:.6f}" if nx.get("fmt", 0) == 0 else repr(float(r["z"]))
        lines.append(f"{r['name']},{r['cls']},0.000000,0.000000,{z},0.000000,0.000000,0.000000,NaN,0.000000,0.000000,"
                     f"0.000000,0.000000,0.000000,0.000000,NaN,0.000000,0.000000,0.000000,0.000000,0.000000,0.000000,"
                     f"NaN,5,5,Stage0 -P,LI.a,")
    return "\n".join(lines) + "\n"


def check_nx(nx: dict) -> list[dict]:
    d = workdir()
    path = d / "layout.txt"
    path.write_text(nx_text(nx))
    rows = [r for r in nx["rows"] if r["cls"] not in NX_IGNORED]
    rows = sorted(rows, key=lambda r: r["z"])      # stable, like a tabulated layout read in file order
    if not rows:
        return []
    nl = lambda r: NX_CLASSES.get(r["cls"], ("?", 0.0))[1]   # noqa: E731
    touching = any(abs((b["z"] - nl(b) / 2) - (a["z"] + nl(a) / 2)) < 5e-7 and nl(a) + nl(b) > 0
                   for a, b in zip(rows[:-1], rows[1:]))
    buf = io.StringIO()
    try:
        with contextlib.redirect_stdout(buf):
            seg = cheetah.Segment.from_nx_tables(str(path))
    except Exception as ex:
        name = type(ex).__name__
        if isinstance(ex, AssertionError) and "overlap" in str(ex):
            # elements that exactly touch: the drift length comes out as -1e-9 from float32 half-lengths
            return [D("touching elements|AssertionError overlap" if touching else "AssertionError overlap",
                      f"{name}: {str(ex)[:160]}", [], [])]
        return [D(f"exception {name}", f"{name}: {str(ex)[:160]}", [], [])]
    els = flatten(seg)
    out: list[dict] = []
    pos, spans = 0.0, {}
    for el in els:
        L = float(torch.as_tensor(getattr(el, "length", 0.0)).reshape(-1)[0]) if hasattr(el, "length") else 0.0
        spans.setdefault(el.name, []).append((pos, pos + L, type(el).__name__))
        pos += L
    span = rows[-1]["z"] - rows[0]["z"]
    atol = 2e-5 * (1.0 + abs(span))

    def centre(r):
        if r["cls"] == "MCXG":
            nh, nv = r["name"][:6] + "H" + r["name"][7:], r["name"][:6] + "V" + r["name"][7:]
            if nh not in spans or nv not in spans:
                return None, None
            return 0.5 * (spans[nh][0][0] + spans[nv][0][1]), "HV"
        if r["name"] not in spans:
            return None, None
        a, b, cls = spans[r["name"]][0]
        return 0.5 * (a + b), cls

    c0, _ = centre(rows[0])
    if c0 is None:
        return [D("missing element", f"first element {rows[0]['name']} ({rows[0]['cls']}) is not in the imported segment", [], [])]
    # every element's centre at its tabulated position (relative to the first element)
    for r in rows:
        c, cls = centre(r)
        if c is None:
            out.append(D("missing element", f"{r['name']} ({r['cls']}) is not in the imported segment", [], []))
            continue
        if r["cls"] in NX_CLASSES and cls != NX_CLASSES[r["cls"]][0]:
            out.append(D(f"class {r['cls']}", f"{r['name']}: class code {r['cls']} imported as {cls}", [], []))
        NX_WORST[0] = max(NX_WORST[0], abs((c - c0) - (r["z"] - rows[0]["z"])) / atol)
        if abs((c - c0) - (r["z"] - rows[0]["z"])) > atol:
            out.append(D("centre position", f"{r['name']} ({r['cls']}): centre at {c - c0!r} m behind the first element, "
                                            f"table says {r['z'] - rows[0]['z']!r}", [], []))
    # ordering of the non-drift elements = rows sorted by z
    exp_names = []
    for r in rows:
        exp_names += [r["name"][:6] + "H" + r["name"][7:], r["name"][:6] + "V" + r["name"][7:]] if r["cls"] == "MCXG" \
            else [r["name"]]
    got_names = [el.name for el in els if not (type(el).__name__ == "Drift" and el.name not in exp_names)]
    if got_names != exp_names and not out:
        out.append(D("order", f"non-drift elements {got_names} vs rows by position {exp_names}", [], []))
    for r in nx["rows"]:
        if r["cls"] in NX_IGNORED and r["name"] in spans:
            out.append(D("ignored class imported", f"{r['name']} ({r['cls']})", [], []))
    # total length: from the entrance of the first to the exit of the last element
    l_first = spans[els[0].name][0][1] - spans[els[0].name][0][0]
    c_last, _ = centre(rows[-1])
    l_last = pos - spans[els[-1].name][-1][0]
    if c_last is not None and rows[-1]["cls"] != "MCXG" and rows[0]["cls"] != "MCXG" and not out:
        exp_total = span + l_first / 2 + l_last / 2
        if abs(pos - exp_total) > atol or abs(float(torch.as_tensor(seg.length).reshape(-1)[0]) - exp_total) > atol:
            out.append(D("total length", f"Segment.length {float(torch.as_tensor(seg.length).reshape(-1)[0])!r} / "
                                         f"sum {pos!r} vs {exp_total!r}", [], []))
    return out


def shrink_nx(nx: dict, key: str) -> dict:
    changed = True
    while changed:
        changed = False
        for i in range(len(nx["rows"])):
            c = {**nx, "rows": nx["rows"][:i] + nx["rows"][i + 1:]}
            if len([r for r in c["rows"] if r["cls"] not in NX_IGNORED]) < 1:
                continue
            try:
                if any(d["key"] == key for d in check_nx(c)):
                    nx, changed = c, True
                    break
            except Exception:
                pass
        if not changed and nx["rows"] != sorted(nx["rows"], key=lambda r: r["z"]):
            c = {**nx, "rows": sorted(nx["rows"], key=lambda r: r["z"])}
            if any(d["key"] == key for d in check_nx(c)):
                nx, changed = c, True
    return nx


def examine_nx(rep, nx: dict, do_shrink: bool = True) -> None:
    ds = check_nx(nx)
    seen: set = set()
    for d in ds:
        if d["key"] in seen:
            continue
        seen.add(d["key"])
        small = shrink_nx(nx, d["key"]) if do_shrink else nx
        d2 = next((x for x in check_nx(small) if x["key"] == d["key"]), d)
        classes = ",".join(sorted({r["cls"] for r in small["rows"]})) if d["key"].startswith(("class", "exception")) else ""
        rep.fail("falsifier", f"C13|nx_tables|{d['key']}" + (f"|{classes}" if classes else ""),
                 f"from_nx_tables: {d2['what']}  [rows: {[(r['name'], r['cls'], r['z']) for r in small['rows']]}]"[:900],
                 {"kind": "nx", "nx": small, "key": d["key"]})


# =================================================================================================
# entry points
# =================================================================================================
def table_freshness(rep) -> None:
    """types / understood properties of the converter that this module's tables do not know (notes, not failures)"""
    for dialect in ("elegant", "bmad"):
        cl = claims(dialect)
        if not cl:
            rep.notes.append(f"C13: could not scan {dialect}.convert_element; property tables used unchecked")
            continue
        for typ, c in cl.items():
            t = canon_type(dialect, typ)
            if t is None:
                if typ not in ("charge", "wake"):
                    rep.notes.append(f"C13: {dialect} element type {typ!r} is converted but not in the reference tables")
                continue
            tb = table(dialect)[t]
            known = set(tb["map"]) | set(tb["ign"]) | set(tb.get("weak", {})) | set(tb.get("probe", {})) | {"element_type"}
            for u in (c["understood"] or []):
                if not any(re.fullmatch(u, k) for k in known) and u not in known \
                        and not u.startswith("sr_wake"):
                    rep.notes.append(f"C13: {dialect} {typ}.{u} is listed as understood but not classified here")


def run(ctx) -> None:
    rep, rng = ctx.report, ctx.rng
    del _KNOWN_SPELLINGS[:]
    _ELEMENT_SIGS.clear()
    import time
    deadline = time.time() + (24.0 if ctx.n(0, 1) == 0 else 420.0)
    try:
        table_freshness(rep)
        budget = [ctx.n(60, 400)]
        # deterministic part: every type with all / each omitted property; single-feature files; grammar probes
        for dialect in ("elegant", "bmad"):
            for label, lat in sweep_lattices(dialect):
                rep.fals_cases += 1
                rep.count(f"sweep:{dialect}")
                rep.case(("sweep", dialect, label))
                examine(rep, lat, budget=None)
        for label, lat in feature_lattices():
            rep.fals_cases += 1
            rep.count("feature-file")
            rep.case(("feature", label))
            examine(rep, lat, budget=None)
        for label, lat in probe_lattices():
            rep.fals_cases += 1
            rep.case(("probe", label))
            examine(rep, lat, probe=label)
        # random lattices
        for i in range(ctx.n(500, 12000)):
            if time.time() > deadline:
                rep.notes.append(f"C13: time budget reached after {i} random lattices")
                break
            dialect = "elegant" if i % 2 == 0 else "bmad"
            lat = gen_lattice(rng, dialect)
            rep.fals_cases += 1
            try:
                ref = interpret(lat)
            except Invalid:
                rep.count("generator-invalid")
                continue
            feats = features(lat)
            for f in feats:
                rep.count("feat:" + (f if not f.startswith(("raw:", "call-spelling")) else f.split(":")[0]))
            for _, t, _ in ref["flat"]:
                rep.count(f"type:{dialect}:{t}")
            rep.case((dialect, tuple(t for _, t, _ in ref["flat"]), tuple(feats)),
                     {"dialect": dialect, "types": [t for _, t, _ in ref["flat"]], "features": feats,
                      "file": file_text(lat)[:600]})
            examine(rep, lat, budget=budget)
        # NX tables: fixed layouts (touching / coincident / shuffled), then random ones
        fixed = [
            {"rows": [{"name": "ARXXMCQRX1", "cls": "RXBD", "z": 1.31059}, {"name": "ARXXMCQMC2", "cls": "MCVM", "z": 1.82059}]},
            {"rows": [{"name": "ARXXMCQMQ1", "cls": "MQZM", "z": 0.5}, {"name": "ARXXMCQMQ2", "cls": "MQZM", "z": 0.622}]},
            {"rows": [{"name": "ARXXMCQBP1", "cls": "BPMG", "z": 2.0}, {"name": "ARXXMCQBS2", "cls": "BSCR", "z": 2.0},
                      {"name": "ARXXMCQMQ0", "cls": "MQZM", "z": 0.25}, {"name": "ARXXMCXMC3", "cls": "MCXG", "z": 3.5}]},
        ]
        real = REPO / "tests" / "resources" / "Stage4v3_9.txt"
        if real.exists():      # the ARES layout shipped with the repository
            import csv
            with open(real) as fh:
                rows = list(csv.reader(fh))
            h = rows[0]
            fixed.append({"rows": [{"name": r[h.index("NAME")], "cls": r[h.index("CLASS")], "z": float(r[h.index("Z_beam")])}
                                   for r in rows[1:]], "fmt": 0})
        for nx in fixed + [gen_nx(rng) for _ in range(ctx.n(150, 4000))]:
            rep.fals_cases += 1
            rep.count("nx")
            rep.case(("nx", tuple(sorted({r["cls"] for r in nx["rows"]})), len(nx["rows"])),
                     {"nx_rows": [(r["name"], r["cls"], r["z"]) for r in nx["rows"]][:6]})
            examine_nx(rep, nx)
    finally:
        cleanup()


def corpus_case(ctx, r: dict) -> None:
    rep = ctx.report
    try:
        rep.fals_cases += 1
        if r.get("kind") == "lattice":
            examine(rep, r["lattice"], do_shrink=False, probe=r.get("probe"))
        elif r.get("kind") == "nx":
            examine_nx(rep, r["nx"], do_shrink=False)
    finally:
        cleanup()


def replay(ctx, data) -> bool:
    r = data["replay"]
    try:
        if r.get("kind") == "lattice":
            return any(d["alarm"] for d in check(r["lattice"]))
        if r.get("kind") == "nx":
            return bool(check_nx(r["nx"]))
        return False
    finally:
        cleanup()
