"""C20 falsifier — Screen and BPM readings show the beam that passed them.

Oracle: the geometry of the screen written down from the property text.  A screen of resolution (W, H), pixel size
(pw, ph), binning b, misalignment (dx, dy) has H//b rows and W//b columns; a particle at (x, y) belongs to

    col = floor((x - dx + W pw/2) / (b pw)),      row = H//b - 1 - floor((y - dy + H ph/2) / (b ph))

(row 0 = top) and is on the screen iff 0 <= col < W//b and 0 <= row < H//b.  Particles are generated *in* a chosen pixel,
at least 2e-3 of a pixel away from its edges (float32 positions, edges and misalignment subtraction move a particle by
< 1e-5 pixel for the sizes generated here), often within 5 % of an edge to provoke off-by-one and half-pixel errors.

  screen case     ParticleBeam of 1..6 particles (on and off the screen, lost particles with huge charge, zero-charge
                  particles) on a non-square, binned, misaligned screen; a decoy beam is tracked and read first (the
                  reading must show the *last* beam).  histogram (float32, float64): shape, complete image == expected
                  histogram, sum == surviving charge on the screen.  kde (float64/float32): shape, argmax == pixel of
                  the particle (all live charged particles sit in one pixel).
  parameter case  ParameterBeam N((x,y), s^2 1) and the ParticleBeam image of the same distribution (one particle, kde
                  bandwidth s): same shape (H//b, W//b) and same peak pixel = the pixel that contains (x - dx, y - dy)
  vector case     vectorised ParticleBeam, method kde: image[i] == image of sample i alone
  bpm case        active BPM: reading == (mean x, mean y) of the surviving particles / (mu_x, mu_y); vectorised too
  segment case    Segment([Drift(L1), BPM, Drift(L2), Screen, Drift(L3), BPM]): the first BPM reads the centroid after L1,
                  the screen shows the particle at x + (L1+L2) px, the second BPM (behind the active, non-blocking,
                  misaligned screen) the centroid after L1+L2+L3
  inactive case   inactive Screen / BPM: outgoing beam is bit-identical to the incoming one (both beam types)
"""
from __future__ import annotations

import math

import numpy as np
import torch

import cheetah
import elements as E

F64, F32 = torch.float64, torch.float32
DT = {"float32": F32, "float64": F64}
SIG = "C20|"
MARGIN = 2e-3

META = {
    "rule": "screen case = (W, H) = b x (3..48, 3..48) mostly non-square (12 %: W, H not multiples of b, shape/sum only), "
            "b in 1..4, pixel sizes 5e-6..5e-4 m with ph/pw in 1/3..3, misalignment none / x / y / both up to 1.5 half "
            "widths, method histogram (float32, float64) or kde (float64, float32), 1..6 particles in chosen pixels at sub-pixel "
            "positions 0.002..0.998 (30 % within 5 % of an edge), on/off screen, lost and zero-charge particles; "
            "parameter / vector / bpm / segment / inactive cases as in the module docstring; distinct = distinct (kind, "
            "method, dtype, binning, misalignment pattern, square?, remainder?, particle pattern)",
    "assumptions": [
        "sub-pixel margin 2e-3 pixel (20e-3 in the segment case) vs < 1e-5 (< 1e-4) pixel float32 position error",
        "histogram image vs expected histogram: |diff| <= 1e-5 * largest particle charge (float32 sums, measured 1e-7)",
        "kde vectorised vs per-sample: |diff| <= 1e-9 * max(image) (float64, measured 0)",
        "BPM reading vs numpy centroid: 1e-12 * max(|x|, 1e-6) (float64, measured 1e-16 relative)",
        "histogram mode: 2/3 float32, 1/3 float64 beams and screens; on a tree where Screen.pixel_bin_edges are float32 "
        "regardless of the screen's dtype, torch.histogramdd raises RuntimeError for float64 beams: that is a dtype defect "
        "(C12), it is counted in the input distribution and not reported here",
        "resolutions that are not multiples of the binning: only shape and sum are checked (which pixel contains a point "
        "is not defined by the property there)",
        "BPM centroid: macro-particles of equal charge (the property does not say whether the centroid is charge weighted)",
    ],
}


# ------------------------------------------------------------------------------------------------
# geometry oracle
# ------------------------------------------------------------------------------------------------
def shape_of(s: dict) -> tuple:
    return (s["H"] // s["b"], s["W"] // s["b"])


def position(s: dict, u: float, v: float) -> tuple:
    """lab position of the point that lies u binned pixels right of the screen's left edge and v above its bottom edge"""
    return (s["dx"] - s["W"] * s["pw"] / 2 + u * s["b"] * s["pw"], s["dy"] - s["H"] * s["ph"] / 2 + v * s["b"] * s["ph"])


def pixel_of(s: dict, x: float, y: float):
    """(row, col) of the pixel containing the lab point (x, y), or None if it is off the screen"""
    nrow, ncol = shape_of(s)
    col = math.floor((x - s["dx"] + s["W"] * s["pw"] / 2) / (s["b"] * s["pw"]))
    rb = math.floor((y - s["dy"] + s["H"] * s["ph"] / 2) / (s["b"] * s["ph"]))
    if 0 <= col < ncol and 0 <= rb < nrow:
        return (nrow - 1 - rb, col)
    return None


def build_screen(s: dict, method: str, dtype, active: bool = True, bandwidth=None, name=None):
    kw = {}
    if bandwidth is not None:
        kw["kde_bandwidth"] = torch.tensor(bandwidth, dtype=dtype)
    if name is not None:
        kw["name"] = name
    return cheetah.Screen(resolution=(int(s["W"]), int(s["H"])), pixel_size=torch.tensor([s["pw"], s["ph"]], dtype=dtype),
                          binning=int(s["b"]), misalignment=torch.tensor([s["dx"], s["dy"]], dtype=dtype), method=method,
                          is_active=active, dtype=dtype, **kw)


def pbeam(P, q, sv, En, dtype):
    return cheetah.ParticleBeam(torch.tensor(np.asarray(P, dtype=float), dtype=dtype), torch.tensor(np.asarray(En, dtype=float), dtype=dtype),
                                particle_charges=torch.tensor(np.asarray(q, dtype=float), dtype=dtype),
                                survival_probabilities=torch.tensor(np.asarray(sv, dtype=float), dtype=dtype), dtype=dtype)


def particles_at(xy, rng=None, mom=None) -> np.ndarray:
    xy = np.atleast_2d(np.asarray(xy, dtype=float))
    P = np.zeros((len(xy), 7))
    P[:, 6] = 1.0
    P[:, 0], P[:, 2] = xy[:, 0], xy[:, 1]
    if mom is not None:
        P[:, [1, 3, 4, 5]] = mom
    return P


def gen_screen_cfg(rng, remainder_ok: bool = True, p_square: float = 0.03) -> dict:
    b = int(E.pick(rng, 1, 1, 2, 3, 4))
    wm, hm = int(rng.integers(3, 49)), int(rng.integers(3, 49))
    if rng.random() < p_square:
        wm = hm
    elif wm == hm:
        wm += 1 + int(rng.integers(5))
    W, H = b * wm, b * hm
    rem = False
    if remainder_ok and b > 1 and rng.random() < 0.12:
        W += int(rng.integers(1, b))
        H += int(rng.integers(0, b))
        rem = True
    pw = float(10.0 ** rng.uniform(-5.3, -3.3))
    ph = float(pw * 10.0 ** rng.uniform(-0.477, 0.477))
    pat = E.pick(rng, "none", "x", "y", "both", "both")
    sx, sy = W * pw / 2, H * ph / 2
    dx = float(rng.uniform(0.05, 1.5) * sx * E.pick(rng, 1, -1)) if pat in ("x", "both") else 0.0
    dy = float(rng.uniform(0.05, 1.5) * sy * E.pick(rng, 1, -1)) if pat in ("y", "both") else 0.0
    return {"W": W, "H": H, "b": b, "pw": pw, "ph": ph, "dx": dx, "dy": dy, "mis": pat, "remainder": rem}


def frac(rng, margin: float = MARGIN) -> float:
    r = rng.random()
    if r < 0.15:
        return float(rng.uniform(margin, 0.05))
    if r < 0.30:
        return float(rng.uniform(0.95, 1.0 - margin))
    return float(rng.uniform(0.05, 0.95))


def point_in_pixel(rng, s: dict, where: str = "on", margin: float = MARGIN) -> tuple:
    """lab (x, y) inside a random pixel (where == 'on') or beyond one of the screen's edges ('off')"""
    nrow, ncol = shape_of(s)
    u = int(rng.integers(ncol)) + frac(rng, margin)
    v = int(rng.integers(nrow)) + frac(rng, margin)
    if where == "off":
        side = int(rng.integers(4))
        out = float(rng.uniform(margin, 3.0))
        if side == 0:
            u = -out
        elif side == 1:
            u = ncol + out
        elif side == 2:
            v = -out
        else:
            v = nrow + out
    return position(s, u, v)


def sig_mis(s: dict) -> str:
    return {"none": "aligned", "x": "misaligned in x", "y": "misaligned in y", "both": "misaligned in x and y"}[s["mis"]]


PLACED = "particle not in its pixel"


def family(sig: str) -> str:
    """signatures that may turn into one another while a case is shrunk (the misalignment that is needed for the
    failure and the number of particles are found by the shrinker)"""
    for m in ("misaligned in x and y", "misaligned in x", "misaligned in y"):
        sig = sig.replace("|" + m + "|", "|aligned|")
    return sig


# ------------------------------------------------------------------------------------------------
# screen case (ParticleBeam, histogram / kde)
# ------------------------------------------------------------------------------------------------
def read_screen(c: dict, P, q, sv):
    s, dtype = c["screen"], DT[c["dtype"]]
    scr = build_screen(s, c["method"], dtype)
    if c.get("decoy") is not None:
        d = c["decoy"]
        scr.track(pbeam(particles_at([d]), [1e-12], [1.0], c["energy"], dtype))
        scr.reading
    scr.track(pbeam(P, q, sv, c["energy"], dtype))
    return scr.reading


def check_screen(c: dict) -> list:
    fails: list = []
    s, method = c["screen"], c["method"]
    P, q, sv = np.array(c["particles"], dtype=float), np.array(c["charges"], dtype=float), np.array(c["survival"], dtype=float)
    head = SIG + f"Screen.reading|ParticleBeam|{method}|"
    try:
        im = read_screen(c, P, q, sv)
    except RuntimeError as ex:
        if method == "histogram" and c["dtype"] == "float64" and "dtype" in str(ex):
            # pinned tree: Screen.pixel_bin_edges are float32 whatever the screen's dtype -> torch.histogramdd rejects a
            # float64 beam.  A dtype defect (property C12); counted, not reported under C20.
            c["note"] = "histogram of a float64 beam raises RuntimeError (bin edges float32): C12 dtype defect, not reported"
            return fails
        raise
    exp_shape = shape_of(s)
    desc = f"screen {s['W']}x{s['H']} binning {s['b']} misalignment ({s['dx']:.3e}, {s['dy']:.3e}) {c['dtype']}"
    # clause: the image has shape (vertical pixels, horizontal pixels) after binning
    if tuple(im.shape) != exp_shape:
        fails.append((head + "shape", f"{desc}: image shape {tuple(im.shape)}, expected {exp_shape}"))
        return fails
    img = im.detach().numpy().astype(float)
    if not np.all(np.isfinite(img)):
        fails.append((head + "finite", f"{desc}: image has non-finite pixels"))
        return fails
    w = q * sv
    if s["remainder"]:
        # only the sum: every particle is generated well inside or well outside the screen
        inside = np.array(c["inside"], dtype=bool)
        if method == "histogram":
            tot, exp_tot = float(img.sum()), float(np.sum(w[inside]))
            if not abs(tot - exp_tot) <= 1e-5 * max(w.max(), 1e-30):
                fails.append((head + "sum", f"{desc}: image sums to {tot:.6e}, surviving charge on the screen {exp_tot:.6e}"))
        return fails
    pix = [pixel_of(s, P[i, 0], P[i, 2]) for i in range(len(P))]
    if method == "histogram":
        # clause: puts a particle at (x, y) into the pixel that contains (x - dx, y - dy), row 0 at the top
        exp = np.zeros(exp_shape)
        for i, p in enumerate(pix):
            if p is not None:
                exp[p] += w[i]
        tol = 1e-5 * max(w.max(), 1e-30)
        if not np.abs(img - exp).max() <= tol:
            live = [i for i, p in enumerate(pix) if p is not None and w[i] > 0]
            if len(live) == 1 and exp.max() > 0:
                got = np.unravel_index(int(np.argmax(img)), img.shape)
                want = pix[live[0]]
                if img.max() <= tol:
                    fails.append((head + f"{sig_mis(s)}|{PLACED}",
                                  f"{desc}: particle at ({P[live[0], 0]:.6e}, {P[live[0], 2]:.6e}) belongs to pixel (row, col) = "
                                  f"{want}, but the image is empty"))
                elif tuple(int(g) for g in got) != want:
                    fails.append((head + f"{sig_mis(s)}|{PLACED}",
                                  f"{desc}: particle at ({P[live[0], 0]:.6e}, {P[live[0], 2]:.6e}) belongs to pixel (row, col) = "
                                  f"{want}, the image has it in {tuple(int(g) for g in got)}"))
                else:
                    fails.append((head + "pixel value", f"{desc}: pixel {want} holds {img[want]:.6e}, expected {exp[want]:.6e}"))
            elif exp.max() == 0:
                fails.append((head + "off-screen or lost particle shows up",
                              f"{desc}: no surviving charge on the screen but the image sums to {img.sum():.3e}"))
            else:
                i, j = np.unravel_index(int(np.argmax(np.abs(img - exp))), img.shape)
                fails.append((head + f"{sig_mis(s)}|{PLACED}",
                              f"{desc}: image differs from the expected histogram of {len(P)} particles, e.g. pixel ({i}, {j}): "
                              f"{img[i, j]:.6e} vs {exp[i, j]:.6e}"))
        # clause: in histogram mode the image sums to the surviving charge that falls inside the screen
        tot, exp_tot = float(img.sum()), float(exp.sum())
        if not abs(tot - exp_tot) <= 1e-5 * max(w.max(), 1e-30) and not fails:
            fails.append((head + "sum", f"{desc}: image sums to {tot:.6e}, surviving charge on the screen {exp_tot:.6e}"))
    else:
        live = [i for i, p in enumerate(pix) if w[i] > 0]
        want = pix[live[0]]
        got = tuple(int(g) for g in np.unravel_index(int(np.argmax(img)), img.shape))
        if img.max() <= 0:
            fails.append((head + f"{sig_mis(s)}|{PLACED}", f"{desc}: kde image is empty"))
        elif got != want:
            fails.append((head + f"{sig_mis(s)}|{PLACED}",
                          f"{desc}: particle(s) at ({P[live[0], 0]:.6e}, {P[live[0], 2]:.6e}) belong to pixel (row, col) = {want}, "
                          f"the kde image peaks at {got}"))
    return fails


def gen_screen(rng) -> dict:
    method = E.pick(rng, "histogram", "histogram", "kde")
    dtype = E.pick(rng, "float32", "float32", "float64") if method == "histogram" else E.pick(rng, "float64", "float64", "float32")
    s = gen_screen_cfg(rng)
    nrow, ncol = shape_of(s)
    pts, q, sv, inside = [], [], [], []
    Q = float(10.0 ** rng.uniform(-14, -9))
    if s["remainder"]:
        pattern = "remainder"
        for _ in range(int(rng.integers(1, 6))):
            if rng.random() < 0.7:     # well inside: central 80 % of the screen
                pts.append((s["dx"] + rng.uniform(-0.8, 0.8) * s["W"] * s["pw"] / 2, s["dy"] + rng.uniform(-0.8, 0.8) * s["H"] * s["ph"] / 2))
                inside.append(True)
            else:
                pts.append((s["dx"] + E.pick(rng, -1, 1) * rng.uniform(1.2, 3.0) * s["W"] * s["pw"] / 2, s["dy"] + rng.uniform(-0.8, 0.8) * s["H"] * s["ph"] / 2))
                inside.append(False)
            q.append(Q * float(rng.uniform(0.3, 1.7)))
            sv.append(float(E.pick(rng, 1.0, 1.0, 1.0, 0.0, 0.5)))
    elif method == "histogram":
        pattern = E.pick(rng, "single", "single", "single-off", "few", "few")
        if pattern == "single":
            pts.append(point_in_pixel(rng, s)), q.append(Q), sv.append(1.0)
        elif pattern == "single-off":
            pts.append(point_in_pixel(rng, s, "off")), q.append(Q), sv.append(1.0)
        else:
            for _ in range(int(rng.integers(2, 7))):
                pts.append(point_in_pixel(rng, s, E.pick(rng, "on", "on", "on", "off")))
                q.append(Q * float(E.pick(rng, 1.0, rng.uniform(0.3, 1.7), 0.0 if rng.random() < 0.3 else 1.0)))
                sv.append(float(E.pick(rng, 1.0, 1.0, 1.0, 0.0, 0.5)))
            sv[0] = 1.0
    else:
        pattern = E.pick(rng, "single", "cluster", "cluster+lost")
        x0, y0 = point_in_pixel(rng, s)
        pts.append((x0, y0)), q.append(Q), sv.append(1.0)
        if pattern != "single":
            r0, c0 = pixel_of(s, x0, y0)
            for _ in range(int(rng.integers(1, 4))):
                pts.append(position(s, c0 + frac(rng), (nrow - 1 - r0) + frac(rng)))
                q.append(Q * float(rng.uniform(0.3, 1.7))), sv.append(float(E.pick(rng, 1.0, 0.5)))
        if pattern == "cluster+lost":
            for _ in range(int(rng.integers(1, 3))):
                pts.append(point_in_pixel(rng, s)), q.append(Q * 1e4), sv.append(0.0)      # lost: must not show
            pts.append(point_in_pixel(rng, s)), q.append(0.0), sv.append(1.0)              # no charge: must not show
    n = len(pts)
    mom = np.column_stack([rng.normal(size=n) * 1e-3, rng.normal(size=n) * 1e-3, rng.normal(size=n) * 1e-4, rng.normal(size=n) * 1e-3])
    P = particles_at(pts, mom=mom)
    c = {"kind": "screen", "method": method, "dtype": dtype, "screen": s, "pattern": pattern, "energy": E.energy(rng),
         "particles": P.tolist(), "charges": q, "survival": sv,
         "decoy": list(point_in_pixel(rng, s)) if rng.random() < 0.6 else None}
    if s["remainder"]:
        c["inside"] = inside
    return c


def shrink_screen(c: dict, sig: str) -> dict:
    def still(cand):
        try:
            return any(family(g) == family(sig) for g, _ in check_screen(cand))
        except Exception:
            return False
    cur = dict(c)
    if cur.get("decoy") is not None and still(dict(cur, decoy=None)):
        cur = dict(cur, decoy=None)
    n = len(cur["particles"])
    if n > 1:
        for i in range(n):
            cand = dict(cur, particles=[cur["particles"][i]], charges=[cur["charges"][i]], survival=[cur["survival"][i]],
                        pattern="single")
            if "inside" in cur:
                cand["inside"] = [cur["inside"][i]]
            if still(cand):
                cur = cand
                break
    # remove the misalignment component by component (the particles keep their place on the screen)
    for comp, col in (("dx", 0), ("dy", 2)):
        s = cur["screen"]
        if s[comp] != 0.0:
            P = np.array(cur["particles"], dtype=float)
            P[:, col] -= s[comp]
            s2 = dict(s, **{comp: 0.0})
            s2["mis"] = {(True, True): "none", (False, True): "x", (True, False): "y", (False, False): "both"}[
                (s2["dx"] == 0.0, s2["dy"] == 0.0)]
            cand = dict(cur, screen=s2, particles=P.tolist())
            if cand.get("decoy") is not None:
                d = list(cand["decoy"])
                d[0 if comp == "dx" else 1] -= s[comp]
                cand["decoy"] = d
            if still(cand):
                cur = cand
    return cur


# ------------------------------------------------------------------------------------------------
# parameter case: ParameterBeam vs ParticleBeam image of the same distribution
# ------------------------------------------------------------------------------------------------
def check_parameter(c: dict) -> list:
    fails: list = []
    s, dtype = c["screen"], DT[c["dtype"]]
    x, y, sg = float(c["x"]), float(c["y"]), float(c["sigma"])
    exp_shape = shape_of(s)
    want = pixel_of(s, x, y)
    desc = (f"screen {s['W']}x{s['H']} binning {s['b']} misalignment ({s['dx']:.3e}, {s['dy']:.3e}) {c['dtype']}, beam "
            f"N(({x:.6e}, {y:.6e}), ({sg:.3e})^2)")
    mu = torch.tensor([x, c["mom"][0], y, c["mom"][1], 0.0, 0.0, 1.0], dtype=dtype)
    cov = torch.zeros((7, 7), dtype=dtype)
    for i, v in zip((0, 1, 2, 3, 4, 5), (sg ** 2, 1e-8, sg ** 2, 2e-8, 1e-8, 1e-6)):
        cov[i, i] = v
    cov[0, 1] = cov[1, 0] = 0.3 * sg * 1e-4
    cov[2, 3] = cov[3, 2] = -0.2 * sg * 1.4e-4
    pb = cheetah.ParameterBeam(mu, cov, torch.tensor(c["energy"], dtype=dtype), total_charge=torch.tensor(1e-12, dtype=dtype), dtype=dtype)
    scr = build_screen(s, "histogram", dtype)
    scr.track(pb)
    ipb = scr.reading
    # the ParticleBeam image of the same distribution: one particle at (x, y) smeared by a gaussian kernel of width sg
    scr2 = build_screen(s, "kde", dtype, bandwidth=sg)
    scr2.track(pbeam(particles_at([(x, y)]), [1e-12], [1.0], c["energy"], dtype))
    ipt = scr2.reading
    head = SIG + "Screen.reading|ParameterBeam|"
    if tuple(ipt.shape) != exp_shape:
        fails.append((SIG + "Screen.reading|ParticleBeam|kde|shape", f"{desc}: ParticleBeam image shape {tuple(ipt.shape)}, expected {exp_shape}"))
        return fails
    gpt = tuple(int(g) for g in np.unravel_index(int(torch.argmax(ipt)), ipt.shape))
    if gpt != want:
        fails.append((SIG + f"Screen.reading|ParticleBeam|kde|{sig_mis(s)}|{PLACED}",
                      f"{desc}: ParticleBeam kde image peaks at {gpt}, expected {want}"))
        return fails
    def peak(t):
        return tuple(int(v) for v in np.unravel_index(int(torch.argmax(t)), t.shape))

    def diagnose():
        # diagnosis on an output that already violates the property: the image is laid out [col, row]; read
        # transposed, is the peak where it belongs?  (off by one: density sampled at pixel corners and an arange of
        # varying length; further off: the beam is drawn at the wrong place, e.g. a misalignment error)
        if ipb.dim() == 2 and abs(ipb.shape[0] - exp_shape[1]) <= 1 and abs(ipb.shape[1] - exp_shape[0]) <= 1:
            g = peak(ipb.transpose(0, 1))
            far = max(abs(g[0] - want[0]), abs(g[1] - want[1]))
            if far == 1:
                fails.append((head + "peak pixel (image read transposed, as it is laid out)",
                              f"{desc}: even transposed, the ParameterBeam image peaks at (row, col) = {g}; the pixel that "
                              f"contains the beam centre (and the ParticleBeam image's peak) is {want}"))
            elif far > 1:
                fails.append((head + f"{sig_mis(s)}|peak more than one pixel off (image read transposed, as it is laid out)",
                              f"{desc}: even transposed, the ParameterBeam image peaks at (row, col) = {g}; the pixel that "
                              f"contains the beam centre (and the ParticleBeam image's peak) is {want}"))

    # clause: ParameterBeam and ParticleBeam images of the same distribution have the same shape ...
    if tuple(ipb.shape) != tuple(ipt.shape):
        fails.append((head + "shape", f"{desc}: ParameterBeam image has shape {tuple(ipb.shape)}, the ParticleBeam image (and the "
                      f"property) {exp_shape} = (H//b, W//b)"))
        diagnose()
        return fails
    # ... and peak pixel
    gpb = peak(ipb)
    if gpb != gpt:
        fails.append((head + "peak pixel",
                      f"{desc}: ParameterBeam image peaks at (row, col) = {gpb}, ParticleBeam image of the same distribution at {gpt}"))
        diagnose()
    return fails


def shrink_parameter(c: dict, sig: str) -> dict:
    cur = dict(c)
    for comp, key in (("dx", "x"), ("dy", "y")):
        s = cur["screen"]
        if s[comp] != 0.0:
            s2 = dict(s, **{comp: 0.0})
            s2["mis"] = {(True, True): "none", (False, True): "x", (True, False): "y", (False, False): "both"}[
                (s2["dx"] == 0.0, s2["dy"] == 0.0)]
            cand = dict(cur, screen=s2, **{key: cur[key] - s[comp]})
            try:
                if any(family(g) == family(sig) for g, _ in check_parameter(cand)):
                    cur = cand
            except Exception:
                pass
    return cur


def gen_parameter(rng) -> dict:
    s = gen_screen_cfg(rng, remainder_ok=False, p_square=0.25)
    x, y = point_in_pixel(rng, s)
    sg = float(rng.uniform(1.0, 3.0) * s["b"] * max(s["pw"], s["ph"]))
    return {"kind": "parameter", "dtype": E.pick(rng, "float64", "float64", "float32"), "screen": s, "x": x, "y": y, "sigma": sg,
            "mom": [float(rng.normal() * 1e-4), float(rng.normal() * 1e-4)], "energy": E.energy(rng)}


# ------------------------------------------------------------------------------------------------
# vector case: vectorised kde image vs per-sample images
# ------------------------------------------------------------------------------------------------
def check_vector(c: dict) -> list:
    fails: list = []
    s = c["screen"]
    dtype = F64
    P, q, sv = np.array(c["particles"], dtype=float), np.array(c["charges"], dtype=float), np.array(c["survival"], dtype=float)
    En = np.array(c["energy"], dtype=float)
    B = int(c["B"])
    n = P.shape[-2]
    exp_shape = (B,) + shape_of(s)
    scr = build_screen(s, "kde", dtype)
    scr.track(pbeam(P, q, sv, En, dtype))
    im = scr.reading
    head = SIG + "Screen.reading|ParticleBeam|kde|vectorised|"
    desc = f"screen {s['W']}x{s['H']} binning {s['b']}, beam vectorised over {c['vform']} ({B} samples)"
    try:
        ok = tuple(torch.broadcast_shapes(tuple(im.shape), exp_shape)) == exp_shape
    except RuntimeError:
        ok = False
    if not ok:
        fails.append((head + "shape", f"{desc}: image shape {tuple(im.shape)}, expected {exp_shape}"))
        return fails
    imb = torch.broadcast_to(im, exp_shape).detach().numpy()
    Pb, qb, sb, Eb = np.broadcast_to(P, (B, n, 7)), np.broadcast_to(q, (B, n)), np.broadcast_to(sv, (B, n)), np.broadcast_to(En, (B,))
    for i in range(B):
        s1 = build_screen(s, "kde", dtype)
        s1.track(pbeam(Pb[i], qb[i], sb[i], Eb[i], dtype))
        one = s1.reading.detach().numpy()
        if one.shape != exp_shape[1:]:
            fails.append((SIG + "Screen.reading|ParticleBeam|kde|shape", f"{desc}: per-sample image shape {one.shape}"))
            return fails
        err = float(np.abs(one - imb[i]).max())
        if not err <= 1e-9 * max(float(one.max()), 1e-300):
            pk = np.unravel_index(int(np.argmax(one)), one.shape) == np.unravel_index(int(np.argmax(imb[i])), one.shape)
            fails.append((head + "image != per-sample image",
                          f"{desc}: sample {i}: vectorised image differs from the image of the sample alone by {err:.3e} "
                          f"(max pixel {one.max():.3e}; same peak pixel: {bool(pk)})"))
            break
    return fails


def gen_vector(rng) -> dict:
    s = gen_screen_cfg(rng, remainder_ok=False)
    B = int(rng.integers(2, 5))
    n = int(rng.integers(1, 6))
    vform = E.pick(rng, "all", "all", "particles", "charges", "energy", "survival")
    def pts():
        return np.array([point_in_pixel(rng, s, E.pick(rng, "on", "on", "on", "off")) for _ in range(n)])
    if vform in ("all", "particles"):
        P = np.stack([particles_at(pts()) for _ in range(B)])
    else:
        P = particles_at(pts())
    q = rng.uniform(0.3, 1.7, (B, n)) * 1e-12 if vform in ("all", "charges") else rng.uniform(0.3, 1.7, n) * 1e-12
    sv = np.ones((B, n)) if vform in ("all", "survival") else np.ones(n)
    if vform in ("all", "survival") and n > 1:
        sv[rng.random((B, n)) < 0.3] = 0.0
        sv[..., 0] = 1.0
    En = np.array([E.energy(rng) for _ in range(B)]) if vform in ("all", "energy") else np.array(E.energy(rng))
    return {"kind": "vector", "vform": vform, "B": B, "screen": s, "particles": P.tolist(), "charges": q.tolist(),
            "survival": sv.tolist(), "energy": En.tolist()}


# ------------------------------------------------------------------------------------------------
# bpm case
# ------------------------------------------------------------------------------------------------
def centroid(P, sv):
    x, y, sv = np.broadcast_arrays(P[..., 0], P[..., 2], sv)
    return np.sum(x * sv, axis=-1) / np.sum(sv, axis=-1), np.sum(y * sv, axis=-1) / np.sum(sv, axis=-1)


def check_bpm(c: dict) -> list:
    fails: list = []
    bpm = cheetah.BPM(is_active=True)
    if c["beam"] == "ParameterBeam":
        mu = np.array(c["mu"], dtype=float)
        cov = np.zeros((7, 7))
        cov[:6, :6] = np.diag([1e-8, 1e-10, 2e-8, 1e-10, 1e-8, 1e-6])
        cov = np.broadcast_to(cov, mu.shape[:-1] + (7, 7)).copy()
        b = cheetah.ParameterBeam(torch.tensor(mu, dtype=F64), torch.tensor(cov, dtype=F64), torch.tensor(c["energy"], dtype=F64),
                                  total_charge=torch.tensor(1e-12, dtype=F64), dtype=F64)
        ex, ey = np.array(mu[..., 0]), np.array(mu[..., 2])
    else:
        P, sv = np.array(c["particles"], dtype=float), np.array(c["survival"], dtype=float)
        b = pbeam(P, np.array(c["charges"], dtype=float), sv, np.array(c["energy"], dtype=float), F64)
        ex, ey = centroid(P, sv)
    if c.get("decoy"):
        bpm.track(pbeam(particles_at([(0.123, -0.456)]), [1e-12], [1.0], 1e8, F64))
    bpm.track(b)
    r = bpm.reading
    head = SIG + f"BPM.reading|{c['beam']}|" + ("vectorised|" if np.ndim(ex) else "")
    if r is None or tuple(r.shape) != (2,) + np.shape(ex):
        fails.append((head + "shape", f"reading {None if r is None else tuple(r.shape)}, expected {(2,) + np.shape(ex)}"))
        return fails
    r = r.detach().numpy()
    for k, (nm, e) in enumerate((("x", ex), ("y", ey))):
        err = float(np.max(np.abs(r[k] - e)))
        if not err <= 1e-12 * max(float(np.max(np.abs(e))), 1e-6):
            fails.append((head + nm, f"active BPM reads {nm} = {np.ravel(r[k])[:3]}, centroid of the surviving particles "
                          f"{np.ravel(e)[:3]} (diff {err:.3e})"))
    return fails


def gen_bpm(rng) -> dict:
    from lattices import gen_particles
    beam = E.pick(rng, "ParticleBeam", "ParticleBeam", "ParticleBeam", "ParameterBeam")
    c = {"kind": "bpm", "beam": beam, "energy": E.energy(rng), "decoy": bool(rng.random() < 0.5)}
    if beam == "ParameterBeam":
        if rng.random() < 0.5:      # vectorised: B beams at once (B = 2 makes a transposed reading keep its shape)
            B = int(rng.integers(2, 4))
            mu = np.concatenate([rng.normal(size=(B, 6)) * np.array([1e-3, 1e-4, 1e-3, 1e-4, 1e-4, 1e-3]), np.ones((B, 1))], axis=1)
            c["mu"], c["vform"] = mu.tolist(), "mu"
            return c
        c["mu"] = (np.append(rng.normal(size=6) * np.array([1e-3, 1e-4, 1e-3, 1e-4, 1e-4, 1e-3]), 1.0)).tolist()
        c["vform"] = "none"
        return c
    n = int(rng.integers(1, 30))
    vform = E.pick(rng, "none", "none", "particles", "survival")
    B = int(rng.integers(2, 4))
    if vform == "particles":
        P = np.stack([gen_particles(rng, n) for _ in range(B)])
        P[..., [0, 2]] += rng.normal(size=(B, 1, 2)) * 1e-3
    else:
        P = gen_particles(rng, n)
        P[:, [0, 2]] += rng.normal(size=2) * 1e-3
    sv = np.ones((B, n)) if vform == "survival" else np.ones(n)
    if n > 2 and rng.random() < 0.6:
        sv[rng.random(sv.shape) < 0.3] = 0.0
        sv[..., 0] = 1.0
    c.update(particles=P.tolist(), charges=np.full(n, 1e-12 / n).tolist(), survival=sv.tolist(), vform=vform)
    return c


# ------------------------------------------------------------------------------------------------
# segment case: diagnostics read the beam at their position
# ------------------------------------------------------------------------------------------------
def check_segment(c: dict) -> list:
    fails: list = []
    s, dtype, method = c["screen"], DT[c["dtype"]], c["method"]
    L1, L2 = float(c["L1"]), float(c["L2"])
    P = np.array(c["particles"], dtype=float)
    b = pbeam(P, c["charges"], [1.0] * len(P), c["energy"], dtype)
    bpm = cheetah.BPM(is_active=True, name="bpm")
    scr = build_screen(s, method, dtype, name="scr")
    L3 = float(c.get("L3", 0.5))
    bpm2 = cheetah.BPM(is_active=True, name="bpm2")
    seg = cheetah.Segment([cheetah.Drift(length=torch.tensor(L1, dtype=dtype), dtype=dtype, name="d1"), bpm,
                           cheetah.Drift(length=torch.tensor(L2, dtype=dtype), dtype=dtype, name="d2"), scr,
                           cheetah.Drift(length=torch.tensor(L3, dtype=dtype), dtype=dtype, name="d3"), bpm2], name="seg")
    seg.track(b)
    # a BPM behind the (non-blocking) screen reads the centroid at its own position
    r2 = bpm2.reading
    L123 = L1 + L2 + L3
    e2 = (float(np.mean(P[:, 0] + L123 * P[:, 1])), float(np.mean(P[:, 2] + L123 * P[:, 3])))
    if r2 is None or tuple(r2.shape) != (2,):
        fails.append((SIG + "BPM.reading|behind an active screen|shape", f"reading {None if r2 is None else tuple(r2.shape)}"))
    else:
        for k, nm in enumerate(("x", "y")):
            scale = max(abs(e2[k]), float(np.max(np.abs(P[:, 0 if k == 0 else 2]))), 1e-6)
            if not abs(float(r2[k]) - e2[k]) <= (1e-5 if dtype == F32 else 1e-11) * scale:
                fails.append((SIG + "BPM.reading|behind an active screen|" + nm,
                              f"BPM {L3} m behind an active non-blocking screen misaligned by ({s['dx']:.3e}, {s['dy']:.3e}) reads "
                              f"{nm} = {float(r2[k]):.9e}, centroid there {e2[k]:.9e}"))
    # BPM: centroid at its position (a drift moves x by L px, y by L py)
    ex, ey = float(np.mean(P[:, 0] + L1 * P[:, 1])), float(np.mean(P[:, 2] + L1 * P[:, 3]))
    r = bpm.reading
    tolr = (1e-5 if dtype == F32 else 1e-11)
    if r is None or tuple(r.shape) != (2,):
        fails.append((SIG + "BPM.reading|in a Segment|shape", f"reading {None if r is None else tuple(r.shape)}"))
    else:
        for k, (nm, e) in enumerate((("x", ex), ("y", ey))):
            scale = max(abs(e), float(np.max(np.abs(P[:, 0 if k == 0 else 2]))), 1e-6)
            if not abs(float(r[k]) - e) <= tolr * scale:
                fails.append((SIG + "BPM.reading|in a Segment|" + nm,
                              f"BPM after a drift of {L1} m reads {nm} = {float(r[k]):.9e}, centroid there {e:.9e}"))
    # Screen: the particle where it is at the screen
    im = scr.reading
    exp_shape = shape_of(s)
    if tuple(im.shape) != exp_shape:
        fails.append((SIG + f"Screen.reading|ParticleBeam|{method}|shape", f"image shape {tuple(im.shape)}, expected {exp_shape}"))
        return fails
    Lt = L1 + L2
    want = pixel_of(s, P[0, 0] + Lt * P[0, 1], P[0, 2] + Lt * P[0, 3])
    got = tuple(int(g) for g in np.unravel_index(int(torch.argmax(im)), im.shape))
    if float(im.max()) <= 0 or got != want:
        fails.append((SIG + f"Screen.reading|in a Segment|{method}|peak pixel",
                      f"screen {s['W']}x{s['H']} binning {s['b']} misalignment ({s['dx']:.3e}, {s['dy']:.3e}) after {Lt} m of drift: "
                      f"particle arrives in pixel {want}, image peaks at {got} (max {float(im.max()):.3e})"))
    return fails


def gen_segment(rng) -> dict:
    method = E.pick(rng, "histogram", "kde")
    dtype = "float32" if method == "histogram" else "float64"
    s = gen_screen_cfg(rng, remainder_ok=False)
    L1, L2 = float(E.pick(rng, 0.5, 1.0, rng.uniform(0.1, 2.0))), float(E.pick(rng, 0.0, 0.7, rng.uniform(0.1, 2.0)))
    xs, ys = point_in_pixel(rng, s, margin=2e-2)
    px, py = float(rng.normal() * 2e-4), float(rng.normal() * 2e-4)
    # all particles identical in (x, px, y, py) at the screen's pixel, different at the BPM? keep one particle + BPM cloud:
    # particle 0 defines the screen pixel; the image check uses a single-particle beam, so the beam has one particle
    P = particles_at([(xs - (L1 + L2) * px, ys - (L1 + L2) * py)], mom=np.array([[px, py, 0.0, float(rng.normal() * 1e-3)]]))
    return {"kind": "segment", "method": method, "dtype": dtype, "screen": s, "L1": L1, "L2": L2,
            "L3": float(E.pick(rng, 0.0, 0.5, 1.0)), "particles": P.tolist(),
            "charges": [1e-12], "energy": float(np.exp(rng.uniform(np.log(5e7), np.log(2e10))))}


# ------------------------------------------------------------------------------------------------
# inactive case
# ------------------------------------------------------------------------------------------------
def check_inactive(c: dict) -> list:
    from lattices import beam_vec, parameter_beam_from
    fails: list = []
    P = np.array(c["particles"], dtype=float)
    if c["beam"] == "ParticleBeam":
        b = pbeam(P, c["charges"], c["survival"], c["energy"], F64)
    else:
        b = parameter_beam_from(P, c["energy"])
    before = beam_vec(b)
    el = cheetah.BPM(is_active=False) if c["element"] == "BPM" else build_screen(c["screen"], c["method"], F64, active=False)
    if c["element"] == "Screen" and c.get("blocking"):
        el.is_blocking = True          # a blocking screen that is moved out of the beam (inactive) blocks nothing
    if c.get("via") == "call":
        out = el(b)
    elif c.get("via") == "segment":
        out = cheetah.Segment([el]).track(b)
    else:
        out = el.track(b)
    # clause: inactive diagnostics let the beam pass unchanged
    for label, got in (("outgoing", beam_vec(out)), ("incoming (mutated)", beam_vec(b))):
        for key in before:
            if not np.array_equal(np.array(got[key]), np.array(before[key])):
                fails.append((SIG + f"inactive {c['element']}|{c['beam']}|beam changed|{key}",
                              f"inactive {c['element']}: {label} beam differs from the incoming beam in {key}"))
                return fails
    if type(out) is not type(b):
        fails.append((SIG + f"inactive {c['element']}|{c['beam']}|beam changed|type", f"outgoing beam is a {type(out).__name__}"))
    return fails


def gen_inactive(rng) -> dict:
    from lattices import gen_particles
    n = int(rng.integers(2, 20))
    sv = np.ones(n)
    sv[rng.random(n) < 0.2] = 0.0
    sv[0] = 1.0
    return {"kind": "inactive", "element": E.pick(rng, "Screen", "BPM"), "beam": E.pick(rng, "ParticleBeam", "ParameterBeam"),
            "method": E.pick(rng, "histogram", "kde"), "screen": gen_screen_cfg(rng), "energy": E.energy(rng),
            "particles": gen_particles(rng, n).tolist(), "charges": (rng.uniform(0.3, 1.7, n) * 1e-13).tolist(), "survival": sv.tolist(),
            "blocking": bool(rng.random() < 0.5), "via": E.pick(rng, "track", "track", "call", "segment")}


# ------------------------------------------------------------------------------------------------
CHECK = {"screen": check_screen, "parameter": check_parameter, "vector": check_vector, "bpm": check_bpm,
         "segment": check_segment, "inactive": check_inactive}
SHRINK = {"screen": shrink_screen, "parameter": shrink_parameter}


def case_key(c: dict) -> tuple:
    k = c["kind"]
    s = c.get("screen") or {}
    geo = (s.get("b"), s.get("mis"), s.get("W") == s.get("H"), s.get("remainder"))
    if k == "screen":
        return (k, c["method"], c["dtype"], c["pattern"], c["decoy"] is not None) + geo
    if k == "parameter":
        return (k, c["dtype"]) + geo
    if k == "vector":
        return (k, c["vform"], c["B"]) + geo
    if k == "bpm":
        return (k, c["beam"], c["vform"], c["decoy"])
    if k == "segment":
        return (k, c["method"], c["L2"] == 0.0) + geo
    return (k, c["element"], c["beam"], c["method"])


def sample_of(c: dict) -> dict:
    return {k: v for k, v in c.items() if k not in ("particles", "charges", "survival", "mu")}


def examine(rep, c: dict, do_shrink: bool = True) -> None:
    kind = c["kind"]
    try:
        fails = CHECK[kind](c)
    except Exception as ex:
        extra = f"{c.get('method', '')}|{c.get('dtype', '')}|".replace("||", "|") if kind in ("screen", "segment") else ""
        fails = [(SIG + f"{kind} case|{extra}exception {type(ex).__name__}",
                  f"{kind} case raised {type(ex).__name__}: {str(ex)[:200]}")]
    done = set()
    for sig, what in fails:
        if family(sig) in done:
            continue
        done.add(family(sig))
        prev = [f.signature for f in rep.failures if family(f.signature) == family(sig)]
        if prev and do_shrink:          # already reported (and shrunk): only count it
            rep.fail("falsifier", sig if sig in prev else prev[0], what, {})
            continue
        small = c
        if do_shrink and kind in SHRINK and "exception" not in sig:
            try:
                small = SHRINK[kind](c, sig)
                sig, what = next((g, w) for g, w in CHECK[kind](small) if family(g) == family(sig))
            except Exception:
                small = c
        rep.fail("falsifier", sig, what, dict(small))


def run(ctx) -> None:
    nthreads = torch.get_num_threads()
    torch.set_num_threads(1)       # tiny tensors; threading only hurts on a loaded machine
    try:
        _run(ctx)
    finally:
        torch.set_num_threads(nthreads)


def _run(ctx) -> None:
    rep, rng = ctx.report, ctx.rng
    plan = ([("screen", gen_screen)] * ctx.n(1500, 40000) + [("parameter", gen_parameter)] * ctx.n(150, 3000)
            + [("vector", gen_vector)] * ctx.n(200, 4000) + [("bpm", gen_bpm)] * ctx.n(200, 4000)
            + [("segment", gen_segment)] * ctx.n(200, 4000) + [("inactive", gen_inactive)] * ctx.n(100, 2000))
    for kind, gen in plan:
        c = gen(rng)
        rep.fals_cases += 1
        rep.count("kind:" + kind)
        if kind == "screen":
            rep.count(f"screen:{c['method']}:{c['dtype']}:{c['pattern']}")
            rep.count("misalignment:" + c["screen"]["mis"])
            rep.count(f"binning:{c['screen']['b']}")
        rep.case(case_key(c), sample_of(c))
        examine(rep, c)
        if c.get("note"):
            rep.count("note: " + c["note"])


def corpus_case(ctx, r: dict) -> None:
    if r.get("kind") in CHECK:
        ctx.report.fals_cases += 1
        examine(ctx.report, r, do_shrink=False)
