"""C04 falsifier — vectorised tracking equals tracking each setting separately.

Oracle: a Python loop.  A case is a lattice (one element or a short Segment) given by scalar parameter records, a scalar
beam, and a set of *vectorised things* (element parameters `<i>.<name>` and beam fields `beam.<field>`), each with its
own leading vector shape.  The batched `track` is compared entry by entry with freshly built scalar elements / beams
tracked on their own:

  (a) every field of the outgoing beam has a vector shape that broadcasts to the combined vector shape V,
  (b) entry i of the (broadcast) outgoing beam equals the scalar run of entry i (1e-9 relative per coordinate),
  (c) a coordinate that is finite in the scalar run is finite in the batch,
  (d) the batched call does not raise when every scalar call succeeds.

Coordinates that are not finite in the scalar run are not compared (the property only speaks about finite results).
"""
from __future__ import annotations

import copy

import numpy as np
import torch

import lattices as LT
from fals import _c0405 as H

META = {
    "rule": "case = lattice (every element class incl. Bmad-X variants, TDC, Aperture, SpaceChargeKick; Segments of 2-3 "
            "elements) x beam type x vectorisation structure in {elem(B), elem(1), elem(N=particles), elem(7), beam(B), "
            "beam(N), elem(B)+beam(B), elem(B,1)+beam(C), elem(C)+beam(B,1), mixed 2-D} x subset of vectorised "
            "parameters / beam fields x value mixture per parameter in {all 0, all +, all -, one 0 rest +/-, one +/- "
            "rest 0, mixed signs, random}; systematic sweep: every (class, parameter, mixture, beam type) once per run; "
            "distinct = distinct (lattice, beam type, structure, vectorised set with sign classes)",
    "assumptions": ["batched vs scalar results agree to 1e-9 relative to max(|coordinate| over the beam, reference beam "
                    "size) per coordinate (measured round-off on the clean tree <= 1e-13)",
                    "coordinates that are non-finite in the scalar run are not compared"],
}

RTOL = 1e-9
NA, NB, NC, NPART = 2, 3, 2, 5
COORD = ["x", "px", "y", "py", "tau", "p", "1"]
OUT_FIELDS = {"ParticleBeam": [("particles", 2), ("energy", 0), ("particle_charges", 1), ("survival_probabilities", 1)],
              "ParameterBeam": [("_mu", 1), ("_cov", 2), ("energy", 0), ("total_charge", 0)]}
STRUCTS = ["elem(B)", "elem(B)", "elem(1)", "elem(N)", "elem(7)", "beam(B)", "beam(N)", "elem(B)+beam(B)",
           "elem(B,1)+beam(C)", "elem(C)+beam(B,1)", "mixed(A,B)"]
PATTERNS_SIGNED = ["all0", "all+", "all-", "one0+", "one0-", "one+", "one-", "mixed", "antisym"]
PATTERNS_UNSIGNED = ["all0", "all+", "one0+", "one+"]


# ------------------------------------------------------------------------------------------------
# case = {"recs": [records], "beam": {type, arrays}, "vec": {key: ndarray of shape vshape + trailing}}
# ------------------------------------------------------------------------------------------------
def trailing(case, key: str) -> int:
    return H.BEAM_FIELDS[case["beam"]["type"]][key[5:]] if key.startswith("beam.") else 0


def vshape(case, key: str) -> tuple:
    a = case["vec"][key]
    return tuple(a.shape[:a.ndim - trailing(case, key)])


def full_shape(case) -> tuple:
    return tuple(np.broadcast_shapes(*[vshape(case, k) for k in case["vec"]])) if case["vec"] else ()


def entry_of(case, key: str, idx: tuple, Vs: tuple):
    a = case["vec"][key]
    tr = a.shape[a.ndim - trailing(case, key):]
    return np.broadcast_to(a, Vs + tr)[idx]


def scalar_entry(case, idx: tuple, Vs: tuple):
    """records and beam description of batch entry `idx` (plain scalars)"""
    recs = [dict(r) for r in case["recs"]]
    beam = dict(case["beam"])
    for key in case["vec"]:
        v = entry_of(case, key, idx, Vs)
        if key.startswith("beam."):
            beam[key[5:]] = np.array(v)
        else:
            i, name = key.split(".", 1)
            recs[int(i)][name] = float(v)
    return recs, beam


def track_batched(case):
    T = {k: H.tt(v) for k, v in case["vec"].items() if not k.startswith("beam.")}
    TB = {k[5:]: H.tt(v) for k, v in case["vec"].items() if k.startswith("beam.")}
    return H.build_lattice_t(case["recs"], T).track(H.make_beam(case["beam"], TB))


def out_fields(beam, bt: str) -> dict:
    return {f: getattr(beam, f).detach().numpy().copy() for f, _ in OUT_FIELDS[bt]}


def diff_field(fname: str, x: np.ndarray, r: np.ndarray):
    """x: batch entry, r: scalar run. None or (kind, coordinate label, observed, expected)"""
    fin = np.isfinite(r)
    if not fin.any():
        return None
    sig = LT.REF_SIG
    absr = np.where(fin, np.abs(r), 0.0)
    if fname == "particles":
        scale = np.broadcast_to(np.maximum(absr.max(axis=0), sig), r.shape)
        lab = lambda i: COORD[i[1]]                                                  # noqa: E731
    elif fname == "_mu":
        scale = np.maximum(absr, sig)
        lab = lambda i: COORD[i[0]]                                                  # noqa: E731
    elif fname == "_cov":
        sg = np.maximum(np.sqrt(np.diag(absr)), sig)
        scale = np.outer(sg, sg)
        lab = lambda i: f"{COORD[i[0]]},{COORD[i[1]]}"                               # noqa: E731
    else:
        scale = np.full(r.shape, max(float(absr.max()), 1e-300))
        lab = lambda i: ""                                                           # noqa: E731
    nf = fin & ~np.isfinite(x)
    if nf.any():
        # (c) finite alone => finite in the batch
        i = tuple(int(v) for v in np.argwhere(nf)[0])
        return "nonfinite", lab(i), float(x[i]), float(r[i])
    with np.errstate(invalid="ignore"):
        err = np.where(fin, np.abs(x - r) / scale, 0.0)
    if err.max() > RTOL:
        # (b) the entry equals the scalar simulation
        i = tuple(int(v) for v in np.unravel_index(int(np.argmax(err)), err.shape))
        return "value", lab(i), float(x[i]), float(r[i])
    return None


def evaluate(case):
    """None (property holds), ('rejected', msg) or a failure dict"""
    bt = case["beam"]["type"]
    Vs = full_shape(case)
    refs = {}
    for idx in np.ndindex(*Vs):
        recs_i, beam_i = scalar_entry(case, idx, Vs)
        try:
            refs[idx] = out_fields(H.build_lattice_t(recs_i).track(H.make_beam(beam_i)), bt)
        except Exception as ex:  # the scalar setting itself is not accepted: nothing to compare
            return ("rejected", f"{type(ex).__name__}")
    try:
        out = track_batched(case)
    except Exception as ex:
        # (d) all scalar settings track, the vectorised call raises
        return {"field": "track", "kind": "raises:" + type(ex).__name__, "idx": None, "coord": "",
                "msg": f"batched track raises {type(ex).__name__}: {str(ex)[:160]}; every entry tracks on its own"}
    want = "ParticleBeam" if bt == "ParticleBeam" else "ParameterBeam"
    if type(out).__name__ != want:
        return {"field": "type", "kind": "shape", "idx": None, "coord": "", "msg": f"outgoing {type(out).__name__}"}
    first = refs[next(iter(refs))]
    for fname, trail in OUT_FIELDS[bt]:
        a = getattr(out, fname).detach().numpy()
        vs, tr = tuple(a.shape[:a.ndim - trail]), tuple(a.shape[a.ndim - trail:])
        # (a) the outgoing beam broadcasts to the combined vector shape
        ok = tr == tuple(first[fname].shape)
        if ok:
            try:
                ok = tuple(np.broadcast_shapes(vs, Vs)) == Vs
            except ValueError:
                ok = False
        if not ok:
            return {"field": fname, "kind": "shape", "idx": None, "coord": "",
                    "msg": f"outgoing {fname} has shape {tuple(a.shape)}; combined vector shape is {Vs}, one setting "
                           f"gives {tuple(first[fname].shape)}"}
        ab = np.broadcast_to(a, Vs + tr)
        for idx in np.ndindex(*Vs):
            d = diff_field(fname, ab[idx], refs[idx][fname])
            if d is not None:
                kind, coord, obs, exp = d
                return {"field": fname, "kind": kind, "idx": idx, "coord": coord,
                        "msg": f"entry {list(idx)} {fname}[{coord}] = {obs!r} in the batch, {exp!r} tracked alone"}
    return None


# ------------------------------------------------------------------------------------------------
# description / signature
# ------------------------------------------------------------------------------------------------
def dims_label(case, shape: tuple) -> str:
    bt = case["beam"]["type"]
    n = case["beam"]["particles"].shape[0] if bt == "ParticleBeam" else None
    out = []
    for d in shape:
        out.append("1" if d == 1 else "N" if (n is not None and d == n) else "7" if d == 7 else "B")
    return ",".join(out)


def value_class(a: np.ndarray, trail: int = 0) -> str:
    """'=' if all batch entries are equal (no mixture involved), else which of 0 / + / - occur"""
    flat = a.reshape((-1,) + a.shape[a.ndim - trail:])
    if all(np.array_equal(flat[0], x) for x in flat[1:]):
        return "="
    return H.sign_class(a) if trail == 0 else "var"


def given(r: dict, skip: set) -> list:
    """scalar parameters that are not at their neutral value (after shrinking: the ones the failure needs)"""
    out = []
    for name in H.PARAMS.get(r["cls"], []):
        if name in skip or name not in NEUTRAL or r.get(name) == NEUTRAL[name]:
            continue
        if r["cls"] in ("Cavity", "TransverseDeflectingCavity") and name in ("L", "phase"):
            continue
        out.append(f"{name}=0" if r[name] == 0 else (f"{name}!=0" if NEUTRAL[name] == 0 else f"{name}=*"))
    return out


def predicate(case) -> str:
    """vectorised things with vector dims and value classes, then the scalar conditions; stable under re-evaluation of
    a stored (shrunk) case.  Cavity voltage/phase are classified by the sign of the energy gain dE = V cos(phase), the
    quantity the code branches on; x/y misalignments are reported as one thing."""
    single = len(case["recs"]) == 1
    labs = []
    for i, r in enumerate(case["recs"]):
        pre = "" if single else f"el{i}."
        mine = {k.split(".", 1)[1]: a for k, a in case["vec"].items() if k.split(".", 1)[0] == str(i)}
        done = set()
        if r["cls"] == "Cavity" and ("V" in mine or "phase" in mine):
            V, ph = np.broadcast_arrays(mine.get("V", np.float64(r["V"])), mine.get("phase", np.float64(r["phase"])))
            dE = np.where(V == 0, 0.0, V * np.cos(np.deg2rad(ph)))
            labs.append(f"{pre}dE[{dims_label(case, dE.shape)}]:{value_class(dE)}")
            done |= {"V", "phase"}
        for name in sorted(mine):
            if name in done:
                continue
            nm = "mis" if name in ("mx", "my") else name
            lab = f"{pre}{nm}[{dims_label(case, mine[name].shape)}]:{value_class(mine[name])}"
            if lab not in labs:
                labs.append(lab)
        labs += [pre + g for g in given(r, set(mine))]
    for k in sorted(case["vec"]):
        if k.startswith("beam."):
            tr = trailing(case, k)
            labs.append(f"{k}[{dims_label(case, vshape(case, k))}]" + (":=" if value_class(case["vec"][k], tr) == "=" else ""))
    return ";".join(labs) or "none"


def coord_group(f: dict) -> str:
    """which part of the result differs (so that a new kind of deviation is not hidden behind a recorded one)"""
    c = f.get("coord", "")
    if f["field"] in ("particles", "_mu"):
        return "tau" if c == "tau" else ("delta" if c in ("p", "delta") else "transverse")
    if f["field"] == "_cov":
        return "cov(" + ("longitudinal" if ("tau" in c or ",p" in c or c.startswith("p,")) else "transverse") + ")"
    return f["field"]


def signature(case, f: dict) -> str:
    field = "moments" if f["field"] in ("_mu", "_cov") else f["field"]
    extra = ":" + coord_group(f) if f["kind"] in ("value", "nonfinite") else ""
    return f"C04|{H.lattice_label(case['recs'])}|{predicate(case)}|{case['beam']['type']}|{field}:{f['kind']}{extra}"


def to_replay(case, f: dict) -> dict:
    return {"kind": "vector", "recs": case["recs"],
            "beam": {k: (v if isinstance(v, str) else np.asarray(v).tolist()) for k, v in case["beam"].items()},
            "vec": {k: v.tolist() for k, v in case["vec"].items()}, "diff": f["msg"]}


def from_replay(r: dict) -> dict:
    return {"recs": r["recs"],
            "beam": {k: (v if k == "type" else np.array(v, dtype=float)) for k, v in r["beam"].items()},
            "vec": {k: np.array(v, dtype=float) for k, v in r["vec"].items()}}


# ------------------------------------------------------------------------------------------------
# shrinking
# ------------------------------------------------------------------------------------------------
NEUTRAL = {"k1": 0.0, "mx": 0.0, "my": 0.0, "tilt": 0.0, "e1": 0.0, "e2": 0.0, "gap": 0.0, "fint": 0.0, "fintx": 0.0,
           "phase": 0.0, "angle": 0.0, "k": 0.0, "L": 1.0}


def canonical_beam(bt: str) -> dict:
    rng = np.random.default_rng(12345)
    return H.base_beam(rng, bt, NPART, energy=1e8)


def shrink(case, f0: dict):
    """greedy simplification keeping a failure of the same kind; returns (case, failure)"""
    cur, f = case, f0
    for _ in range(3):
        before = (H.lattice_label(cur["recs"]), predicate(cur))
        cur, f = shrink_once(cur, f)
        if (H.lattice_label(cur["recs"]), predicate(cur)) == before:
            break
    return cur, f


def shrink_once(case, f0: dict):
    kind = f0["kind"]
    cur, fcur = case, f0

    def attempt(cand):
        nonlocal cur, fcur
        try:
            f = evaluate(cand)
        except Exception:
            return False
        if isinstance(f, dict) and f["kind"] == kind:
            cur, fcur = cand, f
            return True
        return False

    def clone(c):
        return {"recs": copy.deepcopy(c["recs"]), "beam": dict(c["beam"]), "vec": dict(c["vec"])}

    def take(c, axis_from_right: int, keep: list):
        """keep only indices `keep` along the given axis (counted from the right of the vector shape)"""
        d = clone(c)
        for k, a in c["vec"].items():
            vs = vshape(c, k)
            ax = len(vs) - axis_from_right
            if ax >= 0 and vs[ax] > 1:
                d["vec"][k] = np.take(a, keep, axis=ax)
        return d

    for _pass in range(3):
        before = (predicate(cur), full_shape(cur))
        # 0. a multi-dimensional batch: the failing entry and one other entry as a 1-D batch of two
        Vs = full_shape(cur)
        if len(Vs) > 1 and fcur.get("idx") is not None:
            i = fcur["idx"]
            for jdx in np.ndindex(*Vs):
                if jdx == i:
                    continue
                d = clone(cur)
                d["vec"] = {k: np.stack([entry_of(cur, k, i, Vs), entry_of(cur, k, jdx, Vs)]) for k in cur["vec"]}
                if attempt(d):
                    break
        # 1. fewer entries along every axis (the failing entry alone, or with one neighbour)
        for _ in range(1):
            Vs = full_shape(cur)
            for ar in range(1, len(Vs) + 1):
                Vs = full_shape(cur)
                if ar > len(Vs):
                    break
                ax = len(Vs) - ar
                n = Vs[ax]
                if n <= 1:
                    continue
                i = fcur["idx"][ax] if fcur.get("idx") is not None else 0
                if attempt(take(cur, ar, [i])):
                    continue
                if n > 2:
                    for j in range(n):
                        if j != i and attempt(take(cur, ar, sorted([i, j]))):
                            break
        # 2. de-vectorise things (use the value of the failing entry)
        for key in sorted(cur["vec"]):
            Vs = full_shape(cur)
            idx = fcur["idx"] if fcur.get("idx") is not None else tuple(0 for _ in Vs)
            d = clone(cur)
            v = entry_of(cur, key, idx, Vs)
            del d["vec"][key]
            if key.startswith("beam."):
                d["beam"][key[5:]] = np.array(v)
            else:
                i, name = key.split(".", 1)
                d["recs"][int(i)][name] = float(v)
            if d["vec"]:
                attempt(d)
        # 3. remove vector axes on which every thing has size 1
        ar = 1
        while ar <= len(full_shape(cur)):
            Vs = full_shape(cur)
            if Vs[len(Vs) - ar] != 1 or len(Vs) == 1:
                ar += 1
                continue
            d = clone(cur)
            for k, a in cur["vec"].items():
                vs = vshape(cur, k)
                ax = len(vs) - ar
                if ax >= 0:
                    d["vec"][k] = np.squeeze(a, axis=ax)
            if not attempt(d):
                ar += 1
        if (predicate(cur), full_shape(cur)) == before:
            break
    # 4. drop elements of a segment
    j = 0
    while len(cur["recs"]) > 1 and j < len(cur["recs"]):
        d = clone(cur)
        del d["recs"][j]
        nv = {}
        for k, a in cur["vec"].items():
            if k.startswith("beam."):
                nv[k] = a
                continue
            i, name = k.split(".", 1)
            if int(i) != j:
                nv[f"{int(i) - (1 if int(i) > j else 0)}.{name}"] = a
        d["vec"] = nv
        if not (nv and attempt(d)):
            j += 1
    # 5. neutral values for the scalar parameters
    for i, r in enumerate(cur["recs"]):
        for name in H.PARAMS.get(r["cls"], []):
            if f"{i}.{name}" in cur["vec"] or name not in NEUTRAL or r.get(name) == NEUTRAL[name]:
                continue
            if r["cls"] in ("Cavity", "TransverseDeflectingCavity") and name == "L":
                continue
            d = clone(cur)
            d["recs"][i][name] = NEUTRAL[name]
            attempt(d)
    # 6. canonical beam
    if not any(k.startswith("beam.") for k in cur["vec"]):
        d = clone(cur)
        d["beam"] = canonical_beam(cur["beam"]["type"])
        attempt(d)
    # 7. does the mixture of values matter at all? (equal entries -> a shape / broadcasting defect)
    for key in sorted(cur["vec"]):
        tr = trailing(cur, key)
        if value_class(cur["vec"][key], tr) == "=":
            continue
        Vs = full_shape(cur)
        idx = fcur["idx"] if fcur.get("idx") is not None else tuple(0 for _ in Vs)
        v = entry_of(cur, key, idx, Vs)
        d = clone(cur)
        d["vec"][key] = np.broadcast_to(v, cur["vec"][key].shape).copy()
        attempt(d)
    return cur, fcur


# ------------------------------------------------------------------------------------------------
# generation
# ------------------------------------------------------------------------------------------------
def fill(rng, kind: str, name: str, n: int, pattern: str) -> np.ndarray:
    """n values of parameter `name` following the mixture pattern"""
    signed = name in H.SIGNED
    if name == "L" and kind == "Cavity" and pattern in ("all0", "one0+", "one0-", "one+", "one-"):
        pattern = "all+"        # a zero-length cavity is NaN on its own (division by the length): nothing to compare
    mag = np.array([abs(H.sample_value(rng, kind, name, nonzero=True)) for _ in range(n)])
    sgn = np.where(rng.random(n) < 0.5, 1.0, -1.0) if signed else np.ones(n)
    one = int(rng.integers(n))
    if pattern == "all0":
        return np.zeros(n)
    if pattern == "all+":
        return mag
    if pattern == "all-":
        return -mag
    if pattern in ("one0+", "one0-"):
        v = mag * (1.0 if pattern == "one0+" else -1.0)
        v[one] = 0.0
        return v
    if pattern in ("one+", "one-"):
        v = np.zeros(n)
        v[one] = mag[one] * (1.0 if pattern == "one+" else -1.0)
        return v
    if pattern == "antisym":
        # a symmetric scan: the entries cancel in a sum (+d, -d, ...)
        v = np.array([mag[0] * (1.0 if i % 2 == 0 else -1.0) for i in range(n)])
        if n % 2 == 1:
            v[-1] = 0.0
        return v
    if pattern == "mixed":
        if n >= 2:
            a, b = rng.choice(n, size=2, replace=False)
            sgn[a], sgn[b] = 1.0, -1.0
        return mag * sgn
    # random: whatever the scalar generator gives (zeros included)
    return np.array([H.sample_value(rng, kind, name) for _ in range(n)])


def patterns_for(name: str) -> list:
    return PATTERNS_SIGNED if name in H.SIGNED else PATTERNS_UNSIGNED


def beam_values(rng, bt: str, field: str, shape: tuple, base: dict) -> np.ndarray:
    n = int(np.prod(shape)) if shape else 1
    if field == "energy":
        return (base["energy"] * np.exp(rng.uniform(-0.7, 0.7, size=n))).reshape(shape)
    if field == "charges":
        return (base["charges"][None, :] * rng.uniform(0.3, 3.0, size=(n, 1))).reshape(shape + base["charges"].shape)
    draws = [H.base_beam(rng, bt, NPART, energy=1.0) for _ in range(n)]
    if field == "particles":
        return np.stack([d["particles"] for d in draws]).reshape(shape + (NPART, 7))
    if field == "mu":
        return np.stack([d["mu"] for d in draws]).reshape(shape + (7,))
    if field == "cov":
        return np.stack([d["cov"] for d in draws]).reshape(shape + (7, 7))
    raise ValueError(field)


def struct_shapes(rng, st: str, bt: str):
    """(candidate vector shapes for element parameters or None, for beam fields or None)"""
    nb = int(rng.integers(2, NB + 1))
    n = NPART if bt == "ParticleBeam" else 7
    return {
        "elem(B)": ([(nb,)], None),
        "elem(1)": ([(1,)], None),
        "elem(N)": ([(n,)], None),
        "elem(7)": ([(7,)], None),
        "beam(B)": (None, [(nb,)]),
        "beam(N)": (None, [(n,)]),
        "elem(B)+beam(B)": ([(nb,)], [(nb,)]),
        "elem(B,1)+beam(C)": ([(nb, 1)], [(NC,)]),
        "elem(C)+beam(B,1)": ([(NC,)], [(nb, 1)]),
        "mixed(A,B)": ([(NA, nb), (nb,), (NA, 1), (1, nb), (1, 1), (1,)], [(NA, nb), (nb,), (NA, 1)]),
    }[st]


def gen_case(rng, kinds: list, bt: str, st: str):
    recs = [H.gen_kind(rng, k) for k in kinds]
    base = H.base_beam(rng, bt, NPART)
    case = {"recs": recs, "beam": base, "vec": {}}
    eshapes, bshapes = struct_shapes(rng, st, bt)
    if st == "mixed(A,B)" and rng.random() < 0.4:
        bshapes = None
    pats = []
    if eshapes is not None:
        pool = [(i, name) for i, r in enumerate(recs) for name in H.PARAMS.get(r["cls"], [])]
        if not pool:
            return None, None
        k = int(rng.integers(1, min(len(pool), 4) + 1))
        for j in rng.choice(len(pool), size=k, replace=False):
            i, name = pool[int(j)]
            sh = eshapes[int(rng.integers(len(eshapes)))]
            pat = H.E.pick(rng, *(patterns_for(name) + ["random", "random"]))
            n = int(np.prod(sh))
            case["vec"][f"{i}.{name}"] = fill(rng, recs[i]["kind"], name, n, pat).reshape(sh)
            pats.append(f"{name}:{pat}")
    if bshapes is not None:
        fields = list(H.BEAM_FIELDS[bt])
        k = int(rng.integers(1, len(fields) + 1))
        for j in rng.choice(len(fields), size=k, replace=False):
            fld = fields[int(j)]
            sh = bshapes[int(rng.integers(len(bshapes)))]
            case["vec"]["beam." + fld] = beam_values(rng, bt, fld, sh, base)
            pats.append("beam." + fld)
    return case, pats


# ------------------------------------------------------------------------------------------------
# examine one case
# ------------------------------------------------------------------------------------------------
def examine(ctx, case, tag: str, do_shrink: bool = True, cache=None) -> None:
    rep = ctx.report
    rep.fals_cases += 1
    try:
        f = evaluate(case)
    except Exception as ex:  # harness problem, not a verdict
        rep.count(f"harness-exception:{type(ex).__name__}")
        return
    if f is None:
        return
    if isinstance(f, tuple):
        rep.count(f"rejected:{H.lattice_label(case['recs'])}:{f[1]}")
        return
    # cache key: the unshrunk classification (vectorised things with value classes + exactly-zero scalars)
    zeros = [f"{i}.{n}" for i, r in enumerate(case["recs"]) for n in H.PARAMS.get(r["cls"], []) if r.get(n) == 0]
    stripped = ";".join(x for x in predicate(case).split(";") if "[" in x)
    if f["kind"] != "value" and f["kind"] != "nonfinite":     # exceptions / shapes do not depend on the value mixture
        stripped = ";".join(x.split(":")[0] for x in stripped.split(";"))
    pre = (H.lattice_label(case["recs"]), stripped, tuple(zeros), case["beam"]["type"], f["field"], f["kind"])
    if cache is not None and pre in cache:
        sig = cache[pre]
        if sig is not None:
            rep.fail("falsifier", sig, "", {})
        return
    small, fs = shrink(case, f) if do_shrink else (case, f)
    sig = signature(small, fs)
    if cache is not None:
        cache[pre] = sig
    rep.fail("falsifier", sig,
             f"{H.lattice_label(small['recs'])} with vectorised {predicate(small)} and {small['beam']['type']}: "
             f"{fs['msg']}", to_replay(small, fs))


def key_of(case, st: str) -> tuple:
    return (H.lattice_label(case["recs"]), case["beam"]["type"], st, predicate(case))


def sweep(ctx, cache) -> None:
    """every (class, parameter, mixture pattern, beam type): that parameter alone vectorised with shape (B,)"""
    rep, rng = ctx.report, ctx.rng
    for kind, (cls, _, bts) in H.KINDS.items():
        for name in H.PARAMS.get(cls, []):
            for pat in patterns_for(name):
                for bt in bts:
                    rec = H.gen_kind(rng, kind)
                    nb = int(rng.integers(2, NB + 1))
                    case = {"recs": [rec], "beam": H.base_beam(rng, bt, NPART),
                            "vec": {f"0.{name}": fill(rng, kind, name, nb, pat)}}
                    rep.count(f"sweep:{kind}")
                    rep.count(f"pattern:{pat}")
                    rep.case(("sweep", kind, name, pat, bt),
                             {"lattice": H.label(rec), "vectorised": predicate(case), "beam": bt})
                    examine(ctx, case, "sweep", cache=cache)


def explore(ctx, n: int, cache) -> None:
    rep, rng = ctx.report, ctx.rng
    kinds = list(H.KINDS)
    for c in range(n):
        kind = kinds[c % len(kinds)]
        bts = H.KINDS[kind][2]
        bt = bts[int(rng.integers(len(bts)))]
        st = STRUCTS[int(rng.integers(len(STRUCTS)))]
        case, pats = gen_case(rng, [kind], bt, st)
        if case is None or not case["vec"]:
            continue
        rep.count(f"random:{kind}")
        rep.count(f"struct:{st}")
        rep.case(("random",) + key_of(case, st),
                 {"lattice": H.label(case["recs"][0]), "structure": st, "vectorised": predicate(case), "beam": bt})
        examine(ctx, case, "random", cache=cache)


SEG_POOL = ["Drift", "Quadrupole", "Quadrupole", "Dipole", "RBend", "Solenoid", "HorizontalCorrector",
            "VerticalCorrector", "Cavity", "Cavity", "Undulator", "Aperture", "BmadxDrift", "BmadxQuadrupole",
            "BmadxDipole", "TransverseDeflectingCavity", "Drift", "Marker", "BPM", "Screen"]


def segments(ctx, n: int, cache) -> None:
    rep, rng = ctx.report, ctx.rng
    for _ in range(n):
        bt = "ParticleBeam" if rng.random() < 0.5 else "ParameterBeam"
        pool = [k for k in SEG_POOL if bt in H.KINDS[k][2]]
        kinds = [pool[int(rng.integers(len(pool)))] for _ in range(int(rng.integers(2, 4)))]
        st = STRUCTS[int(rng.integers(len(STRUCTS)))]
        case, pats = gen_case(rng, kinds, bt, st)
        if case is None or not case["vec"]:
            continue
        rep.count("segment")
        rep.count(f"struct:{st}")
        rep.case(("segment",) + key_of(case, st),
                 {"lattice": H.lattice_label(case["recs"]), "structure": st, "vectorised": predicate(case), "beam": bt})
        examine(ctx, case, "segment", cache=cache)


def run(ctx) -> None:
    nthreads = torch.get_num_threads()
    torch.set_num_threads(1)        # tiny tensors: threading only costs
    try:
        cache: dict = {}
        sweep(ctx, cache)
        explore(ctx, ctx.n(200, 12000), cache)
        segments(ctx, ctx.n(60, 5000), cache)
    finally:
        torch.set_num_threads(nthreads)


def corpus_case(ctx, r: dict) -> None:
    if r.get("kind") == "vector":
        examine(ctx, from_replay(r), "corpus", do_shrink=False)
