"""Shared by the C04 / C05 falsifiers: element kinds, their continuous parameters, construction of real Cheetah
elements and beams from *tensors* (any leading vector shape, optionally `requires_grad` leaves), value menus."""
from __future__ import annotations

from typing import Optional

import numpy as np
import torch

import cheetah
import elements as E
import lattices as LT

F64 = torch.float64

# kind -> (class, forced record entries, beam types it can track)
KINDS = {
    "Drift": ("Drift", {}, ("ParticleBeam", "ParameterBeam")),
    "Quadrupole": ("Quadrupole", {}, ("ParticleBeam", "ParameterBeam")),
    "Dipole": ("Dipole", {}, ("ParticleBeam", "ParameterBeam")),
    "RBend": ("RBend", {}, ("ParticleBeam", "ParameterBeam")),
    "Solenoid": ("Solenoid", {}, ("ParticleBeam", "ParameterBeam")),
    "HorizontalCorrector": ("HorizontalCorrector", {}, ("ParticleBeam", "ParameterBeam")),
    "VerticalCorrector": ("VerticalCorrector", {}, ("ParticleBeam", "ParameterBeam")),
    "Undulator": ("Undulator", {}, ("ParticleBeam", "ParameterBeam")),
    "Cavity": ("Cavity", {}, ("ParticleBeam", "ParameterBeam")),
    "Aperture": ("Aperture", {"active": True}, ("ParticleBeam", "ParameterBeam")),
    "TransverseDeflectingCavity": ("TransverseDeflectingCavity", {}, ("ParticleBeam",)),
    "BmadxDrift": ("Drift", {"method": "bmadx"}, ("ParticleBeam",)),
    "BmadxQuadrupole": ("Quadrupole", {"method": "bmadx"}, ("ParticleBeam",)),
    "BmadxDipole": ("Dipole", {"method": "bmadx"}, ("ParticleBeam",)),
    "BmadxRBend": ("RBend", {"method": "bmadx"}, ("ParticleBeam",)),
    "SpaceChargeKick": ("SpaceChargeKick", {}, ("ParticleBeam",)),
    # no continuous parameters of their own: only in Segments / with vectorised beams
    "Marker": ("Marker", {}, ("ParticleBeam", "ParameterBeam")),
    "BPM": ("BPM", {}, ("ParticleBeam", "ParameterBeam")),
    "Screen": ("Screen", {"active": True}, ("ParticleBeam", "ParameterBeam")),
}

# continuous parameters (record keys) of each class
PARAMS = {
    "Drift": ["L"],
    "Quadrupole": ["L", "k1", "mx", "my", "tilt"],
    "Dipole": ["L", "angle", "k1", "e1", "e2", "tilt", "gap", "fint", "fintx"],
    "RBend": ["L", "angle", "k1", "e1", "e2", "tilt", "gap", "fint", "fintx"],
    "Solenoid": ["L", "k", "mx", "my"],
    "HorizontalCorrector": ["L", "angle"],
    "VerticalCorrector": ["L", "angle"],
    "Undulator": ["L"],
    "Cavity": ["L", "V", "phase", "freq"],
    "TransverseDeflectingCavity": ["L", "V", "phase", "freq", "mx", "my", "tilt"],
    "Aperture": ["xmax", "ymax"],
    "SpaceChargeKick": ["L"],
}
SIGNED = {"k1", "mx", "my", "tilt", "angle", "e1", "e2", "k", "V", "phase"}
# natural scale of each parameter (finite-difference steps are a fraction of max(|value|, scale))
SCALE = {"L": 1.0, "k1": 1.0, "mx": 1e-3, "my": 1e-3, "tilt": 1.0, "angle": 0.1, "e1": 0.3, "e2": 0.3, "gap": 0.05,
         "fint": 0.5, "fintx": 0.5, "k": 1.0, "V": 1e6, "phase": 30.0, "freq": 1e9, "xmax": 1e-3, "ymax": 1e-3}


def gen_kind(rng, kind: str, force: Optional[dict] = None) -> dict:
    cls, forced, _ = KINDS[kind]
    p = E.gen_params(rng, cls, force=dict(forced, **(force or {})))
    if kind == "BmadxQuadrupole":
        p["num_steps"] = int(E.pick(rng, 1, 2, 3))
    if kind == "TransverseDeflectingCavity":
        p["phase"] = float(rng.uniform(-0.5, 0.5))       # the code multiplies the phase by 2 pi
    if kind == "Aperture":
        p["xmax"] = float(E.pick(rng, 1e-3, 3e-4, 2e-4, float("inf")))
        p["ymax"] = float(E.pick(rng, 1e-3, 3e-4, 2e-4, float("inf")))
    if kind == "SpaceChargeKick":
        p["grid"] = 6
    p["kind"] = kind
    return p


def label(p: dict) -> str:
    return p["cls"] + ("(bmadx)" if p.get("method", "cheetah") == "bmadx" else "")


def sample_value(rng, kind: str, name: str, nonzero: bool = False) -> float:
    """one value of parameter `name` from the generator of `kind` (optionally != 0)"""
    for _ in range(60):
        v = gen_kind(rng, kind)[name]
        if not nonzero or (v != 0.0 and np.isfinite(v)):
            return float(v)
    return float(SCALE[name])


def tt(x) -> torch.Tensor:
    return torch.tensor(np.asarray(x, dtype=float), dtype=F64)


def build_t(p: dict, T: Optional[dict] = None, name: Optional[str] = None):
    """The real Cheetah element of record `p`; every continuous parameter is taken from T[key] (a float64 tensor with
    any leading vector shape, possibly an autograd leaf) if present, else from the record."""
    T = T or {}
    c = p["cls"]

    def g(k):
        v = T.get(k)
        return v if v is not None else tt(p[k])

    def mis():
        mx, my = torch.broadcast_tensors(g("mx"), g("my"))
        return torch.stack([mx, my], dim=-1)

    kw = dict(dtype=F64)
    if name is not None:
        kw["name"] = name
    if c in ("Drift", "Quadrupole", "Dipole", "RBend") and p.get("method", "cheetah") != "cheetah":
        kw["tracking_method"] = p["method"]
    if c == "Drift":
        return cheetah.Drift(length=g("L"), **kw)
    if c == "Quadrupole":
        return cheetah.Quadrupole(length=g("L"), k1=g("k1"), misalignment=mis(), tilt=g("tilt"),
                                  num_steps=p.get("num_steps", 1), **kw)
    if c == "Dipole":
        return cheetah.Dipole(length=g("L"), angle=g("angle"), k1=g("k1"), dipole_e1=g("e1"), dipole_e2=g("e2"),
                              tilt=g("tilt"), gap=g("gap"), fringe_integral=g("fint"),
                              fringe_integral_exit=g("fintx"), **kw)
    if c == "RBend":
        return cheetah.RBend(length=g("L"), angle=g("angle"), k1=g("k1"), rbend_e1=g("e1"), rbend_e2=g("e2"),
                             tilt=g("tilt"), gap=g("gap"), fringe_integral=g("fint"),
                             fringe_integral_exit=g("fintx"), **kw)
    if c == "Solenoid":
        return cheetah.Solenoid(length=g("L"), k=g("k"), misalignment=mis(), **kw)
    if c == "HorizontalCorrector":
        return cheetah.HorizontalCorrector(length=g("L"), angle=g("angle"), **kw)
    if c == "VerticalCorrector":
        return cheetah.VerticalCorrector(length=g("L"), angle=g("angle"), **kw)
    if c == "Undulator":
        return cheetah.Undulator(length=g("L"), **kw)
    if c == "Cavity":
        return cheetah.Cavity(length=g("L"), voltage=g("V"), phase=g("phase"), frequency=g("freq"), **kw)
    if c == "TransverseDeflectingCavity":
        return cheetah.TransverseDeflectingCavity(length=g("L"), voltage=g("V"), phase=g("phase"),
                                                  frequency=g("freq"), misalignment=mis(), tilt=g("tilt"),
                                                  num_steps=p.get("num_steps", 1), **kw)
    if c == "Aperture":
        return cheetah.Aperture(x_max=g("xmax"), y_max=g("ymax"), shape=p.get("shape", "rectangular"),
                                is_active=p.get("active", True), **kw)
    if c == "SpaceChargeKick":
        n = p.get("grid", 6)
        return cheetah.SpaceChargeKick(effect_length=g("L"), num_grid_points_x=n, num_grid_points_y=n,
                                       num_grid_points_tau=n, **kw)
    return E.build(p, name=name)       # Marker, BPM, Screen, ... (no continuous parameters of interest)


def build_lattice_t(recs: list, T: Optional[dict] = None):
    """single record -> the element; several -> Segment. T keys: '<index>.<parameter>'"""
    T = T or {}
    els = []
    for i, r in enumerate(recs):
        Ti = {k.split(".", 1)[1]: v for k, v in T.items() if k.split(".", 1)[0] == str(i)}
        els.append(build_t(r, Ti, name=f"el{i}"))
    return els[0] if len(els) == 1 else cheetah.Segment(els, name="root")


def lattice_label(recs: list) -> str:
    return label(recs[0]) if len(recs) == 1 else "Segment[" + ",".join(label(r) for r in recs) + "]"


# beam fields: name -> number of trailing (non-vector) dimensions
BEAM_FIELDS = {
    "ParticleBeam": {"particles": 2, "energy": 0, "charges": 1},
    "ParameterBeam": {"mu": 1, "cov": 2, "energy": 0},
}


def moments(P: np.ndarray):
    mu = P.mean(axis=0)
    C = np.zeros((7, 7))
    C[:6, :6] = np.cov(P[:, :6].T)
    return mu, C


def base_beam(rng, bt: str, n: int = 5, energy: Optional[float] = None) -> dict:
    """scalar beam description: dict of numpy arrays"""
    P = LT.gen_particles(rng, max(n, 8))
    En = E.energy(rng) if energy is None else energy
    if bt == "ParticleBeam":
        P = P[:n]
        if rng.random() < 0.3:
            # a particle flying exactly along the axis (px = py = 0) — where norms of the transverse momentum have a
            # singular derivative although the tracked map is smooth there (positions stay generic: x = 0 is a cell
            # boundary of the space-charge grid, where the kick genuinely has a kink)
            P[0, 1] = P[0, 3] = 0.0
        return {"type": bt, "particles": P, "energy": np.float64(En), "charges": np.full(n, 1e-10 / n)}
    mu, C = moments(P)
    return {"type": bt, "mu": mu, "cov": C, "energy": np.float64(En)}


def make_beam(b: dict, T: Optional[dict] = None):
    """Cheetah beam from the description; T overrides fields with tensors (vectorised / leaves)"""
    T = T or {}

    def g(k):
        v = T.get(k)
        return v if v is not None else tt(b[k])
    if b["type"] == "ParticleBeam":
        return cheetah.ParticleBeam(g("particles"), g("energy"), particle_charges=g("charges"), dtype=F64)
    return cheetah.ParameterBeam(g("mu"), g("cov"), g("energy"), total_charge=tt(1e-10), dtype=F64)


def sign_class(v) -> str:
    """which of zero / positive / negative values occur, e.g. '0/+'"""
    a = np.asarray(v, dtype=float).reshape(-1)
    s = {("0" if x == 0 else "+" if x > 0 else "-" if x < 0 else "nan") for x in a}
    return "/".join(c for c in ("0", "+", "-", "nan") if c in s)
