"""C05 falsifier — autograd gradients of tracking equal the true derivatives and are finite.

Oracle: finite differences in float64.  A case is a lattice (one element or a short Segment) at a *point* (a parameter
record; chosen parameters are exactly zero, all others generic and non-zero), a fixed beam, and the list of all
continuous parameters theta_j: every element parameter, the beam energy and one random direction in the particle array
(ParticleBeam) / in mu and in cov (ParameterBeam).  All theta_j are autograd leaves of ONE tracking run; for several
scalar outputs y_k of the outgoing beam (a weighted sum of each coordinate over the particles / each mean, weighted sums
of the transverse, longitudinal and mixed blocks of cov, the energy) d y_k / d theta_j from torch.autograd.grad (each
y_k differentiated from its own graph root) is compared with the slope D of a least-squares quartic through 9 points
theta_j + u h (irregular offsets |u| <= 4, h = 2.5e-4 of max(|theta_j|, natural scale)):

  (a) the gradient is finite (all outputs are finite at the point, else the point is skipped)      -> kind 'nonfinite'
  (b) |grad - D| <= 1e-5 max(|grad|, |D|) + 20 se(D) + 1e-9 |y| / |theta|                          -> kind 'wrong'
      (a gradient that is None - the parameter is detached from the graph - counts as 0)            -> kind 'none'

se(D) is the standard error of the fitted slope from the fit residuals; it contains the evaluation noise of y (never
taken below the quantisation eps * max(1, lattice length) of the intermediates), the truncation error of the quartic
and any discontinuity of the code at the point (zero-length dipole with an angle: the tolerance opens up and only
finiteness is checked).  Measured on the clean tree: |grad - D| / |grad| has median 1e-12, 99 % < 1e-7 wherever the
allowance is below 1e-6 of the gradient, except for the (reported) cancellation at angle == k1 == 0 in dipoles.
"""
from __future__ import annotations

import copy

import numpy as np
import torch

import lattices as LT
from fals import _c0405 as H

META = {
    "rule": "case = lattice (every element class with continuous parameters incl. Bmad-X variants, TDC, SpaceChargeKick; "
            "Segments of 2-3 elements) x point (generic / exactly one parameter zero / all signed parameters zero / "
            "random zero subsets) x beam type; per case every continuous element parameter, the beam energy and one "
            "direction in particles / mu / cov is differentiated for 7-10 scalar outputs; distinct = distinct (lattice, "
            "zero set, beam type)",
    "assumptions": ["finite-difference oracle: least-squares quartic through 9 irregularly spaced points within +-1e-3 of "
                    "max(|value|, natural scale); tolerance 1e-5 relative to the gradient + 20 standard errors of the "
                    "fitted slope (noise floor eps * max(1, lattice length) on y) + 1e-9 |y| / |theta|",
                    "points where an output of the tracking itself is non-finite are skipped (that is C07's subject)",
                    "a None gradient is read as 0 and reported only when finite differences show a non-zero derivative"],
}

RT = 1e-5
HREL = 1e-3
FLOOR = 1e-9
PARAXIAL = np.array([0.05, 1.5, 0.05, 1.5, 0.02, 0.1])   # largest |x|, |px|, |y|, |py|, |tau|, |p| of a beam-like beam
EPS = 2.0 ** -52
COORD = ["x", "px", "y", "py", "tau", "p"]
PLANE = ["T", "T", "T", "T", "L", "L"]
NPART = 6
_STATS = None      # calibration hook: list collecting (lattice, parameter, output, |err|, scale, step diff, round-off)


# ------------------------------------------------------------------------------------------------
# case = {"recs": [records], "beam": {type, arrays}, "dirs": {field: array}, "w": weights}
# ------------------------------------------------------------------------------------------------
def thetas(case) -> list:
    """(key, value, natural scale) of every continuous parameter"""
    out = []
    for i, r in enumerate(case["recs"]):
        for name in H.PARAMS.get(r["cls"], []):
            if r["cls"] == "Aperture":
                continue
            out.append((f"{i}.{name}", float(r[name]), H.SCALE[name]))
    b = case["beam"]
    out.append(("beam.energy", float(b["energy"]), float(b["energy"])))
    for fld in case["dirs"]:
        out.append((f"beam.{fld}", 0.0, 1.0))
    return out


def forward(case, vals: dict, as_list: bool = False):
    """track with the parameter tensors `vals` (key -> 0-d float64 tensor); returns (y (K,), yscale (K,))"""
    T = {k: v for k, v in vals.items() if not k.startswith("beam.")}
    b = case["beam"]
    ct = case.get("_t")
    if ct is None:      # tensors of the fixed arrays, made once per case
        ct = case["_t"] = {"b": {k: H.tt(v) for k, v in b.items() if k != "type"},
                           "d": {k: H.tt(v) for k, v in case["dirs"].items()},
                           "w": {k: H.tt(v) for k, v in case["w"].items()}}
    TB = {k: v for k, v in ct["b"].items() if k != "energy"}
    TB["energy"] = vals["beam.energy"]
    for fld, d in ct["d"].items():
        TB[fld] = ct["b"][fld] + vals[f"beam.{fld}"] * d
    lat, inc = H.build_lattice_t(case["recs"], T), H.make_beam(b, TB)
    if case.get("merged") and hasattr(lat, "transfer_maps_merged"):
        # the speed-optimised lattice, rebuilt for every evaluation (also inside the finite differences)
        lat = lat.transfer_maps_merged(incoming_beam=inc)
    out = lat.track(inc)
    ys, sc = [], []
    if b["type"] == "ParticleBeam":
        amp = out.particles.detach().abs().reshape(-1, 7).max(dim=0).values[:6]
    else:
        amp = out._mu.detach().abs()[:6] + out._cov.detach().diagonal().abs().sqrt()[:6]
    case["_amp"] = amp.numpy()
    if b["type"] == "ParticleBeam":
        P = out.particles
        ww = ct["w"]["p"]
        for c in range(6):
            ys.append((ww * P[..., c]).sum())
            sc.append(float((ww.abs() * P[..., c].detach().abs()).sum()))
    else:
        mu, cov = out._mu, out._cov
        sd = cov.detach().diagonal().abs().sqrt()
        for c in range(6):
            ys.append(mu[c])
            sc.append(float(max(abs(float(mu[c].detach())), float(sd[c]))))
        W = ct["w"]["c"]
        for blk in (slice(0, 4), slice(4, 6)):
            ys.append((W[blk, blk] * cov[blk, blk]).sum())
            sc.append(float((W[blk, blk].abs() * torch.outer(sd[blk], sd[blk])).sum()))
        ys.append((W[0:4, 4:6] * cov[0:4, 4:6]).sum())
        sc.append(float((W[0:4, 4:6].abs() * torch.outer(sd[0:4], sd[4:6])).sum()))
    e = out.energy
    ys.append(e if e.dim() == 0 else e.reshape(-1)[0])
    sc.append(abs(float(ys[-1].detach())))
    if as_list:     # separate graph roots: a zero cotangent pushed into a sibling output's graph could itself make NaN
        return ys, np.array(sc)
    return torch.stack([y.reshape(()) for y in ys]), np.array(sc)


def out_names(bt: str):
    if bt == "ParticleBeam":
        return [f"sum w*{c}" for c in COORD] + ["energy"], PLANE + ["E"]
    return [f"mu[{c}]" for c in COORD] + ["cov[T,T]", "cov[L,L]", "cov[T,L]", "energy"], PLANE + ["T", "L", "X", "E"]


def jacobian(case, th: list):
    """autograd: (y, yscale, G (K, J) with None -> 0, isnone (K, J))"""
    leaves = {k: torch.tensor(v, dtype=H.F64, requires_grad=True) for k, v, _ in th}
    y, ysc = forward(case, leaves, as_list=True)
    K, J = len(y), len(th)
    G = np.zeros((K, J))
    isnone = np.zeros((K, J), dtype=bool)
    ll = [leaves[k] for k, _, _ in th]
    for k in range(K):
        if not y[k].requires_grad:
            isnone[k, :] = True
            continue
        gs = torch.autograd.grad(y[k], ll, retain_graph=True, allow_unused=True)
        for j, g in enumerate(gs):
            if g is None:
                isnone[k, j] = True
            else:
                G[k, j] = float(g)
    return np.array([float(v) for v in y]), ysc, G, isnone


# finite-difference design: 8 irregular offsets (in units of h) around the point.  A regular stencil is aliased by the
# sawtooth rounding pattern of some outputs (cavity terms computed from 1 - beta0 beta1 at high energy look perfectly
# smooth on a regular grid but with a wrong slope); irregular offsets turn it into scatter that the fit residual sees.
_U = np.array([-3.83, -2.29, -1.31, -0.47, 0.0, 0.59, 1.43, 2.61, 3.97])
_X = np.vander(_U, 5, increasing=True)
_PINV = np.linalg.pinv(_X)
_C11 = float(np.linalg.inv(_X.T @ _X)[1, 1])


def fd_column(case, th: list, j: int, y0: np.ndarray):
    """derivative wrt theta_j by a least-squares quartic through 9 points theta + u h (h = HREL/4 of the scale).
    Returns (slope (K,), standard error of the slope from the fit residuals (K,), h).  The residuals contain the
    evaluation noise of y (far above eps |y| for some outputs), the truncation error of the quartic model and any
    discontinuity at the point."""
    key, v, s = th[j]
    h = HREL * max(abs(v), s) / 4
    base = {k: torch.tensor(x, dtype=H.F64) for k, x, _ in th}
    Y = []
    with torch.no_grad():
        for u in _U:
            if u == 0.0:
                Y.append(y0)
                continue
            vals = dict(base)
            vals[key] = torch.tensor(v + u * h, dtype=H.F64)
            Y.append(forward(case, vals)[0].numpy())
    Y = np.array(Y)
    Yc = Y - y0
    coef = _PINV @ Yc
    res = Yc - _X @ coef
    sigma = np.sqrt(np.sum(res ** 2, axis=0) / (len(_U) - 5))
    return coef[1] / h, sigma * np.sqrt(_C11) / h, h


def evaluate(case, only: str = None):
    """list of failures {param, kind, planes, outputs, msg}; ('rejected', why) if the point cannot be tracked or an
    output is not finite there"""
    th = thetas(case)
    try:
        y, ysc, G, isnone = jacobian(case, th)
    except Exception as ex:
        return ("rejected", type(ex).__name__)
    if not np.all(np.isfinite(y)):
        return ("rejected", "forward-nonfinite")
    if np.any(case["_amp"] > PARAXIAL):
        # blown-up beam (metres of amplitude, tau beyond an RF wavelength): outside the physical range of the model,
        # and the outputs oscillate in the parameters faster than any finite-difference step can resolve
        return ("rejected", "non-paraxial")
    names, planes = out_names(case["beam"]["type"])
    unit = max(1.0, sum(abs(float(r.get("L", 0.0))) for r in case["recs"]))
    yq = np.array([sc if nm == "energy" else max(sc, unit) for sc, nm in zip(ysc, names)])
    fails = []
    # (a) finite gradients
    nf = [(k, j) for j in range(len(th)) for k in range(len(y)) if not np.isfinite(G[k, j])]
    if nf and only in (None, "*"):
        k, j = nf[0]
        ps = sorted({th[j][0] for _, j in nf})
        fails.append({"param": "*", "kind": "nonfinite", "planes": "".join(sorted({planes[k] for k, _ in nf})),
                      "outputs": sorted({names[k] for k, _ in nf}), "params": ps,
                      "msg": f"d {names[k]} / d {th[j][0]} = {G[k, j]!r}; non-finite gradients wrt {ps} "
                             f"({len(nf)} of {G.size} entries), all outputs are finite"})
    for j, (key, v, s) in enumerate(th):
        if only is not None and key != only:
            continue
        g = G[:, j]
        try:
            Ds, se, h3 = fd_column(case, th, j, y)
        except Exception:
            continue
        # never trust a residual below the quantisation of the intermediates: coordinates are computed as differences
        # of numbers of size 1 (momenta) or of the lattice length (positions), so y moves in quanta of eps * that size
        # (a staircase on which a weak dependence looks exactly constant)
        se = np.maximum(np.where(np.isfinite(se), se, np.inf), 4 * EPS * np.maximum(yq, np.abs(y)) * np.sqrt(_C11) / h3)
        # (b) value of the gradient against the finite-difference slope
        bad = {}
        for k in range(len(y)):
            if not np.isfinite(g[k]) or not np.isfinite(Ds[k]):
                continue
            # 20 standard errors of the fitted slope + 1e-9 of the natural size |y| / |theta| of a derivative
            allow = 20 * se[k] + FLOOR * max(ysc[k], abs(y[k])) / max(abs(v), s)
            tol = RT * max(abs(g[k]), abs(Ds[k])) + allow
            if _STATS is not None:
                _STATS.append((H.lattice_label(case["recs"]) + "@" + ",".join(zero_set(case)), key, names[k], abs(g[k] - Ds[k]),
                               max(abs(g[k]), abs(Ds[k])), se[k], 0.0))
            if not abs(g[k] - Ds[k]) <= tol:
                # a gradient that is off by a few percent of its size at most (cancellation in a regularised formula) is a
                # different defect from one that is plainly wrong (zero, wrong sign, wrong factor); the cancellation error of the
                # regularised (1 - cos)/k reaches a few per cent for short magnets, hence 30 %
                rel = abs(g[k] - Ds[k]) / max(abs(g[k]), abs(Ds[k]), 1e-300)
                kind = "none" if isnone[k, j] else ("imprecise" if rel < 0.3 else "wrong")
                shown = "None" if isnone[k, j] else repr(float(g[k]))
                bad.setdefault(kind, []).append(
                    (k, f"d {names[k]} / d {key}: autograd {shown}, finite differences {float(Ds[k])!r} "
                        f"(+- {allow:.1e})"))
        for kind, lst in bad.items():
            fails.append({"param": key, "kind": kind, "planes": "".join(sorted({planes[k] for k, _ in lst})),
                          "outputs": [names[k] for k, _ in lst],
                          "msg": lst[0][1] + (f" (and {len(lst) - 1} more outputs: "
                                              f"{[names[k] for k, _ in lst[1:]]})" if len(lst) > 1 else "")})
    return fails


# ------------------------------------------------------------------------------------------------
# description / signature
# ------------------------------------------------------------------------------------------------
def zero_set(case) -> list:
    single = len(case["recs"]) == 1
    out = []
    for i, r in enumerate(case["recs"]):
        for name in H.PARAMS.get(r["cls"], []):
            if r["cls"] != "Aperture" and r[name] == 0:
                out.append(name if single else f"el{i}.{name}")
    return out


SPECIAL_ANGLES = [float(np.pi / 2), float(-np.pi / 2), float(np.pi)]      # documented settings (vertical / flipped magnets)


def special_set(case) -> list:
    """parameters sitting exactly on a special angle (tilt = +-pi/2, pi)"""
    out = []
    for i, r in enumerate(case["recs"]):
        if "tilt" in r and any(float(r["tilt"]) == a for a in SPECIAL_ANGLES):
            out.append("tilt" if len(case["recs"]) == 1 else f"el{i}.tilt")
    return out


def param_label(case, key: str) -> str:
    if key.startswith("beam."):
        return key
    i, name = key.split(".", 1)
    name = "mis" if name in ("mx", "my") else name        # one buffer in the code
    return name if len(case["recs"]) == 1 else f"el{i}.{name}"


def signature(case, f: dict) -> str:
    z = zero_set(case)
    pred = ",".join(f"{n}==0" for n in z) or "generic"
    par = "*" if f["param"] == "*" else param_label(case, f["param"])
    spec = ",".join(f"{n}==special" for n in special_set(case))
    if spec:
        pred = pred + "," + spec if pred != "generic" else spec
    if case.get("merged"):
        pred += ",merged"
    return f"C05|{H.lattice_label(case['recs'])}|{pred}|d/d{par}|{case['beam']['type']}|{f['kind']}"


def to_replay(case, f: dict) -> dict:
    return {"kind": "grad", "recs": case["recs"],
            "beam": {k: (v if isinstance(v, str) else np.asarray(v).tolist()) for k, v in case["beam"].items()},
            "dirs": {k: np.asarray(v).tolist() for k, v in case["dirs"].items()},
            "w": {k: np.asarray(v).tolist() for k, v in case["w"].items()},
            "param": f["param"], "fail_kind": f["kind"], "diff": f["msg"], "merged": bool(case.get("merged"))}


def from_replay(r: dict) -> dict:
    return {"recs": r["recs"],
            "beam": {k: (v if k == "type" else np.array(v, dtype=float)) for k, v in r["beam"].items()},
            "dirs": {k: np.array(v, dtype=float) for k, v in r["dirs"].items()},
            "w": {k: np.array(v, dtype=float) for k, v in r["w"].items()}, "merged": bool(r.get("merged"))}


# ------------------------------------------------------------------------------------------------
# generation
# ------------------------------------------------------------------------------------------------
def make_beam_part(rng, bt: str, energy=None) -> dict:
    b = H.base_beam(rng, bt, NPART, energy=energy)
    sig = LT.REF_SIG
    if bt == "ParticleBeam":
        d = rng.normal(size=(NPART, 7)) * sig
        d[:, 6] = 0.0
        dirs = {"particles": d}
        w = {"p": rng.uniform(0.5, 1.5, size=NPART)}
    else:
        dm = rng.normal(size=7) * sig
        dm[6] = 0.0
        A = rng.normal(size=(7, 7)) * np.outer(sig, sig)
        dc = 0.2 * (A + A.T)
        dc[6, :] = 0.0
        dc[:, 6] = 0.0
        dirs = {"mu": dm, "cov": dc}
        W = rng.uniform(0.5, 1.5, size=(7, 7))
        w = {"c": (W + W.T) / 2}
    return {"beam": b, "dirs": dirs, "w": w}


def gen_point(rng, kind: str, zeros: set) -> dict:
    """record with exactly the parameters in `zeros` equal to 0 and every other continuous parameter non-zero"""
    for _ in range(20):
        p = H.gen_kind(rng, kind)
        for name in H.PARAMS.get(p["cls"], []):
            if name in zeros:
                p[name] = 0.0
            elif p[name] == 0.0 or not np.isfinite(p[name]):
                p[name] = H.sample_value(rng, kind, name, nonzero=True)
        # physical range: at most ~3 rad of betatron phase advance per element (cosh(3) = 10 x amplification)
        if "k1" in p and abs(p["k1"]) * p["L"] ** 2 > 9.0:
            p["k1"] = float(np.sign(p["k1"]) * 9.0 / p["L"] ** 2)
        if "k" in p and abs(p["k"] * p["L"]) > 3.0:
            p["k"] = float(np.sign(p["k"]) * 3.0 / p["L"])
        if p["cls"] in ("Dipole", "RBend") and p["L"] != 0:
            # stay away from the cancellation k1 + hx^2 ~ 0 (ill-conditioned, finite differences useless)
            hx2 = (p["angle"] / p["L"]) ** 2
            if abs(p["k1"] + hx2) < 0.05 * (abs(p["k1"]) + hx2):
                continue
        if p["cls"] in ("Dipole", "RBend"):
            p["e1"] = float(np.clip(p["e1"], -0.6, 0.6))
            p["e2"] = float(np.clip(p["e2"], -0.6, 0.6))
        return p
    return p


def point_menu(cls: str) -> list:
    names = H.PARAMS[cls]
    menu = [set()] + [{n} for n in names]
    signed = {n for n in names if n in H.SIGNED}
    if len(signed) > 1:
        menu.append(signed)
    if "mx" in names:
        menu.append({"mx", "my"})
    return menu


def make_case(rng, kinds: list, zero_sets: list, bt: str) -> dict:
    recs = [gen_point(rng, k, z) for k, z in zip(kinds, zero_sets)]
    # moderate energies: the longitudinal derivatives (R56 ~ 1/gamma^2) stay well above round-off
    En = float(np.exp(rng.uniform(np.log(5e6), np.log(1e9))))
    case = {"recs": recs}
    case.update(make_beam_part(rng, bt, energy=En))
    return case


# ------------------------------------------------------------------------------------------------
# shrinking
# ------------------------------------------------------------------------------------------------
def still_fails(case, f0: dict):
    try:
        fs = evaluate(case, only=f0["param"])
    except Exception:
        return None
    if isinstance(fs, tuple):
        return None
    for f in fs:
        if f["param"] == f0["param"] and f["kind"] == f0["kind"]:
            return f
    return None


def shrink(rng_seed: int, case, f0: dict):
    rng = np.random.default_rng(rng_seed)
    cur, fcur = case, f0

    def attempt(cand, f_ref):
        nonlocal cur, fcur
        f = still_fails(cand, f_ref)
        if f is not None:
            cur, fcur = cand, f
            return True
        return False

    # 0. does the failure need the merged lattice / the special angles at all?
    if cur.get("merged"):
        d = dict(cur, merged=False)
        d.pop("_t", None)
        attempt(d, fcur)
    for i, r in enumerate(cur["recs"]):
        if "tilt" in r and any(float(r["tilt"]) == a for a in SPECIAL_ANGLES):
            d = dict(cur, recs=copy.deepcopy(cur["recs"]))
            d.pop("_t", None)
            d["recs"][i]["tilt"] = 0.37
            attempt(d, fcur)
    # 1. drop elements that do not own the parameter
    j = 0
    while len(cur["recs"]) > 1 and j < len(cur["recs"]):
        key = fcur["param"]
        own = int(key.split(".", 1)[0]) if not (key.startswith("beam.") or key == "*") else None
        if own == j:
            j += 1
            continue
        d = dict(cur, recs=copy.deepcopy(cur["recs"]))
        del d["recs"][j]
        fr = dict(fcur)
        if own is not None and own > j:
            fr["param"] = f"{own - 1}.{key.split('.', 1)[1]}"
        if not attempt(d, fr):
            j += 1
    # 2. which exact zeros does the failure need? (make every other zero generic)
    for i, r in enumerate(cur["recs"]):
        for name in H.PARAMS.get(r["cls"], []):
            if r["cls"] == "Aperture" or cur["recs"][i][name] != 0:
                continue
            d = dict(cur, recs=copy.deepcopy(cur["recs"]))
            d["recs"][i][name] = H.sample_value(rng, r["kind"], name, nonzero=True)
            attempt(d, fcur)
    # 3. canonical beam
    d = dict(cur)
    d.pop("_t", None)
    d.update(make_beam_part(np.random.default_rng(4242), cur["beam"]["type"], energy=1e8))
    attempt(d, fcur)
    return cur, fcur


# ------------------------------------------------------------------------------------------------
def classify(case, f: dict):
    """((element label, parameter, beam type, kind), exact zeros of that element) - used to recognise, without
    shrinking again, a failure whose minimal form was already established in this run"""
    key = f["param"]
    if key == "*" or key.startswith("beam."):
        if len(case["recs"]) != 1:
            return None
        i, pname = 0, key
    else:
        i, pname = int(key.split(".", 1)[0]), key.split(".", 1)[1]
        pname = "mis" if pname in ("mx", "my") else pname
    r = case["recs"][i]
    zeros = frozenset(n for n in H.PARAMS.get(r["cls"], []) if r[n] == 0)
    return (H.label(r), pname, case["beam"]["type"], f["kind"]), zeros


def examine(ctx, case, do_shrink: bool = True, known=None, only: str = None) -> None:
    rep = ctx.report
    rep.fals_cases += 1
    try:
        fs = evaluate(case, only=only)
    except Exception as ex:
        rep.count(f"harness-exception:{type(ex).__name__}")
        return
    if isinstance(fs, tuple):
        rep.count(f"rejected:{H.lattice_label(case['recs'])}:{fs[1]}")
        return
    for f in fs:
        cl = classify(case, f) if known is not None else None
        if cl is not None:
            hit = [sig for z, sig in known.get(cl[0], []) if z <= cl[1]]
            if hit:
                rep.fail("falsifier", hit[0], "", {})
                continue
        small, f2 = shrink(len(H.lattice_label(case["recs"])), case, f) if do_shrink else (case, f)
        sig = signature(small, f2)
        cs = classify(small, f2)
        if known is not None and cs is not None and len(small["recs"]) == 1:
            known.setdefault(cs[0], []).append((cs[1], sig))
        zs = ",".join(n + "==0" for n in zero_set(small)) or "a generic point"
        rep.fail("falsifier", sig, f"{H.lattice_label(small['recs'])} at {zs} with {small['beam']['type']}: {f2['msg']}",
                 to_replay(small, f2))


def sweep(ctx, cache) -> None:
    """every class at: the generic point, every single parameter exactly zero, all signed parameters zero, both
    misalignments zero.  Thorough tier: both beam types everywhere; quick tier: one beam type per point (drawn) and a
    reduced menu for the RBend variants (same code as Dipole up to the edge-angle offset)."""
    rep, rng = ctx.report, ctx.rng
    full = ctx.n(0, 1) == 1
    for kind, (cls, _, bts) in H.KINDS.items():
        if cls == "Aperture" or cls not in H.PARAMS:
            continue
        menu = point_menu(cls)
        if cls == "RBend" and not full:
            menu = [z for z in menu if z in (set(), {"angle"}, {"k1"}, {"L"}) or len(z) > 2]
        for zs in menu:
            for bt in (bts if full else (bts[int(rng.integers(len(bts)))],)):
                case = make_case(rng, [kind], [zs], bt)
                rep.count(f"sweep:{kind}")
                rep.count("point:" + ("generic" if not zs else "one-zero" if len(zs) == 1 else "several-zero"))
                rep.case(("sweep", kind, tuple(sorted(zs)), bt),
                         {"lattice": H.label(case["recs"][0]), "zero": sorted(zs), "beam": bt,
                          "parameters": [k for k, _, _ in thetas(case)]})
                examine(ctx, case, known=cache)
        if "tilt" in H.PARAMS[cls]:
            # the documented settings of a vertical / flipped magnet: the tilt exactly on +-pi/2 (and pi in the thorough tier)
            for ang in (SPECIAL_ANGLES if full else SPECIAL_ANGLES[:2]):
                bt = bts[int(rng.integers(len(bts)))]
                case = make_case(rng, [kind], [set()], bt)
                case["recs"][0]["tilt"] = ang
                rep.count("point:special-tilt")
                rep.case(("sweep-special-tilt", kind, ang, bt), None)
                examine(ctx, case, known=cache)


def random_zero_set(rng, cls: str) -> set:
    names = H.PARAMS.get(cls, [])
    if cls == "Aperture" or not names:
        return set()
    u = rng.random()
    if u < 0.3:
        return set()
    return {n for n in names if rng.random() < (0.25 if u < 0.8 else 0.6)}


def explore(ctx, n: int, cache) -> None:
    rep, rng = ctx.report, ctx.rng
    kinds = [k for k in H.KINDS if H.KINDS[k][0] != "Aperture" and H.KINDS[k][0] in H.PARAMS]
    for c in range(n):
        kind = kinds[c % len(kinds)]
        cls, _, bts = H.KINDS[kind]
        bt = bts[int(rng.integers(len(bts)))]
        zs = random_zero_set(rng, cls)
        case = make_case(rng, [kind], [zs], bt)
        if "tilt" in case["recs"][0] and "tilt" not in zs and rng.random() < 0.3:
            case["recs"][0]["tilt"] = SPECIAL_ANGLES[int(rng.integers(len(SPECIAL_ANGLES)))]
            rep.count("random:special-tilt")
        rep.count(f"random:{kind}")
        rep.case(("random", kind, tuple(sorted(zs)), bt), {"lattice": H.label(case["recs"][0]), "zero": sorted(zs), "beam": bt})
        examine(ctx, case, known=cache)


SEG_POOL = ["Drift", "Quadrupole", "Quadrupole", "Dipole", "RBend", "Solenoid", "HorizontalCorrector",
            "VerticalCorrector", "Cavity", "Undulator", "Aperture", "BmadxDrift", "BmadxQuadrupole", "BmadxDipole",
            "TransverseDeflectingCavity", "Marker", "BPM", "Screen"]


def segments(ctx, n: int, cache) -> None:
    rep, rng = ctx.report, ctx.rng
    for _ in range(n):
        bt = "ParticleBeam" if rng.random() < 0.5 else "ParameterBeam"
        pool = [k for k in SEG_POOL if bt in H.KINDS[k][2]]
        kinds = [pool[int(rng.integers(len(pool)))] for _ in range(int(rng.integers(2, 4)))]
        zss = [random_zero_set(rng, H.KINDS[k][0]) if rng.random() < 0.5 else set() for k in kinds]
        case = make_case(rng, kinds, zss, bt)
        if bt == "ParticleBeam":
            # keep every particle inside the apertures (survival is not a differentiable output)
            for r in case["recs"]:
                if r["cls"] == "Aperture":
                    r["xmax"] = r["ymax"] = float("inf")
        for r in case["recs"]:
            if "tilt" in r and r["tilt"] != 0.0 and rng.random() < 0.15:
                r["tilt"] = SPECIAL_ANGLES[int(rng.integers(len(SPECIAL_ANGLES)))]
        if rng.random() < 0.4:
            case["merged"] = True
            rep.count("segment:merged")
        rep.count("segment")
        rep.case(("segment", H.lattice_label(case["recs"]), str(zero_set(case)), bt, bool(case.get("merged"))),
                 {"lattice": H.lattice_label(case["recs"]), "zero": zero_set(case), "beam": bt})
        examine(ctx, case, known=cache)


def merged_behind_cavity(ctx, n: int, cache) -> None:
    """Drift - active Cavity - two or more mergeable elements at low energy, tracked through `transfer_maps_merged`: the merged
    maps behind the cavity depend on the cavity's settings and on the incoming energy through the beam energy"""
    rep, rng = ctx.report, ctx.rng
    for _ in range(n):
        bt = "ParticleBeam" if rng.random() < 0.5 else "ParameterBeam"
        tail = [str(rng.choice(["Drift", "Quadrupole", "Drift", "HorizontalCorrector"])) for _ in range(int(rng.integers(2, 4)))]
        kinds = ["Drift", "Cavity"] + tail
        case = make_case(rng, kinds, [set() for _ in kinds], bt)
        cav = case["recs"][1]
        case["beam"]["energy"] = np.array(float(np.exp(rng.uniform(np.log(4e6), np.log(3e7)))))
        cav["V"] = float(rng.uniform(0.5, 3.0) * float(case["beam"]["energy"]))
        cav["phase"] = float(rng.uniform(-30.0, 30.0))
        case["merged"] = True
        rep.count("merged-behind-cavity")
        rep.case(("merged-behind-cavity", H.lattice_label(case["recs"]), bt), {"lattice": H.lattice_label(case["recs"]), "beam": bt})
        examine(ctx, case, known=cache)


def run(ctx) -> None:
    nthreads = torch.get_num_threads()
    torch.set_num_threads(1)        # tiny tensors: threading only costs
    try:
        cache: dict = {}
        sweep(ctx, cache)
        explore(ctx, ctx.n(30, 1200), cache)
        segments(ctx, ctx.n(16, 500), cache)
        merged_behind_cavity(ctx, ctx.n(4, 120), cache)
    finally:
        torch.set_num_threads(nthreads)


def corpus_case(ctx, r: dict) -> None:
    if r.get("kind") == "grad":
        examine(ctx, from_replay(r), do_shrink=False, only=r.get("param"))
