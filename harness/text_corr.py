"""B1 correspondence for C13: the textual front end shared by the Elegant and Bmad importers
(`converters/utils/fortran_namelist.py`: `read_clean_lines`, `merge_delimiter_continued_lines`; `converters/utils/rpn.py`)
vs the Lean model `CheetahModel/Text.lean` (driver op `txt`).  Lines cross the pipe hex-encoded; Python's IndexError is
the model's `none`.  Two line generators: *cleaned* (what the converters really pass on: stripped, non-empty, lower case,
marks at the end and inside) and *raw* (a small alphabet with blanks, tabs, marks, comment signs, upper case, empty lines)."""
from __future__ import annotations

import ast
import tempfile
from pathlib import Path

from cheetah.converters.utils import fortran_namelist as FN
from cheetah.converters.utils import rpn as RPN
from common import LeanDriver, REPO

WORDS = ["q1: quad", "l=1", "k1 = 2.5", "d1: drift", "line=(a,b)", "x", "lq 2 /", "%r = 1", "b[k1]"]
ENDS = ["", "", "", "&", ",", "{", ", &", ",&", "&&", ",,", "{,", "& ,"]
RAW = " \t!&,{aBz=1\x0c"


def enc(s: str) -> str:
    return "".join(f"{ord(c):02x}" for c in s) if s else "-"


def dec(tok: str) -> str:
    return "" if tok == "-" else bytes.fromhex(tok).decode("latin-1")


def cleaned_line(rng) -> str:
    k = int(rng.integers(1, 4))
    body = ", ".join(WORDS[int(rng.integers(len(WORDS)))] for _ in range(k))
    if rng.random() < 0.2:
        body = body.replace(",", [" &", "{", ",,"][int(rng.integers(3))], 1)
    return (body + ENDS[int(rng.integers(len(ENDS)))]).strip()


def raw_line(rng) -> str:
    return "".join(RAW[int(rng.integers(len(RAW)))] for _ in range(int(rng.integers(0, 9))))


def gen_lines(rng, raw: bool) -> list[str]:
    n = int(rng.integers(0, 7))
    return [raw_line(rng) if raw else cleaned_line(rng) for _ in range(n)]


def show(res) -> str:
    if res is None:
        return "T none"
    return ("T " + " ".join(enc(l) for l in res)).strip()


def converter_passes(modname: str):
    """the merging calls of a converter, read from its source (same reading as tools/extract.py)"""
    out = []
    for node in ast.walk(ast.parse((REPO / "cheetah" / "converters" / f"{modname}.py").read_text())):
        if isinstance(node, ast.Assign) and isinstance(node.value, ast.Call) and \
                isinstance(node.value.func, ast.Name) and node.value.func.id == "merge_delimiter_continued_lines":
            kw = {k.arg: ast.literal_eval(k.value) for k in node.value.keywords}
            out.append((node.lineno, kw.get("delimiter"), kw.get("remove_delimiter", False)))
    return [(d, rm) for _, d, rm in sorted(out)]


def real_merge(lines, d, rm):
    try:
        return FN.merge_delimiter_continued_lines(list(lines), delimiter=d, remove_delimiter=rm)
    except IndexError:
        return None


def real_all(lines, passes):
    cur = list(lines)
    for d, rm in passes:
        cur = real_merge(cur, d, rm)
        if cur is None:
            return None
    return cur


def real_clean(lines, tmp: Path):
    f = tmp / "in.lte"
    f.write_text("".join(l + "\n" for l in lines), newline="")
    return FN.read_clean_lines(f)


def real_rpn(e: str):
    try:
        v = RPN.is_valid_expression(e)
    except IndexError:
        v = None
    saved = RPN.__dict__.get("eval", None)
    RPN.eval = lambda text, ctx: text          # observe the text handed to eval instead of evaluating it
    try:
        t = RPN.eval_expression(e, {})
    except IndexError:
        t = None
    finally:
        if saved is None:
            del RPN.eval
        else:
            RPN.eval = saved
    return v, t


def run_text_correspondence(ctx, prop: str, n: int) -> None:
    rep, rng = ctx.report, ctx.rng
    drv = LeanDriver()
    cases = []
    passes = {m: converter_passes(m) for m in ("elegant", "bmad")}
    with tempfile.TemporaryDirectory() as td:
        tmp = Path(td)
        for i in range(n):
            raw = i % 3 == 2
            ls = gen_lines(rng, raw)
            d = "&,{;"[int(rng.integers(4))]
            rm = bool(rng.integers(2))
            hexes = " ".join(enc(l) for l in ls)
            try:
                cases.append(("merge", (ls, d, rm), show(real_merge(ls, d, rm)), drv.raw(f"txt merge {enc(d)} {int(rm)} {hexes}")))
                for m, ps in passes.items():
                    cases.append((f"all:{m}", (ls,), show(real_all(ls, ps)), drv.raw(f"txt all {hexes}")))
                raws = [raw_line(rng) + ("! " + raw_line(rng) if rng.random() < 0.4 else "") for _ in range(int(rng.integers(0, 6)))]
                cases.append(("clean", (raws,), show(real_clean(raws, tmp)), drv.raw("txt clean " + " ".join(enc(l) for l in raws))))
            except Exception as ex:  # noqa: BLE001  anything but the modelled IndexError
                rep.fail("correspondence", f"{prop}|model-mismatch|text front end|{type(ex).__name__}",
                         f"the text front end raised {type(ex).__name__}: {ex} on lines {ls!r} (mark {d!r}, remove {rm}); the model knows only IndexError",
                         {"kind": "txt", "lines": ls, "mark": d, "remove": rm,
                          "broken": "correspondence fortran_namelist <-> CheetahModel.Text"}, found_input=False)
                continue
            toks = [["a", "lq", "2", "x1", "-3.5", "", "+", "*"][int(rng.integers(8))] for _ in range(int(rng.integers(0, 4)))]
            op = ["+", "-", "/", "*", "^", ""][int(rng.integers(6))]
            e = [" ", "", "  "][int(rng.integers(3))].join(toks + [op]) if rng.random() < 0.3 else " ".join(toks + [op])
            e = [" ", "", "\t"][int(rng.integers(3))] + e + ["", " ", "  "][int(rng.integers(3))]
            v, t = real_rpn(e)
            cases.append(("rpnv", (e,), "T none" if v is None else f"T {int(v)}", drv.raw(f"txt rpnv {enc(e)}")))
            cases.append(("rpni", (e,), show(None if t is None else [t]), drv.raw(f"txt rpni {enc(e)}")))
    replies = drv.run()
    for what, args, real, idx in cases:
        model = str(replies[idx]).strip()
        rep.corr_cases += 1
        rep.count(f"txt:{what.split(':')[0]}")
        rep.count("txt:reply:" + ("none" if real == "T none" else "value"))
        rep.case(("txt", what, real == "T none"), {"args": repr(args)[:200]} if rep.corr_cases < 6 else None)
        if model != real:
            ctx.escalate = True

            def pretty(r):
                if not r.startswith("T") or r == "T none" or what == "rpnv":
                    return r
                try:
                    return repr([dec(t) for t in r.split()[1:]])
                except ValueError:
                    return r
            rep.fail("correspondence", f"{prop}|model-mismatch|text front end|{what.split(':')[0]}",
                     f"{what}{args!r}: code {pretty(real)[:300]} model {pretty(model)[:300]}",
                     {"kind": "txt", "op": what, "args": list(args), "code": real, "model": model,
                      "broken": "correspondence converters/utils/fortran_namelist.py, rpn.py <-> CheetahModel.Text; theorems "
                                "C13.continuation_*, C13.cleaned_lines, C13.rpn_is_infix no longer speak about this code"},
                     found_input=False)
