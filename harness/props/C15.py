"""C15 — clone() yields an equal, independent, identically behaving copy

B2: as C14 (clone = construct(class, features)).
F : every class with non-default attributes: equality, dtype, storage disjointness, track equality, mutation independence (fals/C15.py).
"""
from __future__ import annotations


try:
    from fals import C15 as F
except ImportError:  # falsifier module not present
    F = None

META = {
    "level": "proof",
    "rule": 'B2 table rows: one per element class' + ((" | falsifier: " + F.META.get("rule", "")) if F and hasattr(F, "META") else ""),
    "modelled": 'feature lists vs constructor signatures (Features.lean)',
    "gap": 'storage independence is observed (data_ptr), not proved',
    "assumptions": ((F.META.get("assumptions", []) if F and hasattr(F, "META") else []) + []),
}


PARAM_CLASSES = ["Drift", "Quadrupole", "Dipole", "RBend", "Solenoid", "HorizontalCorrector", "VerticalCorrector",
                 "Undulator", "Cavity", "TransverseDeflectingCavity", "Aperture", "Screen", "BPM", "Marker"]


def parameter_case(rep, r: dict) -> None:
    """trainable attributes (`element.k1 = nn.Parameter(...)`, the way gradient-based tuning is set up): the clone has
    equal values, no shared storage, and in-place changes of either do not reach the other"""
    import torch
    from torch import nn
    from fals import _full as FU
    dtype = FU.DTYPES[r["dtype"]]
    el = FU.build_full(r["record"], dtype)
    cname = type(el).__name__
    made = []
    for f in el.defining_features:
        v = getattr(el, f, None)
        if isinstance(v, torch.Tensor) and v.is_floating_point() and f in r["trainable"]:
            try:
                setattr(el, f, nn.Parameter(v.detach().clone()))
                made.append(f)
            except Exception:  # noqa: BLE001  (derived / read-only attribute)
                pass
    if not made:
        return
    try:
        cl = el.clone()
    except Exception as e:  # noqa: BLE001
        rep.fail("falsifier", f"C15|{cname}.clone|trainable attribute|exception:{type(e).__name__}",
                 f"{cname}.clone() with nn.Parameter attributes {made} raised {type(e).__name__}: {e}", r)
        return
    for f in made:
        a, b = getattr(el, f), getattr(cl, f)
        if tuple(a.shape) != tuple(b.shape) or a.dtype != b.dtype or not torch.equal(a.detach(), b.detach()):
            rep.fail("falsifier", f"C15|{cname}.clone|trainable attribute|value", f"{cname}.{f}: clone has {b.detach().tolist()} ({b.dtype}), original "
                     f"{a.detach().tolist()} ({a.dtype})", r)
            return
        if a.detach().untyped_storage().data_ptr() == b.detach().untyped_storage().data_ptr():
            rep.fail("falsifier", f"C15|{cname}.clone|trainable attribute|shared-storage", f"{cname}.{f} (an nn.Parameter): the clone shares its "
                     "tensor storage with the original", r)
            return
        before = a.detach().clone()
        with torch.no_grad():
            b.add_(1.0)
        if not torch.equal(a.detach(), before):
            rep.fail("falsifier", f"C15|{cname}.clone|trainable attribute|not-independent", f"in-place change of clone.{f} changed original.{f}", r)
            return
        before = b.detach().clone()
        with torch.no_grad():
            a.mul_(0.5)
        if not torch.equal(b.detach(), before):
            rep.fail("falsifier", f"C15|{cname}.clone|trainable attribute|not-independent", f"in-place change of original.{f} changed clone.{f}", r)
            return


def parameter_probe(ctx, n: int) -> None:
    from fals import _full as FU
    rep, rng = ctx.report, ctx.rng
    for i in range(n):
        cls = PARAM_CLASSES[i % len(PARAM_CLASSES)]
        rec = FU.gen_full(rng, cls, "el", p_set=0.8)
        dtn = FU.pick(rng, "float64", "float32")
        try:
            el = FU.build_full(rec, FU.DTYPES[dtn])
        except Exception as e:  # noqa: BLE001  (record rejected by the constructor)
            rep.count(f"rejected:{type(e).__name__}")
            continue
        import torch
        feats = [f for f in el.defining_features if isinstance(getattr(el, f, None), torch.Tensor) and getattr(el, f).is_floating_point()]
        if not feats:
            continue
        train = [f for f in feats if rng.random() < 0.6] or feats[:1]
        r = {"kind": "trainable", "record": rec, "dtype": dtn, "trainable": train}
        rep.fals_cases += 1
        rep.count("probe:trainable:" + cls)
        try:
            parameter_case(rep, r)
        except Exception as e:  # noqa: BLE001  (record rejected by the constructor)
            rep.count(f"rejected:{type(e).__name__}")


def duplicate_names_probe(ctx, n: int) -> None:
    """segments in which several (different) elements carry the same name — `Segment` supports that and lists them under
    `segment.<name>` —, flat and nested: the clone must equal the original position by position"""
    import copy
    import numpy as np
    from fals import _full as FU
    rep, rng = ctx.report, ctx.rng
    for _ in range(n):
        case = F.gen_element_case(rng)
        if case["record"]["cls"] != "Segment":
            continue
        lv = FU.leaves(case["record"]["elements"])
        if len(lv) < 2:
            continue
        # give a second element the name of the first of the same class (or of any element)
        i = int(rng.integers(len(lv)))
        same = [k for k in range(len(lv)) if k != i and lv[k]["cls"] == lv[i]["cls"]]
        if not same or rng.random() < 0.25:
            r2 = FU.gen_full(rng, lv[i]["cls"], lv[i]["name"], p_set=1.0)
            F._tame(rng, r2)
            case["record"]["elements"].insert(int(rng.integers(len(case["record"]["elements"]) + 1)), r2)
        else:
            lv[same[int(rng.integers(len(same)))]]["name"] = lv[i]["name"]
        case["mutations"] = ["assign"]
        case["probe"] = "duplicate-names"
        rep.fals_cases += 1
        rep.count("probe:duplicate-names")
        rep.case(("dupnames", lv[i]["cls"]), None)
        F.examine(rep, case, do_shrink=False)


def _all_tensors(obj, depth: int = 0, seen=None) -> dict:
    """every tensor reachable from the object's state (buffers, parameters, sub-modules, plain attributes such as a stored
    read beam or a cached image): path -> tensor"""
    import torch
    seen = seen if seen is not None else set()
    out = {}
    if id(obj) in seen or depth > 4:
        return out
    seen.add(id(obj))
    if isinstance(obj, torch.Tensor):
        return {"": obj}
    items = []
    if isinstance(obj, (list, tuple)):
        items = [(f"[{i}]", v) for i, v in enumerate(obj)]
    elif isinstance(obj, dict):
        items = [(f"[{k!r}]", v) for k, v in obj.items()]
    elif hasattr(obj, "__dict__"):
        items = [("." + k, v) for k, v in vars(obj).items() if k not in ("_backward_hooks", "_forward_hooks", "training")]
    for k, v in items:
        for kk, t in _all_tensors(v, depth + 1, seen).items():
            out[k + kk] = t
    return out


def used_clone_case(rep, r: dict) -> None:
    """clone() of an object that has been *used* (tracked beams, diagnostics read out): nothing the clone holds shares storage
    with anything the original holds, and working on the clone's read-out leaves the original's untouched"""
    import numpy as np
    import torch
    import cheetah
    import lattices as LT
    from fals import _full as FU
    dtype = FU.DTYPES[r["dtype"]]
    el = FU.build_full(r["record"], dtype)
    P = np.array(r["particles"], dtype=float)
    for bt in r["beams"]:
        b = FU.make_beam(bt, P, r["energy"], dtype)
        try:
            el.track(b)
        except Exception:  # noqa: BLE001
            pass
        for d in ([el] if not isinstance(el, cheetah.Segment) else FU.real_leaves(el)):
            if hasattr(d, "reading"):
                try:
                    _ = d.reading
                except Exception:  # noqa: BLE001
                    pass
    cname = type(el).__name__
    cl = el.clone()
    to, tc = _all_tensors(el), _all_tensors(cl)
    ptr = {}
    for k, t in to.items():
        if t.numel() > 0:
            ptr.setdefault(t.untyped_storage().data_ptr(), k)
    for k, t in tc.items():
        if t.numel() > 0 and t.untyped_storage().data_ptr() in ptr:
            what = k.split(".")[-1] if "." in k else k
            rep.fail("falsifier", f"C15|{r['record']['cls']}.clone|after use|shared-storage:{'read-out state' if any(w in k for w in ('read_beam', 'cached', 'reading')) else what}",
                     f"clone of a used {cname}: clone{k} shares its storage with original{ptr[t.untyped_storage().data_ptr()]}", r)
            return
    for d0, d1 in zip(([el] if not isinstance(el, cheetah.Segment) else FU.real_leaves(el)), ([cl] if not isinstance(cl, cheetah.Segment) else FU.real_leaves(cl))):
        if not hasattr(d0, "reading"):
            continue
        try:
            r0 = d0.reading
            r1 = d1.reading
        except Exception:  # noqa: BLE001
            continue
        if isinstance(r0, torch.Tensor) and isinstance(r1, torch.Tensor) and r1.numel() > 0:
            keep = r0.detach().clone()
            with torch.no_grad():
                r1.mul_(0.5).add_(1.0)
            if not torch.equal(torch.nan_to_num(d0.reading.detach()), torch.nan_to_num(keep)):
                rep.fail("falsifier", f"C15|{type(d0).__name__}.clone|after use|reading not independent", f"scaling the clone's {type(d0).__name__}.reading in "
                         "place changed the original's reading", r)
                return


def used_clone_probe(ctx, n: int) -> None:
    from fals import _full as FU
    rep, rng = ctx.report, ctx.rng
    kinds = ["Screen", "BPM", "Segment", "Screen", "Quadrupole", "Dipole", "Aperture", "Cavity", "Segment", "SpaceChargeKick"]
    for i in range(n):
        kind = kinds[i % len(kinds)]
        if kind == "Segment":
            case = F.gen_element_case(rng)
            rec = case["record"]
            for lf in FU.leaves(rec.get("elements", [])):
                if lf["cls"] in ("Screen", "BPM"):
                    lf["args"]["is_active"] = True
        else:
            rec = FU.gen_full(rng, kind, "el", p_set=0.7)
            if kind in ("Screen", "BPM"):
                rec["args"]["is_active"] = True
        r = {"kind": "used_clone", "record": rec, "dtype": FU.pick(rng, "float64", "float32"), "energy": 1e8,
             "particles": FU.gen_particles(rng, 8).tolist(), "beams": [["ParticleBeam"], ["ParameterBeam"], ["ParticleBeam", "ParameterBeam"]][int(rng.integers(3))]}
        rep.fals_cases += 1
        rep.count("probe:used-clone:" + kind)
        rep.case(("used_clone", kind, tuple(r["beams"])), None)
        try:
            used_clone_case(rep, r)
        except Exception as ex:  # noqa: BLE001
            rep.count(f"used-clone:rejected:{type(ex).__name__}")


def run(ctx) -> None:
    parameter_probe(ctx, ctx.n(28, 400))
    if F is not None:
        used_clone_probe(ctx, ctx.n(20, 300))
    if F is not None:
        duplicate_names_probe(ctx, ctx.n(12, 250))
    if F is not None:
        F.run(ctx)


def corpus_case(ctx, r: dict) -> None:
    if r.get("kind") == "trainable":
        return parameter_case(ctx.report, r)
    if r.get("kind") == "used_clone":
        return used_clone_case(ctx.report, r)
    if F is not None and hasattr(F, "corpus_case"):
        F.corpus_case(ctx, r)


def replay(ctx, data) -> bool:
    from common import Report
    import types
    c2 = types.SimpleNamespace(**{k: getattr(ctx, k) for k in ("prop", "tier", "seed", "rng", "escalate", "t0", "n")})
    c2.report = Report("C15")
    corpus_case(c2, data["replay"])
    return bool(c2.report.failures)
