"""C15 — clone() yields an equal, independent, identically behaving copy

B2: as C14 (clone = construct(class, features)).
F : every class with non-default attributes: equality, dtype, storage disjointness, track equality, mutation independence (fals/C15.py).
"""
from __future__ import annotations


try:
    from fals import C15 as F
except ImportError:  # falsifier module not present
    F = None

META = {
    "level": "proof",
    "rule": 'B2 table rows: one per element class' + ((" | falsifier: " + F.META.get("rule", "")) if F and hasattr(F, "META") else ""),
    "modelled": 'feature lists vs constructor signatures (Features.lean)',
    "gap": 'storage independence is observed (data_ptr), not proved',
    "assumptions": ((F.META.get("assumptions", []) if F and hasattr(F, "META") else []) + []),
}


def run(ctx) -> None:
    pass
    if F is not None:
        F.run(ctx)


def corpus_case(ctx, r: dict) -> None:
    if F is not None and hasattr(F, "corpus_case"):
        F.corpus_case(ctx, r)


def replay(ctx, data) -> bool:
    from common import Report
    import types
    c2 = types.SimpleNamespace(**{k: getattr(ctx, k) for k in ("prop", "tier", "seed", "rng", "escalate", "t0", "n")})
    c2.report = Report("C15")
    corpus_case(c2, data["replay"])
    return bool(c2.report.failures)
