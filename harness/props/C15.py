"""C15 — clone() yields an equal, independent, identically behaving copy

B2: as C14 (clone = construct(class, features)).
F : every class with non-default attributes: equality, dtype, storage disjointness, track equality, mutation independence (fals/C15.py).
"""
from __future__ import annotations


try:
    from fals import C15 as F
except ImportError:  # falsifier module not present
    F = None

META = {
    "level": "proof",
    "rule": 'B2 table rows: one per element class' + ((" | falsifier: " + F.META.get("rule", "")) if F and hasattr(F, "META") else ""),
    "modelled": 'feature lists vs constructor signatures (Features.lean)',
    "gap": 'storage independence is observed (data_ptr), not proved',
    "assumptions": ((F.META.get("assumptions", []) if F and hasattr(F, "META") else []) + []),
}


PARAM_CLASSES = ["Drift", "Quadrupole", "Dipole", "RBend", "Solenoid", "HorizontalCorrector", "VerticalCorrector",
                 "Undulator", "Cavity", "TransverseDeflectingCavity", "Aperture", "Screen", "BPM", "Marker"]


def parameter_case(rep, r: dict) -> None:
    """trainable attributes (`element.k1 = nn.Parameter(...)`, the way gradient-based tuning is set up): the clone has
    equal values, no shared storage, and in-place changes of either do not reach the other"""
    import torch
    from torch import nn
    from fals import _full as FU
    dtype = FU.DTYPES[r["dtype"]]
    el = FU.build_full(r["record"], dtype)
    cname = type(el).__name__
    made = []
    for f in el.defining_features:
        v = getattr(el, f, None)
        if isinstance(v, torch.Tensor) and v.is_floating_point() and f in r["trainable"]:
            try:
                setattr(el, f, nn.Parameter(v.detach().clone()))
                made.append(f)
            except Exception:  # noqa: BLE001  (derived / read-only attribute)
                pass
    if not made:
        return
    try:
        cl = el.clone()
    except Exception as e:  # noqa: BLE001
        rep.fail("falsifier", f"C15|{cname}.clone|trainable attribute|exception:{type(e).__name__}",
                 f"{cname}.clone() with nn.Parameter attributes {made} raised {type(e).__name__}: {e}", r)
        return
    for f in made:
        a, b = getattr(el, f), getattr(cl, f)
        if tuple(a.shape) != tuple(b.shape) or a.dtype != b.dtype or not torch.equal(a.detach(), b.detach()):
            rep.fail("falsifier", f"C15|{cname}.clone|trainable attribute|value", f"{cname}.{f}: clone has {b.detach().tolist()} ({b.dtype}), original "
                     f"{a.detach().tolist()} ({a.dtype})", r)
            return
        if a.detach().untyped_storage().data_ptr() == b.detach().untyped_storage().data_ptr():
            rep.fail("falsifier", f"C15|{cname}.clone|trainable attribute|shared-storage", f"{cname}.{f} (an nn.Parameter): the clone shares its "
                     "tensor storage with the original", r)
            return
        before = a.detach().clone()
        with torch.no_grad():
            b.add_(1.0)
        if not torch.equal(a.detach(), before):
            rep.fail("falsifier", f"C15|{cname}.clone|trainable attribute|not-independent", f"in-place change of clone.{f} changed original.{f}", r)
            return
        before = b.detach().clone()
        with torch.no_grad():
            a.mul_(0.5)
        if not torch.equal(b.detach(), before):
            rep.fail("falsifier", f"C15|{cname}.clone|trainable attribute|not-independent", f"in-place change of original.{f} changed clone.{f}", r)
            return


def parameter_probe(ctx, n: int) -> None:
    from fals import _full as FU
    rep, rng = ctx.report, ctx.rng
    for i in range(n):
        cls = PARAM_CLASSES[i % len(PARAM_CLASSES)]
        rec = FU.gen_full(rng, cls, "el", p_set=0.8)
        dtn = FU.pick(rng, "float64", "float32")
        try:
            el = FU.build_full(rec, FU.DTYPES[dtn])
        except Exception as e:  # noqa: BLE001  (record rejected by the constructor)
            rep.count(f"rejected:{type(e).__name__}")
            continue
        import torch
        feats = [f for f in el.defining_features if isinstance(getattr(el, f, None), torch.Tensor) and getattr(el, f).is_floating_point()]
        if not feats:
            continue
        train = [f for f in feats if rng.random() < 0.6] or feats[:1]
        r = {"kind": "trainable", "record": rec, "dtype": dtn, "trainable": train}
        rep.fals_cases += 1
        rep.count("probe:trainable:" + cls)
        try:
            parameter_case(rep, r)
        except Exception as e:  # noqa: BLE001  (record rejected by the constructor)
            rep.count(f"rejected:{type(e).__name__}")


def duplicate_names_probe(ctx, n: int) -> None:
    """segments in which several (different) elements carry the same name — `Segment` supports that and lists them under
    `segment.<name>` —, flat and nested: the clone must equal the original position by position"""
    import copy
    import numpy as np
    from fals import _full as FU
    rep, rng = ctx.report, ctx.rng
    for _ in range(n):
        case = F.gen_element_case(rng)
        if case["record"]["cls"] != "Segment":
            continue
        lv = FU.leaves(case["record"]["elements"])
        if len(lv) < 2:
            continue
        # give a second element the name of the first of the same class (or of any element)
        i = int(rng.integers(len(lv)))
        same = [k for k in range(len(lv)) if k != i and lv[k]["cls"] == lv[i]["cls"]]
        if not same or rng.random() < 0.25:
            r2 = FU.gen_full(rng, lv[i]["cls"], lv[i]["name"], p_set=1.0)
            F._tame(rng, r2)
            case["record"]["elements"].insert(int(rng.integers(len(case["record"]["elements"]) + 1)), r2)
        else:
            lv[same[int(rng.integers(len(same)))]]["name"] = lv[i]["name"]
        case["mutations"] = ["assign"]
        case["probe"] = "duplicate-names"
        rep.fals_cases += 1
        rep.count("probe:duplicate-names")
        rep.case(("dupnames", lv[i]["cls"]), None)
        F.examine(rep, case, do_shrink=False)


def run(ctx) -> None:
    parameter_probe(ctx, ctx.n(28, 400))
    if F is not None:
        duplicate_names_probe(ctx, ctx.n(12, 250))
    if F is not None:
        F.run(ctx)


def corpus_case(ctx, r: dict) -> None:
    if r.get("kind") == "trainable":
        return parameter_case(ctx.report, r)
    if F is not None and hasattr(F, "corpus_case"):
        F.corpus_case(ctx, r)


def replay(ctx, data) -> bool:
    from common import Report
    import types
    c2 = types.SimpleNamespace(**{k: getattr(ctx, k) for k in ("prop", "tier", "seed", "rng", "escalate", "t0", "n")})
    c2.report = Report("C15")
    corpus_case(c2, data["replay"])
    return bool(c2.report.failures)
