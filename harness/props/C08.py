"""C08 — lattice speed optimisations do not change tracking results.

B1 (i)  exact: the real `Segment.transfer_maps_merged` on integer stub elements vs the Lean model `Lat.merged`
        (structure of the merged lattice incl. every merged matrix), both beam types, random exception lists.
B1 (ii) per real class: the two hypotheses of C08.drop_identity_track / replace_equal_track
        (inactive & zero length -> track = identity; inactive -> track = Drift(length) track).
F       random real lattices and exception lists: each transformation, then track, vs the original; length; names.
"""
from __future__ import annotations

import numpy as np
import torch

import cheetah
import elements as E
import lattices as LT
import stubs as ST
from common import LeanDriver

META = {
    "level": "proof",
    "rule": "stub case = random lattice of integer stubs x exception list x beam type; real case = random real lattice x "
            "transformation in {merged, no-markers, no-inactive-zero-length, inactive-as-drifts} x exception list x beam "
            "type; distinct = distinct (class sequence, transformation)",
    "modelled": "Segment.transfer_maps_merged, CustomTransferMap.from_merging_elements, without_inactive_markers, "
                "without_inactive_zero_length_elements, inactive_elements_as_drifts as Lat.merged / without / replaced",
    "gap": "the per-class hypotheses (inactive zero-length element tracks as identity; inactive element tracks as a "
           "drift) are sampled on the real classes, not proved; vectorised settings are falsifier-only",
    "assumptions": ["float tolerance 1e-9 relative per coordinate"],
}

TRANSFORMS = ["merged", "no_markers", "no_zero_length", "as_drifts"]


def stub_correspondence(ctx, n_cases: int) -> None:
    rep, rng = ctx.report, ctx.rng
    drv = LeanDriver()
    pend = []
    for _ in range(n_cases):
        case = ST.Case(rng, max_depth=1)
        seg = case.build()
        st, tr = case.stub_tokens(), case.tree_tokens()
        names = case.top_names()
        k = int(rng.integers(0, min(3, len(names)) + 1))
        keeps = [int(x) for x in rng.choice(names, size=k, replace=False)] if k else []
        kt = f"{len(keeps)} " + " ".join(str(x) for x in keeps)
        pb, pbt = ST.rand_pbeam(rng)
        mb, mbt = ST.rand_mbeam(rng)
        for op, b, bt in (("mergedP", pb, pbt), ("mergedM", mb, mbt)):
            merged = seg.transfer_maps_merged(b, except_for=[str(x) for x in keeps])
            pend.append((op, {**case.describe(), "except_for": keeps}, drv.raw(f"lat {op} {st} {tr} {bt} {kt}"),
                         "T " + ST.show_real(merged)))
    replies = drv.run()
    for op, desc, idx, real in pend:
        rep.corr_cases += 1
        rep.count("stub:" + op)
        rep.case(("stub", op, str(desc["tree"]), str(desc["except_for"])), {"op": op, **desc})
        model = replies[idx]
        model = model if isinstance(model, str) else "T " + " ".join(str(int(x)) for x in model)
        if model.strip() != real.strip():
            ctx.escalate = True
            rep.fail("correspondence", f"C08|stub|{op}",
                     "Segment.transfer_maps_merged on integer stub elements differs from the Lean model Lat.merged",
                     {"kind": "stub", "op": op, "case": desc, "code": real[:600], "model": model[:600],
                      "broken": "correspondence transfer_maps_merged <-> CheetahModel.Lattice.merged; theorem "
                                "C08.merge_track no longer speaks about this code"}, found_input=False)


def run_arrivals_correspondence(ctx, prop: str, n_cases: int) -> None:
    """what `transfer_maps_merged` sends into the items it does not merge (recorded by wrapping their `track`) vs the Lean
    model `Lat.arrivals` on integer stubs — the theorem `arrivals_spec` says these are the beams of element-by-element tracking"""
    rep, rng = ctx.report, ctx.rng
    drv = LeanDriver()
    pend = []
    for _ in range(n_cases):
        case = ST.Case(rng, max_depth=1)
        st, tr = case.stub_tokens(), case.tree_tokens()
        names = case.top_names()
        k = int(rng.integers(0, min(3, len(names)) + 1))
        keeps = [int(x) for x in rng.choice(names, size=k, replace=False)] if k else []
        kt = f"{len(keeps)} " + " ".join(str(x) for x in keeps)
        pb, pbt = ST.rand_pbeam(rng)
        mb, mbt = ST.rand_mbeam(rng)
        for op, b, bt, show in (("arrP", pb, pbt, ST.show_pbeam), ("arrM", mb, mbt, ST.show_mbeam)):
            seg = case.build()
            seen: list = []
            for it in seg.elements:
                if (not it.is_skippable) or str(it.name) in [str(x) for x in keeps]:
                    def rec(incoming, _orig=it.track, _show=show):
                        seen.append(_show(incoming))
                        return _orig(incoming)
                    it.track = rec
            seg.transfer_maps_merged(b, except_for=[str(x) for x in keeps])
            pend.append((op, {**case.describe(), "except_for": keeps}, drv.raw(f"lat {op} {st} {tr} {bt} {kt}"), "T " + " | ".join(seen)))
    replies = drv.run()
    for op, desc, idx, real in pend:
        rep.corr_cases += 1
        rep.count("stub:" + op)
        rep.case(("stub", op, str(desc["tree"]), str(desc["except_for"])), None)
        model = replies[idx]
        model = model if isinstance(model, str) else "T " + " ".join(str(int(x)) for x in model)
        if model.strip() != real.strip():
            ctx.escalate = True
            rep.fail("correspondence", f"{prop}|stub|{op}",
                     "the beams Segment.transfer_maps_merged sends into the items it does not merge differ from the Lean model Lat.arrivals",
                     {"kind": "stub", "op": op, "case": desc, "code": real[:600], "model": model[:600],
                      "broken": "correspondence transfer_maps_merged (probe beam) <-> CheetahModel.Lattice.arrivals; theorem arrivals_spec"},
                     found_input=False)


# ------------------------------------------------------------------------------------------------
def apply_transform(seg, name: str, b, except_for):
    if name == "merged":
        return seg.transfer_maps_merged(b, except_for=except_for)
    if name == "no_markers":
        return seg.without_inactive_markers(except_for=except_for)
    if name == "no_zero_length":
        return seg.without_inactive_zero_length_elements(except_for=except_for)
    if name == "as_drifts":
        return seg.inactive_elements_as_drifts(except_for=except_for)
    raise ValueError(name)


def top_class(r: dict) -> str:
    c = r["cls"]
    if c == "Segment":
        return "Segment"
    return LT.class_seq([r])


def physical(beam, bt) -> bool:
    """False when the reference result left the regime the maps are meant for (non-finite coordinates, a beam blown up
    to more than a metre / transverse momenta comparable to the reference momentum by an over-focusing lattice). There
    the code's `k1 == 0 -> 1e-12` regularisation and NaN propagation through identity maps dominate, and the property
    makes no claim."""
    import torch
    v = beam.particles[..., :6] if bt == "ParticleBeam" else beam._mu[..., :6]
    if not bool(torch.isfinite(v).all()):
        return False
    if bt == "ParameterBeam" and not bool(torch.isfinite(beam._cov).all()):
        return False
    a = v.abs().reshape(-1, 6).max(dim=0).values
    return bool(a[0] < 1.0 and a[2] < 1.0 and a[1] < 0.3 and a[3] < 0.3)


def check_lattice(recs, P, En, bt, tname, except_for):
    """None if the transformation preserved tracking/length/names, else a description."""
    if bt == "ParameterBeam" and any(r.get("method") == "bmadx" or r["cls"] in ("SpaceChargeKick", "TransverseDeflectingCavity")
                                     for r in LT.leaves(recs)):
        return None
    b = LT.particle_beam(P, En) if bt == "ParticleBeam" else LT.parameter_beam_from(P, En)
    seg = LT.build_segment(recs)
    ref = seg.track(b)
    if not physical(ref, bt):
        return None
    seg2 = LT.build_segment(recs)
    new = apply_transform(seg2, tname, b, except_for)
    out = new.track(b)
    # 1e-8: a switched-off paraxial Bmad-X quadrupole equals a Bmad-X drift only up to third order in px, py
    d = LT.beams_differ(out, ref, rtol=1e-8)
    if d is not None:
        return "track: " + d
    if new.name != seg.name:
        return f"name {new.name!r} vs {seg.name!r}"
    if tname in ("merged", "as_drifts", "no_markers"):
        l0, l1 = float(seg.length), float(new.length)
        if not abs(l0 - l1) <= 1e-9 * max(1.0, abs(l0)):
            return f"length {l1} vs {l0}"
    if tname == "no_zero_length":
        l0, l1 = float(seg.length), float(new.length)
        if not abs(l0 - l1) <= 1e-9 * max(1.0, abs(l0)):
            return f"length {l1} vs {l0}"
    # excepted elements are kept unchanged (same object) and addressable by name
    kept_orig = [el for el in seg2.elements if el.name in except_for]
    kept_new = [el for el in new.elements if el.name in except_for]
    if len(kept_orig) != len(kept_new) or any(a is not c for a, c in zip(kept_orig, kept_new)):
        return f"excepted elements not kept: {[e.name for e in kept_new]} vs {[e.name for e in kept_orig]}"
    for nm in except_for:
        if any(el.name == nm for el in seg2.elements) and not hasattr(new, nm):
            return f"excepted element {nm} not addressable by name"
    if tname == "merged":
        # never merges across a non-skippable (non-mergeable / energy-changing) element: every original non-skippable
        # element is still there, in order
        ns_orig = [el.name for el in seg2.elements if not el.is_skippable]
        ns_new = [el.name for el in new.elements if not el.is_skippable]
        if ns_orig != ns_new:
            return f"non-mergeable elements changed: {ns_new} vs {ns_orig}"
    return None


def culprits(recs, tname, except_for, P, En, bt) -> str:
    """classes of the top-level elements the transformation dropped or replaced (stable signature component)"""
    try:
        b = LT.particle_beam(P, En) if bt == "ParticleBeam" else LT.parameter_beam_from(P, En)
        seg = LT.build_segment(recs)
        new = apply_transform(seg, tname, b, except_for)
        changed = set()
        if tname == "merged":
            changed = {top_class(r) for r in recs}
        elif tname == "as_drifts":
            cur = b
            for r, el, nel in zip(recs, seg.elements, new.elements):
                nxt = el.track(cur)
                if el is not nel and LT.beams_differ(nxt, nel.track(cur), rtol=1e-8) is not None:
                    changed.add(top_class(r))
                cur = nxt
        else:
            kept = {id(e) for e in new.elements}
            cur = b
            for r, el in zip(recs, seg.elements):
                nxt = el.track(cur)
                if id(el) not in kept and LT.beams_differ(nxt, cur, rtol=1e-8) is not None:
                    changed.add(top_class(r))
                cur = nxt
        changed = sorted(changed)
        return ",".join(changed) or "none"
    except Exception as ex:
        return "exception:" + type(ex).__name__


MIX = LT.DEFAULT_MIX + ["SpaceChargeKick", "HorizontalCorrector", "VerticalCorrector", "Quadrupole", "Dipole", "Solenoid"]


def gen_c08_lattice(rng):
    recs = LT.gen_lattice(rng, 7, mix=MIX, dup_names=0.12 if rng.random() < 0.5 else 0.0)
    # exercise inactive / zero-length configurations often
    for r in recs:
        u = rng.random()
        if r["cls"] in ("Quadrupole",) and u < 0.35 and r.get("method") != "bmadx":
            r["k1"] = 0.0     # (switched-off Bmad-X quadrupoles vs Bmad-X drifts are C09's subject)
        if r["cls"] in ("Dipole", "RBend") and u < 0.35:
            r["angle"] = 0.0
            if rng.random() < 0.7:
                r["k1"] = 0.0
        if r["cls"] == "Solenoid" and u < 0.35:
            r["k"] = 0.0
        if r["cls"] in ("HorizontalCorrector", "VerticalCorrector"):
            if u < 0.3:
                r["angle"] = 0.0
            if rng.random() < 0.3:
                r["L"] = 0.0
        if r["cls"] in ("Quadrupole", "Solenoid", "Drift") and rng.random() < 0.1 and r.get("method") != "bmadx":
            r["L"] = 0.0
        if r["cls"] == "CustomTransferMap" and rng.random() < 0.3:
            r["L"] = 0.0
        if r["cls"] == "Quadrupole" and r.get("method") == "bmadx" and r["k1"] == 0.0:
            r["k1"] = 1.5
    return LT.nest(rng, recs, p=0.15)


def examine(rep, recs, except_for, En, P, bt, tname, do_shrink=True) -> None:
    try:
        d = check_lattice(recs, P, En, bt, tname, except_for)
    except Exception as ex:
        d = f"exception {type(ex).__name__}: {ex}"
    if d is None:
        return

    def fails(cand):
        ex2 = [x for x in except_for if any(r.get("name") == x for r in cand)]
        try:
            return check_lattice(cand, P, En, bt, tname, ex2) is not None
        except Exception:
            return True
    small = LT.shrink_tree(recs, fails) if do_shrink else recs
    ex2 = [x for x in except_for if any(r.get("name") == x for r in small)]
    try:
        d2 = check_lattice(small, P, En, bt, tname, ex2) or d
    except Exception as ex:
        d2 = f"exception {type(ex).__name__}: {ex}"
    culprit = culprits(small, tname, ex2, P, En, bt)
    what = d2.split(":")[0]
    rep.fail("falsifier", f"C08|{tname}|{culprit}|{what}",
             f"{tname} on Segment([{LT.class_seq(small)}]) (except_for={ex2}) with {bt}: {d2}",
             {"kind": "lattice", "records": small, "energy": En, "beam": bt, "transform": tname,
              "except_for": ex2, "particles": P.tolist(), "diff": d2})


def falsifier(ctx, n: int) -> None:
    rep, rng = ctx.report, ctx.rng
    for _ in range(n):
        recs = gen_c08_lattice(rng)
        names = [r["name"] for r in recs]
        k = int(rng.integers(0, min(3, len(names)) + 1))
        except_for = [str(x) for x in rng.choice(names, size=k, replace=False)] if k else []
        En = E.energy(rng)
        P = LT.gen_particles(rng, 16)
        for bt in ("ParticleBeam", "ParameterBeam"):
            for tname in TRANSFORMS:
                rep.fals_cases += 1
                rep.count(f"real:{tname}:{bt}")
                rep.case(("real", LT.class_seq(recs), tname, bt),
                         {"lattice": LT.class_seq(recs), "transform": tname, "except_for": except_for}
                         if bt == "ParticleBeam" and tname == "merged" else None)
                examine(rep, recs, except_for, En, P, bt, tname)


def corpus_case(ctx, r: dict) -> None:
    """re-run a stored input (known finding / past failure)"""
    if r.get("kind") == "lattice":
        ctx.report.fals_cases += 1
        examine(ctx.report, r["records"], r["except_for"], r["energy"], np.array(r["particles"]), r["beam"],
                r["transform"], do_shrink=False)


def vector_case(rep, r: dict) -> None:
    """vectorised lattices (a scan over a drift length / a quadrupole strength): every optimisation keeps the total length
    *per vector entry* and tracks every entry like the original"""
    import cheetah
    B = len(r["d"])
    F64 = torch.float64
    t = lambda v: torch.tensor(v, dtype=F64)   # noqa: E731

    def mk():
        return cheetah.Segment([
            cheetah.Drift(length=t(r["d"]), name="d0", dtype=F64),
            cheetah.Quadrupole(length=t(0.2), k1=t(r["k1"]), name="q0", dtype=F64),
            cheetah.Marker(name="m0"),
            cheetah.Drift(length=t(r["d2"]), name="d1", dtype=F64),
            cheetah.Quadrupole(length=t(0.3), k1=t(0.0), name="q1", dtype=F64),
        ], name="root")
    P = np.array(r["particles"], dtype=float)
    for bt in ("ParameterBeam", "ParticleBeam"):
        b = LT.particle_beam(P, r["energy"]) if bt == "ParticleBeam" else LT.parameter_beam_from(P, r["energy"])
        seg = mk()
        ref = seg.track(b)
        L0 = seg.length.detach().reshape(-1) * torch.ones(B, dtype=F64)
        for tname in TRANSFORMS:
            try:
                new = apply_transform(mk(), tname, b, r["except_for"])
                L1 = new.length.detach()
                out = new.track(b)
            except Exception as e:  # noqa: BLE001
                rep.fail("falsifier", f"C08|{tname}|vectorised lattice|raises", f"{tname} on a lattice with vectorised lengths {r['d']}: {type(e).__name__}: {e}", r)
                return
            if tname != "no_zero_length" or True:
                ok = L1.numel() in (1, B) and bool(((L1.reshape(-1) * torch.ones(B, dtype=F64) - L0).abs() <= 1e-12 * (1 + L0.abs())).all())
                if not ok:
                    rep.fail("falsifier", f"C08|{tname}|vectorised lattice|length", f"{tname} (except_for={r['except_for']}) on a lattice whose drift "
                             f"length is {r['d']}: total length {L1.tolist()}, the original has {L0.tolist()}", dict(r, transform=tname))
                    return
            a_, b_ = (out.particles, ref.particles) if bt == "ParticleBeam" else (out._mu, ref._mu)
            if tuple(a_.shape) != tuple(b_.shape) or not bool(((a_ - b_).abs() <= 1e-9 * (b_.abs() + 1e-6)).all()):
                rep.fail("falsifier", f"C08|{tname}|vectorised lattice|track {bt}", f"{tname} on a vectorised lattice changes the tracking result ({bt})",
                         dict(r, transform=tname))
                return


def vector_probe(ctx, n: int) -> None:
    rep, rng = ctx.report, ctx.rng
    for _ in range(n):
        B = int(rng.integers(2, 6))
        r = {"kind": "vector_lattice", "d": np.round(rng.uniform(0.1, 1.0, B), 3).tolist(), "d2": float(E.pick(rng, 0.4, 1.1)),
             "k1": np.round(rng.uniform(-2, 2, B), 3).tolist() if rng.random() < 0.5 else float(E.pick(rng, 1.0, -0.7)),
             "except_for": [["q0"], [], ["d1"], ["q1"]][int(rng.integers(4))], "energy": float(E.energy(rng)),
             "particles": LT.gen_particles(rng, 6).tolist()}
        rep.fals_cases += 1
        rep.count("probe:vector-lattice")
        rep.case(("vector_lattice", B, tuple(r["except_for"])), None)
        vector_case(rep, r)


def run(ctx) -> None:
    stub_correspondence(ctx, ctx.n(80, 2000))
    run_arrivals_correspondence(ctx, "C08", ctx.n(40, 1000))
    falsifier(ctx, ctx.n(40, 800))
    vector_probe(ctx, ctx.n(10, 250))


def replay(ctx, data) -> bool:
    r = data["replay"]
    if r.get("kind") == "vector_lattice":
        from common import Report
        rp = Report("C08")
        vector_case(rp, r)
        return bool(rp.failures)
    if r.get("kind") != "lattice":
        return False
    try:
        return check_lattice(r["records"], np.array(r["particles"]), r["energy"], r["beam"], r["transform"],
                             r["except_for"]) is not None
    except Exception:
        return True
