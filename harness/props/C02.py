"""C02 — linear maps equal the exact flow of each element's linear optics.

B1: every element class's `transfer_map(energy)` (49 entries) vs the Lean model at Float.
F : independent oracle `expm(L*A)` of the textbook generator (scipy, no Lean) vs `transfer_map`.
"""
from __future__ import annotations

import math

import numpy as np
import torch
from scipy.linalg import expm

import elements as E
from common import LeanDriver, vec_close
from maps_corr import mismatch_failure, run_maps_correspondence

META = {
    "level": "proof",
    "rule": "one case = (element class, parameter record, reference energy); records drawn from the structured "
            "menus of harness/elements.py (exact zeros, both signs, tilt/misalignment on/off, L=0, low energy); "
            "non-trivial/distinct = distinct (class, sign/zero pattern of every parameter) configuration keys",
    "modelled": "track_methods.py (rotation_matrix, base_rmatrix, misalignment_matrix), transfer_map of Drift, "
                "Quadrupole, Dipole, RBend, Solenoid, Horizontal/VerticalCorrector, Undulator, Cavity, Marker/BPM/"
                "Screen/Aperture; compute_relativistic_factors",
    "gap": "dipole edge maps are specified as the standard thin-lens formulas (a definition, not derived from a field "
           "model); uniqueness of the ODE solution (R(L)=exp(LA)) is cited, the theorems are R(0)=1, R'=A R entrywise "
           "and the group law",
    "assumptions": ["float64 correspondence tolerance 256 eps relative to the row norm (DESIGN §3.4)"],
}


# ------------------------------------------------------------------------------------------------
# independent oracle
# ------------------------------------------------------------------------------------------------
def relf(En: float):
    g = En / E.MC2
    b = math.sqrt(1 - 1 / g**2)
    return g, b


def gen_sbend(k1: float, h: float, En: float) -> np.ndarray:
    """generator of the combined-function sector magnet in (x,px,y,py,tau,delta)"""
    g, b = relf(En)
    A = np.zeros((6, 6))
    A[0, 1] = 1.0
    A[1, 0] = -(k1 + h * h)
    A[1, 5] = h / b
    A[2, 3] = 1.0
    A[3, 2] = k1
    A[4, 0] = h / b
    A[4, 5] = -1.0 / (b * b * g * g)
    return A


def gen_solenoid(k: float, En: float) -> np.ndarray:
    g, b = relf(En)
    A = np.zeros((6, 6))
    A[0, 1] = 1.0
    A[0, 2] = k
    A[1, 0] = -k * k
    A[1, 3] = k
    A[2, 0] = -k
    A[2, 3] = 1.0
    A[3, 1] = -k
    A[3, 2] = -k * k
    A[4, 5] = -1.0 / (b * b * g * g)
    return A


def rot6(th: float) -> np.ndarray:
    c, s = math.cos(th), math.sin(th)
    R = np.eye(6)
    R[0, 0] = c; R[0, 2] = s; R[1, 1] = c; R[1, 3] = s
    R[2, 0] = -s; R[2, 2] = c; R[3, 1] = -s; R[3, 3] = c
    return R


def affine(M6: np.ndarray, shift: np.ndarray) -> np.ndarray:
    M = np.eye(7)
    M[:6, :6] = M6
    M[:6, 6] = shift
    return M


def edge6(h: float, e: float, fint: float, gap: float) -> np.ndarray:
    phi = fint * h * gap / math.cos(e) * (1 + math.sin(e) ** 2)
    M = np.eye(6)
    M[1, 0] = h * math.tan(e)
    M[3, 2] = -h * math.tan(e - phi)
    return M


def oracle(p: dict, En: float):
    """7x7 expected map from textbook physics, or None when the property does not define it."""
    c = p["cls"]
    if c in ("Drift", "Undulator"):
        return affine(expm(p["L"] * gen_sbend(0.0, 0.0, En)), np.zeros(6))
    if c == "Cavity":
        if p["V"] != 0.0:
            return None
        return affine(expm(p["L"] * gen_sbend(0.0, 0.0, En)), np.zeros(6))
    if c == "Quadrupole":
        M = expm(p["L"] * gen_sbend(p["k1"], 0.0, En))
        M = rot6(-p["tilt"]) @ M @ rot6(p["tilt"])
        d = np.array([p["mx"], 0.0, p["my"], 0.0, 0.0, 0.0])
        return affine(M, d - M @ d)          # v -> M (v - d) + d
    if c in ("Dipole", "RBend"):
        if p["L"] == 0.0:
            # zero-length bend = thin horizontal kick of the set angle (like a corrector), rotated by the tilt
            return affine(np.eye(6), rot6(-p["tilt"]) @ np.array([0, p["angle"], 0, 0, 0, 0.0]))
        h = p["angle"] / p["L"]
        e1, e2 = p["e1"], p["e2"]
        if c == "RBend":
            e1, e2 = e1 + p["angle"] / 2, e2 + p["angle"] / 2
        M = edge6(h, e2, p["fintx"], p["gap"]) @ expm(p["L"] * gen_sbend(p["k1"], h, En)) @ edge6(h, e1, p["fint"], p["gap"])
        M = rot6(-p["tilt"]) @ M @ rot6(p["tilt"])
        return affine(M, np.zeros(6))
    if c == "Solenoid":
        M = expm(p["L"] * gen_solenoid(p["k"], En))
        d = np.array([p["mx"], 0.0, p["my"], 0.0, 0.0, 0.0])
        return affine(M, d - M @ d)
    if c == "HorizontalCorrector":
        return affine(expm(p["L"] * gen_sbend(0.0, 0.0, En)), np.array([0, p["angle"], 0, 0, 0, 0.0]))
    if c == "VerticalCorrector":
        return affine(expm(p["L"] * gen_sbend(0.0, 0.0, En)), np.array([0, 0, 0, p["angle"], 0, 0.0]))
    if c in ("Marker", "BPM", "Screen", "Aperture"):
        return np.eye(7)
    return None


def signature(p: dict, idx: int) -> str:
    i, j = divmod(idx, 7)
    c = p["cls"]
    conf = []
    if c in ("Dipole", "RBend") and p["L"] == 0.0:
        conf.append("L==0")
    return f"C02|{c}.transfer_map|{'&'.join(conf) or 'generic'}|R[{i},{j}]"


def corr_tolerance(p: dict) -> float:
    return 256.0


def run(ctx) -> None:
    rep = ctx.report
    rng = ctx.rng
    import context_probes as CP
    # "the 6D map applied to the beam": the same map whatever the element's surroundings; diagnostics leave coordinates untouched
    CP.in_segment_probe(ctx, "C02", ctx.n(36, 900))
    CP.diagnostics_probe(ctx, "C02", ctx.n(16, 400))
    CP.retune_probe(ctx, "C02", ctx.n(18, 400))
    bad = run_maps_correspondence(ctx, "C02", ctx.n(40, 1200))
    for p, En, real, model, entry in bad:
        before = len(rep.failures)
        falsify_one(rep, p, En, real)
        if len(rep.failures) == before:
            mismatch_failure(rep, "C02", p, En, real, model, entry,
                             "; the physics oracle accepts (or does not define) this case")

    # falsifier: independent physics oracle
    nf = ctx.n(25, 800)
    for cls in E.LINEAR_CLASSES:
        for _ in range(nf if cls not in ("Marker", "BPM", "Screen", "Aperture") else 1):
            p = E.gen_params(rng, cls)
            En = E.energy(rng)
            try:
                real = E.real_map(E.build(p), En)
            except Exception:
                continue
            falsify_one(rep, p, En, real)


def falsify_one(rep, p, En, real) -> None:
    rep.fals_cases += 1
    exp = oracle(p, En)
    if exp is None:
        return
    got = np.array(real).reshape(7, 7)
    scale = max(1.0, float(np.max(np.abs(exp))))
    # conditioning: expm in double is accurate to ~1e-13*norm; the 1e-12 guard moves entries by <= 1e-12*(L^2+L^3)
    tol = 1e-9 * scale
    diff = np.abs(got - exp)
    nonfinite = ~np.isfinite(got)
    if nonfinite.any() or (diff > tol).any():
        idx = int(np.argmax(np.where(nonfinite, np.inf, diff)))
        i, j = divmod(idx, 7)
        rep.fail("falsifier", signature(p, idx),
                 f"{p['cls']}.transfer_map R[{i},{j}] = {got[i, j]!r}, exact linear flow gives {exp[i, j]!r}",
                 {"kind": "map", "params": p, "energy": En, "entry": [i, j], "code_value": float(got[i, j]),
                  "oracle_value": float(exp[i, j]), "oracle": "scipy.linalg.expm(L*A), textbook generator"})


def replay(ctx, data) -> bool:
    r = data["replay"]
    if r.get("kind") in ("in_segment", "diagnostic", "retune"):
        from common import Report
        import context_probes as CP
        rp = Report("C02")
        {"in_segment": CP.in_segment_case, "diagnostic": CP.diagnostics_case, "retune": CP.retune_case}[r["kind"]](rp, "C02", r)
        return bool(rp.failures)
    p, En = r["params"], r["energy"]
    real = E.real_map(E.build(p), En)
    exp = oracle(p, En)
    if exp is None:
        return False
    got = np.array(real).reshape(7, 7)
    return bool((np.abs(got - exp) > 1e-9 * max(1.0, float(np.max(np.abs(exp))))).any() or (~np.isfinite(got)).any())
