"""C06 — ParameterBeam tracking equals the moments of ParticleBeam tracking

B1: Element.track for both beam types (all default-method classes, cavity on/off, apertures, screens) vs Elem.trackP / trackM.
F : moments of tracked particles vs tracked moments on the real code (fals/C06.py).
"""
from __future__ import annotations

from track_corr import run_track_correspondence
try:
    from fals import C06 as F
except ImportError:  # falsifier module not present
    F = None

META = {
    "level": "proof",
    "rule": 'B1 case = (element record, energy, 6 particles + survival pattern, beam type)' + ((" | falsifier: " + F.META.get("rule", "")) if F and hasattr(F, "META") else ""),
    "modelled": 'Element.track / Cavity._track_beam for both beam types (Elements.lean); sample moments (Beam.lean)',
    "gap": 'none beyond sampled correspondences',
    "assumptions": ((F.META.get("assumptions", []) if F and hasattr(F, "META") else []) + ['B1 tolerance 4096 eps with per-coordinate reference scales']),
}


def run(ctx) -> None:
    run_track_correspondence(ctx, "C06", ctx.n(8, 200))
    if F is not None:
        F.run(ctx)


def corpus_case(ctx, r: dict) -> None:
    if F is not None and hasattr(F, "corpus_case"):
        F.corpus_case(ctx, r)


def replay(ctx, data) -> bool:
    from common import Report
    import types
    c2 = types.SimpleNamespace(**{k: getattr(ctx, k) for k in ("prop", "tier", "seed", "rng", "escalate", "t0", "n")})
    c2.report = Report("C06")
    corpus_case(c2, data["replay"])
    return bool(c2.report.failures)
