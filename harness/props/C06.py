"""C06 — ParameterBeam tracking equals the moments of ParticleBeam tracking

B1: Element.track for both beam types (all default-method classes, cavity on/off, apertures, screens) vs Elem.trackP / trackM.
F : moments of tracked particles vs tracked moments on the real code (fals/C06.py).
"""
from __future__ import annotations

from track_corr import run_track_correspondence
try:
    from fals import C06 as F
except ImportError:  # falsifier module not present
    F = None

META = {
    "level": "proof",
    "rule": 'B1 case = (element record, energy, 6 particles + survival pattern, beam type)' + ((" | falsifier: " + F.META.get("rule", "")) if F and hasattr(F, "META") else ""),
    "modelled": 'Element.track / Cavity._track_beam for both beam types (Elements.lean); sample moments (Beam.lean)',
    "gap": 'none beyond sampled correspondences',
    "assumptions": ((F.META.get("assumptions", []) if F and hasattr(F, "META") else []) + ['B1 tolerance 4096 eps with per-coordinate reference scales']),
}


LINEAR_KINDS = ["Drift", "Quadrupole", "Dipole", "RBend", "Solenoid", "HorizontalCorrector", "VerticalCorrector",
                "Undulator"]


def vector_probe(ctx, n: int) -> None:
    """Vectorised form of the property (the batch dimension is carried by the element, the beam, or both):
    for every sample b the ParameterBeam result must be the sample mean / covariance of the tracked ParticleBeam of
    sample b.  All elements used here act by their transfer map, for which the identity is exact."""
    import numpy as np
    import torch
    import cheetah
    from fals import _c0405 as H
    rep, rng = ctx.report, ctx.rng
    F64 = torch.float64
    NP = 9
    for _ in range(n):
        kind = LINEAR_KINDS[int(rng.integers(len(LINEAR_KINDS)))]
        B = int(rng.integers(2, 4))
        mode = ["elem", "beam", "both", "both"][int(rng.integers(4))]
        rec = H.gen_kind(rng, kind)
        T = {}
        if mode in ("elem", "both"):
            names = H.PARAMS[rec["cls"]]
            k = int(rng.integers(1, min(3, len(names)) + 1))
            for j in rng.choice(len(names), size=k, replace=False):
                nm = names[int(j)]
                T[nm] = H.tt([H.sample_value(rng, kind, nm) for _ in range(B)])
        # keep the focusing phase advance moderate (an over-focused beam of metres size only measures round-off)
        Lmax = max([float(rec.get("L", 0.0))] + ([float(v) for v in T["L"].tolist()] if "L" in T else []))
        if "k1" in rec and Lmax > 0:
            cap = 2.25 / Lmax ** 2
            rec["k1"] = float(np.clip(rec["k1"], -cap, cap))
            if "k1" in T:
                T["k1"] = torch.clamp(T["k1"], -cap, cap)
        En = float(H.E.energy(rng))
        nb = B if mode in ("beam", "both") else 1
        P = np.stack([H.LT.gen_particles(rng, NP) for _ in range(nb)])
        if nb == 1:
            P = P[0]
        rep.fals_cases += 1
        rep.case(("vector", kind, mode), {"kind": kind, "mode": mode, "B": B})
        rep.count(f"vector:{mode}")
        vector_case(rep, {"kind": "vector_probe", "rec": rec, "T": {k: v.tolist() for k, v in T.items()}, "energy": En,
                          "particles": P.tolist(), "mode": mode})


def vector_case(rep, replay: dict) -> None:
    import numpy as np
    import torch
    import cheetah
    from fals import _c0405 as H
    F64 = torch.float64
    rec, mode, En = replay["rec"], replay["mode"], replay["energy"]
    T = {k: H.tt(v) for k, v in replay["T"].items()}
    P = np.asarray(replay["particles"], dtype=float)
    NP = P.shape[-2]
    B = max([P.shape[0] if P.ndim == 3 else 1] + [int(v.shape[0]) for v in T.values()])
    Pt = H.tt(P)
    mean = Pt.mean(dim=-2)
    cen = Pt - mean.unsqueeze(-2)
    cov = cen.transpose(-2, -1) @ cen / (NP - 1)
    if True:
        sig = f"C06|{H.label(rec)}|vectorised:{mode}|"
        try:
            el = H.build_t(rec, T)
            pb = cheetah.ParticleBeam(Pt, H.tt(En), particle_charges=H.tt(np.full(NP, 1e-12)), dtype=F64)
            mb = cheetah.ParameterBeam(mean, cov, H.tt(En), total_charge=H.tt(NP * 1e-12), dtype=F64)
            po = el.track(pb).particles
            mo = el.track(mb)
            mu_o, cov_o = mo._mu, mo._cov
        except Exception as e:  # noqa: BLE001
            rep.fail("falsifier", sig + "raises", f"{H.label(rec)} vectorised ({mode}, B={B}): {type(e).__name__}: {e}", replay)
            return
        m2 = po.mean(dim=-2)
        c2 = po - m2.unsqueeze(-2)
        cov2 = c2.transpose(-2, -1) @ c2 / (NP - 1)
        if tuple(mu_o.shape) != tuple(m2.shape) or tuple(cov_o.shape) != tuple(cov2.shape):
            rep.fail("falsifier", sig + "shape", f"{H.label(rec)} vectorised ({mode}, B={B}): ParameterBeam mu/cov shapes "
                     f"{tuple(mu_o.shape)}/{tuple(cov_o.shape)}, moments of the tracked ParticleBeam {tuple(m2.shape)}/{tuple(cov2.shape)}", replay)
            return
        sc = torch.tensor([1e-3, 1e-4, 1e-3, 1e-4, 1e-3, 1e-3, 1.0], dtype=F64)
        dmu = float(((mu_o - m2).abs() / sc).max())
        dcov = float(((cov_o - cov2).abs() / (sc.unsqueeze(-1) * sc)).max())
        if not (dmu < 1e-7 and dcov < 1e-7):
            rep.fail("falsifier", sig + ("mean" if not dmu < 1e-7 else "cov"),
                     f"{H.label(rec)} vectorised ({mode}, B={B}): ParameterBeam result differs from the moments of the tracked "
                     f"ParticleBeam: mean by {dmu:.3g}, covariance by {dcov:.3g} (scaled)", replay)


def custom_map_case(rep, r: dict) -> None:
    """a general linear element (CustomTransferMap with a full 6x6 block and an affine column, as an imported EMATRIX or a
    merged map has): every moment of the ParameterBeam follows mu -> R mu, cov -> R cov R^T, like the particles do"""
    import numpy as np
    import torch
    import cheetah
    import lattices as LT
    F64 = torch.float64
    R = torch.tensor(r["matrix"], dtype=F64)
    el = cheetah.CustomTransferMap(R, length=torch.tensor(r["L"], dtype=F64), dtype=F64)
    if r["where"] == "segment":
        el = cheetah.Segment([cheetah.Drift(length=torch.tensor(0.2, dtype=F64), dtype=F64), el])
    P = np.array(r["particles"], dtype=float)
    pb, mb = LT.particle_beam(P, r["energy"]), LT.parameter_beam_from(P, r["energy"])
    po, mo = el.track(pb).particles, el.track(mb)
    m2 = po.mean(dim=0)
    c2 = torch.cov(po[:, :6].T)
    sc = torch.tensor([1e-3, 1e-4, 1e-3, 1e-4, 1e-3, 1e-3], dtype=F64)
    dmu = ((mo._mu[:6] - m2[:6]).abs() / sc)
    dcov = ((mo._cov[:6, :6] - c2).abs() / (sc.unsqueeze(-1) * sc))
    if not (float(dmu.max()) < 1e-7 and float(dcov.max()) < 1e-7):
        names = ["x", "px", "y", "py", "tau", "delta"]
        if not float(dmu.max()) < 1e-7:
            what = "mean[" + names[int(dmu.argmax())] + "]"
        else:
            i, j = divmod(int(dcov.argmax()), 6)
            what = f"cov[{names[i]},{names[j]}]"
        rep.fail("falsifier", f"C06|CustomTransferMap|general 6x6 block|{what.split('[')[0]}:{'delta' if 'delta' in what else 'other'}",
                 f"CustomTransferMap with a general matrix ({r['where']}): ParameterBeam {what} differs from the moments of the tracked "
                 f"particles (mean by {float(dmu.max()):.3g}, covariance by {float(dcov.max()):.3g}, scaled)", r)


def custom_map_probe(ctx, n: int) -> None:
    import numpy as np
    import elements as E
    import lattices as LT
    rep, rng = ctx.report, ctx.rng
    for _ in range(n):
        R = np.eye(7)
        R[:6, :6] += rng.normal(size=(6, 6)) * 0.3 * (rng.random((6, 6)) < 0.5)
        if rng.random() < 0.5:
            R[:6, 6] = rng.normal(size=6) * np.array([1e-4, 1e-5, 1e-4, 1e-5, 1e-4, 1e-4])
        r = {"kind": "custom_map", "matrix": R.tolist(), "L": float(E.pick(rng, 0.0, 0.5, 1.0)), "energy": float(E.energy(rng)),
             "particles": LT.gen_particles(rng, 9).tolist(), "where": E.pick(rng, "alone", "segment")}
        rep.fals_cases += 1
        rep.count("probe:custom-map")
        rep.case(("custom_map", r["where"]), None)
        try:
            custom_map_case(rep, r)
        except Exception as ex:  # noqa: BLE001
            rep.count(f"custom-map:rejected:{type(ex).__name__}")


def run(ctx) -> None:
    run_track_correspondence(ctx, "C06", ctx.n(8, 200))
    vector_probe(ctx, ctx.n(16, 400))
    import context_probes as CP
    CP.diagnostics_probe(ctx, "C06", ctx.n(16, 400))
    CP.retune_probe(ctx, "C06", ctx.n(18, 400))
    custom_map_probe(ctx, ctx.n(12, 300))
    if F is not None:
        F.run(ctx)


def corpus_case(ctx, r: dict) -> None:
    if r.get("kind") == "vector_probe":
        return vector_case(ctx.report, r)
    if r.get("kind") == "diagnostic":
        import context_probes as CP
        return CP.diagnostics_case(ctx.report, "C06", r)
    if r.get("kind") == "retune":
        import context_probes as CP
        return CP.retune_case(ctx.report, "C06", r)
    if r.get("kind") == "custom_map":
        return custom_map_case(ctx.report, r)
    if F is not None and hasattr(F, "corpus_case"):
        F.corpus_case(ctx, r)


def replay(ctx, data) -> bool:
    from common import Report
    import types
    c2 = types.SimpleNamespace(**{k: getattr(ctx, k) for k in ("prop", "tier", "seed", "rng", "escalate", "t0", "n")})
    c2.report = Report("C06")
    corpus_case(c2, data["replay"])
    return bool(c2.report.failures)
