"""C19 — space-charge kicks change momenta only and scale with charge and length

B1: the CIC deposit of the real SpaceChargeKick vs cicDeposit on small grids.
F : relations between runs on the real code (2Q vs Q, 2L vs L, permutation, Q=0, lost particles, outward push) (fals/C19.py).
"""
from __future__ import annotations

from sc_corr import run_sc_correspondence
try:
    from fals import C19 as F
except ImportError:  # falsifier module not present
    F = None

META = {
    "level": "proof",
    "rule": 'B1 case = (grid 3..5 per axis, 2..8 particles incl. lost and outside-grid ones)' + ((" | falsifier: " + F.META.get("rule", "")) if F and hasattr(F, "META") else ""),
    "modelled": 'CIC deposit; kick structure dt*sum_j w_j g(i,j) with g arbitrary (SpaceCharge.lean)',
    "gap": 'partial: the Poisson solve / gather are abstracted as an arbitrary position-only kernel; outward push and analytic-field agreement are falsifier-only',
    "assumptions": ((F.META.get("assumptions", []) if F and hasattr(F, "META") else []) + []),
}


def run(ctx) -> None:
    run_sc_correspondence(ctx, "C19", ctx.n(40, 800))
    if F is not None:
        F.run(ctx)


def corpus_case(ctx, r: dict) -> None:
    if F is not None and hasattr(F, "corpus_case"):
        F.corpus_case(ctx, r)


def replay(ctx, data) -> bool:
    from common import Report
    import types
    c2 = types.SimpleNamespace(**{k: getattr(ctx, k) for k in ("prop", "tier", "seed", "rng", "escalate", "t0", "n")})
    c2.report = Report("C19")
    corpus_case(c2, data["replay"])
    return bool(c2.report.failures)
