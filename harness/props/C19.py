"""C19 — space-charge kicks change momenta only and scale with charge and length

B1: the CIC deposit of the real SpaceChargeKick vs cicDeposit on small grids.
F : relations between runs on the real code (2Q vs Q, 2L vs L, permutation, Q=0, lost particles, outward push) (fals/C19.py).
"""
from __future__ import annotations

from sc_corr import run_sc_correspondence
try:
    from fals import C19 as F
except ImportError:  # falsifier module not present
    F = None

META = {
    "level": "proof",
    "rule": 'B1 case = (grid 3..5 per axis, 2..8 particles incl. lost and outside-grid ones)' + ((" | falsifier: " + F.META.get("rule", "")) if F and hasattr(F, "META") else ""),
    "modelled": 'CIC deposit; kick structure dt*sum_j w_j g(i,j) with g arbitrary (SpaceCharge.lean)',
    "gap": 'partial: the Poisson solve / gather are abstracted as an arbitrary position-only kernel; outward push and analytic-field agreement are falsifier-only',
    "assumptions": ((F.META.get("assumptions", []) if F and hasattr(F, "META") else []) + []),
}


def reuse_case(rep, r: dict) -> None:
    """the kick depends on the bunch it is applied to (charge, energy, coordinates) and the element's settings, not on
    what the element tracked before: a re-used SpaceChargeKick gives exactly the result of a fresh one"""
    import numpy as np
    import torch
    import cheetah
    dt = torch.float64
    t = lambda v: torch.tensor(v, dtype=dt)  # noqa: E731
    P1, P2 = np.array(r["P1"], dtype=float), np.array(r["P2"], dtype=float)
    mk = lambda: cheetah.SpaceChargeKick(effect_length=t(r["L"]), num_grid_points_x=r["grid"][0], num_grid_points_y=r["grid"][1],  # noqa: E731
                                         num_grid_points_tau=r["grid"][2], dtype=dt)
    beam = lambda P, En, q: cheetah.ParticleBeam(t(P), t(En), particle_charges=t(np.full(P.shape[0], q / P.shape[0])), dtype=dt)  # noqa: E731
    used, fresh = mk(), mk()
    if r["where"] == "segment":
        used, fresh = cheetah.Segment([used]), cheetah.Segment([fresh])
    used.track(beam(P1, r["E1"], r["q1"]))
    a = used.track(beam(P2, r["E2"], r["q2"])).particles.detach().numpy()
    b = fresh.track(beam(P2, r["E2"], r["q2"])).particles.detach().numpy()
    if not np.array_equal(np.isfinite(a), np.isfinite(b)):
        rep.fail("falsifier", "C19|SpaceChargeKick|re-used element|non-finite", "a re-used element gives non-finite values where a fresh one does not", r)
        return
    kick = np.abs(b - P2)[:, [1, 3, 5]].max()
    d = np.abs(a - b)[:, [1, 3, 5]].max()
    if not d <= 1e-9 * max(kick, 1e-300):
        rep.fail("falsifier", f"C19|SpaceChargeKick|re-used element|{r['change']}",
                 f"element that first tracked a bunch with (E={r['E1']!r} eV, Q={r['q1']!r} C) kicks the next bunch (E={r['E2']!r} eV, Q={r['q2']!r} C, "
                 f"{r['change']}) differently from a fresh element: max |d p| = {d:.3g}, the kick itself is {kick:.3g}", r)


def f32_case(rep, r: dict) -> None:
    """the default dtype is float32: its kick is the float64 kick (which the analytic-field checks of fals/C19.py are made
    with) to a few per cent at every energy, also where gamma is large and beta rounds to 1"""
    import numpy as np
    import torch
    import cheetah
    P = np.array(r["particles"], dtype=np.float32).astype(float)
    kicks = {}
    for dt in (torch.float32, torch.float64):
        t = lambda v: torch.tensor(v, dtype=dt)  # noqa: E731
        sck = cheetah.SpaceChargeKick(effect_length=t(r["L"]), num_grid_points_x=16, num_grid_points_y=16, num_grid_points_tau=16, dtype=dt)
        b = cheetah.ParticleBeam(t(P), t(float(np.float32(r["energy"]))), particle_charges=t(np.full(P.shape[0], r["Q"] / P.shape[0])), dtype=dt)
        o = sck.track(b).particles.to(torch.float64).numpy()
        kicks[dt] = o[:, [1, 3]] - np.asarray(b.particles.to(torch.float64))[:, [1, 3]]
    k32, k64 = kicks[torch.float32], kicks[torch.float64]
    rms = float(np.sqrt(np.mean(k64 ** 2)))
    dev = float(np.sqrt(np.mean((k32 - k64) ** 2)))
    # float32 coordinates carry eps32 * |px| of round-off: only kicks well above that are compared
    noise = 1.2e-7 * float(np.abs(P[:, [1, 3]]).max())
    if rms > 30 * noise and not dev <= 0.05 * rms + 3 * noise:
        rep.fail("falsifier", f"C19|SpaceChargeKick|float32 vs float64 kick|{'E>=1GeV' if r['energy'] >= 1e9 else 'E<1GeV'}",
                 f"bunch of {r['Q']:.1e} C at {r['energy']:.3g} eV: rms transverse kick {rms:.3e} in float64, the float32 kick deviates from it by "
                 f"{dev:.3e} rms", r)


def f32_probe(ctx, n: int) -> None:
    import numpy as np
    import elements as E
    rep, rng = ctx.report, ctx.rng
    for _ in range(n):
        N = 3000
        P = np.zeros((N, 7))
        P[:, 6] = 1.0
        sig = 10.0 ** rng.uniform(-4.3, -3.3, size=3)
        P[:, [0, 2, 4]] = rng.normal(size=(N, 3)) * sig
        r = {"kind": "f32_kick", "particles": P.tolist(), "energy": float(E.pick(rng, 1e8, 1e9, 2.4e9, 6e9, 1.7e10)), "L": float(E.pick(rng, 0.5, 1.0)),
             "Q": float(E.pick(rng, 1e-9, 5e-9))}
        rep.fals_cases += 1
        rep.count(f"probe:f32-kick:{r['energy']:.0e}")
        rep.case(("f32_kick", r["energy"]), None)
        f32_case(rep, r)


def reuse_probe(ctx, n: int) -> None:
    import numpy as np
    import elements as E
    rep, rng = ctx.report, ctx.rng
    for _ in range(n):
        N = 200
        P = np.zeros((N, 7))
        P[:, 6] = 1.0
        sig = np.array([10.0 ** rng.uniform(-4.5, -3), 0, 10.0 ** rng.uniform(-4.5, -3), 0, 10.0 ** rng.uniform(-4.5, -3), 0])
        P[:, :6] = rng.normal(size=(N, 6)) * sig
        change = E.pick(rng, "same coordinates, other energy", "same coordinates, other charge", "other coordinates", "same bunch")
        E1 = float(E.pick(rng, 2.5e7, 1e8, 2.5e8))
        r = {"kind": "reuse", "L": float(E.pick(rng, 0.1, 0.5, 1.0)), "grid": [int(E.pick(rng, 8, 12)), int(E.pick(rng, 8, 12, 10)), int(E.pick(rng, 8, 12))],
             "P1": P.tolist(), "P2": P.tolist(), "E1": E1, "E2": E1, "q1": 1e-9, "q2": 1e-9, "change": change,
             "where": E.pick(rng, "alone", "segment")}
        if change == "same coordinates, other energy":
            r["E2"] = E1 * float(E.pick(rng, 0.1, 4.0, 10.0))
        elif change == "same coordinates, other charge":
            r["q2"] = 1e-9 * float(E.pick(rng, 0.1, 3.0))
        elif change == "other coordinates":
            P2 = P.copy()
            P2[:, :6] = rng.normal(size=(N, 6)) * sig * np.array([2.0, 0, 0.5, 0, 1.0, 0])
            r["P2"] = P2.tolist()
        rep.fals_cases += 1
        rep.count("probe:reuse:" + change)
        rep.case(("reuse", change, r["where"]), None)
        reuse_case(rep, r)


def halo_case(rep, r: dict) -> None:
    """halo particles of a Gaussian bunch — out to and beyond the edge of the default grid (3 sigma) — are pushed away from
    the bunch centre like everything else, or (outside the grid) not at all; never towards it"""
    import numpy as np
    import torch
    import cheetah
    rng = np.random.default_rng(r["seed"])
    N = r["n"]
    sig = np.array(r["sigma"])
    P = np.zeros((N, 7))
    P[:, 6] = 1.0
    P[:, [0, 2, 4]] = rng.normal(size=(N, 3)) * sig
    dt = torch.float64
    b = cheetah.ParticleBeam(torch.tensor(P, dtype=dt), torch.tensor(r["energy"], dtype=dt),
                             particle_charges=torch.full((N,), r["charge"] / N, dtype=dt), dtype=dt)
    sc = cheetah.SpaceChargeKick(effect_length=torch.tensor(r["L"], dtype=dt), dtype=dt)
    out = sc.track(b).particles.detach().numpy()
    for c, pc, nm in ((0, 1, "x"), (2, 3, "y")):
        dp = out[:, pc] - P[:, pc]
        kmax = float(np.abs(dp).max())
        halo = np.abs(P[:, c]) > 2.2 * sig[c // 2]
        inward = halo & (dp * np.sign(P[:, c]) < -0.1 * kmax)
        if inward.any():
            i = int(np.argmax(inward * np.abs(dp)))
            rep.fail("falsifier", f"C19|SpaceChargeKick|Gaussian bunch, default grid|halo particle pulled inwards|{nm}",
                     f"{int(inward.sum())} halo particles beyond 2.2 sigma in {nm} are kicked towards the bunch centre, e.g. the one at "
                     f"{P[i, c] / sig[c // 2]:.2f} sigma by {dp[i]:.3e} (largest kick of the bunch {kmax:.3e})", r)
            return


def halo_probe(ctx, n: int) -> None:
    import elements as E
    rep, rng = ctx.report, ctx.rng
    for _ in range(n):
        r = {"kind": "halo", "seed": int(rng.integers(1 << 30)), "n": 20000, "sigma": [float(10.0 ** rng.uniform(-4, -3)) for _ in range(3)],
             "energy": float(E.pick(rng, 5e6, 2e7, 1e8)), "charge": 1e-9, "L": float(E.pick(rng, 0.1, 0.5))}
        rep.fals_cases += 1
        rep.count("probe:halo")
        rep.case(("halo", r["energy"]), None)
        halo_case(rep, r)


def run(ctx) -> None:
    reuse_probe(ctx, ctx.n(12, 200))
    halo_probe(ctx, ctx.n(3, 60))
    f32_probe(ctx, ctx.n(8, 120))
    run_sc_correspondence(ctx, "C19", ctx.n(40, 800))
    if F is not None:
        F.run(ctx)


def corpus_case(ctx, r: dict) -> None:
    if r.get("kind") == "reuse":
        return reuse_case(ctx.report, r)
    if r.get("kind") == "halo":
        return halo_case(ctx.report, r)
    if r.get("kind") == "f32_kick":
        return f32_case(ctx.report, r)
    if F is not None and hasattr(F, "corpus_case"):
        F.corpus_case(ctx, r)


def replay(ctx, data) -> bool:
    from common import Report
    import types
    c2 = types.SimpleNamespace(**{k: getattr(ctx, k) for k in ("prop", "tier", "seed", "rng", "escalate", "t0", "n")})
    c2.report = Report("C19")
    corpus_case(c2, data["replay"])
    return bool(c2.report.failures)
