"""C03 — maps conserve phase-space volume (symplectic; cavity damps by E_in/E_out; seventh component stays one).

B1: transfer maps vs the Lean model (shared with C02); Bmad-X kernels vs the model (bmadx_corr).
F : on the real code, ||M^T S6 M - S6||, det, seventh row for every element / parameter point; cavity transverse
    area ratio vs E_in/E_out; autograd Jacobian of the non-linear Bmad-X maps at off-axis points.
"""
from __future__ import annotations

import math

import numpy as np
import torch

import elements as E
from maps_corr import mismatch_failure, run_maps_correspondence

META = {
    "level": "proof",
    "rule": "one case = (element class, parameter record, energy[, phase-space point for Bmad-X]); distinct = distinct "
            "(class, sign/zero pattern) configuration keys",
    "modelled": "all linear transfer maps (Maps.lean); Bmad-X drift / quadrupole step kernels (Bmadx.lean)",
    "gap": "partial: the full 6-D Jacobian of the non-linear Bmad-X maps is proved symplectic only for the drift and the "
           "transverse block of the quadrupole step; bend body, fringe and TDC kick are covered by the falsifier "
           "(autograd Jacobian on the real code) only",
    "assumptions": ["symplectic defect tolerance 1e-9*max(1,|M|^2) on the real code"],
}

S6 = np.zeros((6, 6))
S6[0, 1] = 1; S6[1, 0] = -1; S6[2, 3] = 1; S6[3, 2] = -1; S6[4, 5] = -1; S6[5, 4] = 1


def symp_defect(M6: np.ndarray) -> float:
    return float(np.max(np.abs(M6.T @ S6 @ M6 - S6)))


def check_linear(rep, p, En, real) -> None:
    rep.fals_cases += 1
    M = np.array(real).reshape(7, 7)
    cls = p["cls"]
    if cls == "Cavity" and p["V"] != 0.0:
        # outside the physical range (the beam would be stopped / cos(phase) ~ 0): no claim
        if En + p["V"] * math.cos(math.radians(p["phase"])) <= E.MC2 * 1.5 or abs(math.cos(math.radians(p["phase"]))) < 1e-3:
            return
    if not np.isfinite(M).all():
        rep.fail("falsifier", f"C03|{cls}.transfer_map|nonfinite", f"{cls}.transfer_map has non-finite entries",
                 {"kind": "map", "params": p, "energy": En})
        return
    # seventh row
    if not (M[6, :6] == 0).all() or M[6, 6] != 1.0:
        rep.fail("falsifier", f"C03|{cls}.transfer_map|seventh-row",
                 f"{cls}.transfer_map last row is {M[6].tolist()} (must be (0,..,0,1))",
                 {"kind": "map", "params": p, "energy": En, "row6": M[6].tolist()})
    M6 = M[:6, :6]
    nrm = max(1.0, float(np.max(np.abs(M6))))
    if cls == "Cavity" and p["V"] != 0.0:
        # transverse area scales by E_in/E_out
        phi = math.radians(p["phase"])
        Eout = En + p["V"] * math.cos(phi)
        if Eout <= E.MC2 * 1.5 or abs(math.cos(phi)) < 1e-3:
            return
        for (a, b) in ((0, 1), (2, 3)):
            d = M6[a, a] * M6[b, b] - M6[a, b] * M6[b, a]
            if not abs(d - En / Eout) <= 1e-9 * nrm * nrm:
                rep.fail("falsifier", f"C03|Cavity.transfer_map|area-ratio",
                         f"active cavity: det of ({a},{b}) block = {d!r}, E_in/E_out = {En / Eout!r}",
                         {"kind": "map", "params": p, "energy": En, "block": [a, b], "det": d, "expected": En / Eout})
        return
    d = symp_defect(M6)
    if not d <= 1e-9 * nrm * nrm:
        rep.fail("falsifier", f"C03|{cls}.transfer_map|not-symplectic",
                 f"{cls}.transfer_map: |M^T S6 M - S6| = {d:.3e}",
                 {"kind": "map", "params": p, "energy": En, "defect": d})


def run(ctx) -> None:
    rep, rng = ctx.report, ctx.rng
    bad = run_maps_correspondence(ctx, "C03", ctx.n(30, 800))
    for p, En, real, model, entry in bad:
        before = len(rep.failures)
        check_linear(rep, p, En, real)
        if len(rep.failures) == before:
            mismatch_failure(rep, "C03", p, En, real, model, entry, "; the map is still symplectic")
    nf = ctx.n(25, 800)
    for cls in E.LINEAR_CLASSES:
        for _ in range(nf if cls not in ("Marker", "BPM", "Screen", "Aperture") else 1):
            p = E.gen_params(rng, cls)
            En = E.energy(rng)
            try:
                real = E.real_map(E.build(p), En)
            except Exception:
                continue
            rep.case(E.config_key(p))
            check_linear(rep, p, En, real)
    try:
        import bmadx_corr
    except ImportError:
        return
    bmadx_corr.run_c03(ctx)


def replay(ctx, data) -> bool:
    r = data["replay"]
    from common import Report
    rep = Report("C03")
    check_linear(rep, r["params"], r["energy"], E.real_map(E.build(r["params"]), r["energy"]))
    return bool(rep.failures)
