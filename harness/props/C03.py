"""C03 — maps conserve phase-space volume (symplectic; cavity damps by E_in/E_out; seventh component stays one).

B1: transfer maps vs the Lean model (shared with C02); Bmad-X kernels vs the model (bmadx_corr).
F : on the real code, ||M^T S6 M - S6||, det, seventh row for every element / parameter point; cavity transverse
    area ratio vs E_in/E_out; autograd Jacobian of the non-linear Bmad-X maps at off-axis points.
"""
from __future__ import annotations

import math

import numpy as np
import torch

import elements as E
from maps_corr import mismatch_failure, run_maps_correspondence

META = {
    "level": "proof",
    "rule": "one case = (element class, parameter record, energy[, phase-space point for Bmad-X]); distinct = distinct "
            "(class, sign/zero pattern) configuration keys",
    "modelled": "all linear transfer maps (Maps.lean); Bmad-X drift / quadrupole step kernels (Bmadx.lean); closed-form Jacobian of the Bmad-X drift (BmadxJac.lean, op bdjac)",
    "gap": "partial: the full 6-D Jacobian of the non-linear Bmad-X maps is proved symplectic only for the drift and the "
           "transverse block of the quadrupole step; bend body, fringe and TDC kick are covered by the falsifier "
           "(autograd Jacobian on the real code) only",
    "assumptions": ["symplectic defect tolerance 1e-9*max(1,|M|^2) on the real code"],
}

S6 = np.zeros((6, 6))
S6[0, 1] = 1; S6[1, 0] = -1; S6[2, 3] = 1; S6[3, 2] = -1; S6[4, 5] = -1; S6[5, 4] = 1


def symp_defect(M6: np.ndarray) -> float:
    return float(np.max(np.abs(M6.T @ S6 @ M6 - S6)))


def check_linear(rep, p, En, real) -> None:
    rep.fals_cases += 1
    M = np.array(real).reshape(7, 7)
    cls = p["cls"]
    if cls == "Cavity" and p["V"] != 0.0:
        # outside the physical range (the beam would be stopped / cos(phase) ~ 0): no claim
        if En + p["V"] * math.cos(math.radians(p["phase"])) <= E.MC2 * 1.5 or abs(math.cos(math.radians(p["phase"]))) < 1e-3:
            return
    if not np.isfinite(M).all():
        rep.fail("falsifier", f"C03|{cls}.transfer_map|nonfinite", f"{cls}.transfer_map has non-finite entries",
                 {"kind": "map", "params": p, "energy": En})
        return
    # seventh row
    if not (M[6, :6] == 0).all() or M[6, 6] != 1.0:
        rep.fail("falsifier", f"C03|{cls}.transfer_map|seventh-row",
                 f"{cls}.transfer_map last row is {M[6].tolist()} (must be (0,..,0,1))",
                 {"kind": "map", "params": p, "energy": En, "row6": M[6].tolist()})
    M6 = M[:6, :6]
    nrm = max(1.0, float(np.max(np.abs(M6))))
    if cls == "Cavity" and p["V"] != 0.0:
        # transverse area scales by E_in/E_out
        phi = math.radians(p["phase"])
        Eout = En + p["V"] * math.cos(phi)
        if Eout <= E.MC2 * 1.5 or abs(math.cos(phi)) < 1e-3:
            return
        for (a, b) in ((0, 1), (2, 3)):
            d = M6[a, a] * M6[b, b] - M6[a, b] * M6[b, a]
            if not abs(d - En / Eout) <= 1e-9 * nrm * nrm:
                rep.fail("falsifier", f"C03|Cavity.transfer_map|area-ratio",
                         f"active cavity: det of ({a},{b}) block = {d!r}, E_in/E_out = {En / Eout!r}",
                         {"kind": "map", "params": p, "energy": En, "block": [a, b], "det": d, "expected": En / Eout})
        return
    d = symp_defect(M6)
    if not d <= 1e-9 * nrm * nrm:
        rep.fail("falsifier", f"C03|{cls}.transfer_map|not-symplectic",
                 f"{cls}.transfer_map: |M^T S6 M - S6| = {d:.3e}",
                 {"kind": "map", "params": p, "energy": En, "defect": d})


def cavity_track_case(rep, p, En, bt, ctxname) -> None:
    import cheetah
    import lattices as LT
    phi = math.radians(p["phase"])
    Eout = En + p["V"] * math.cos(phi)
    P = LT.gen_particles(np.random.default_rng(int(En) % (2 ** 31)), 40, energy=En)
    cav = E.build(p)
    lat = cav if ctxname == "alone" else cheetah.Segment([cheetah.Marker(name="m0"), cav, cheetah.Marker(name="m1")])
    inc = LT.particle_beam(P, En) if bt == "ParticleBeam" else LT.parameter_beam_from(P, En)
    try:
        out = lat.track(inc)
    except Exception as ex:
        rep.count(f"cavity-track-rejected:{type(ex).__name__}")
        return
    Eo = float(out.energy)
    sign = "V>0" if p["V"] > 0 else "V<0"
    rp = {"kind": "cavity-track", "params": p, "energy": En, "beam": bt, "context": ctxname}
    if not abs(Eo - Eout) <= 1e-9 * abs(Eout):
        rep.fail("falsifier", f"C03|Cavity.track|{sign}|energy", f"Cavity ({sign}, {ctxname}, {bt}): outgoing reference energy {Eo!r}, expected E_in + V cos(phi) = {Eout!r}", rp)
        return
    if bt == "ParticleBeam":
        co = np.cov(out.particles.detach().numpy()[:, :6].T)
    else:
        co = out._cov.detach().numpy()[:6, :6]
    ci = np.cov(P[:, :6].T)
    for a, nm in ((0, "x"), (2, "y")):
        di, do = np.linalg.det(ci[a:a + 2, a:a + 2]), np.linalg.det(co[a:a + 2, a:a + 2])
        if not (di > 0 and do > 0):
            continue
        ratio = math.sqrt(do / di)
        if not abs(ratio - En / Eo) <= 1e-6 * max(1.0, En / Eo):
            rep.fail("falsifier", f"C03|Cavity.track|{sign}|area", f"Cavity ({sign}, {ctxname}, {bt}): {nm}-plane area ratio {ratio!r} but E_in/E_out = {En / Eo!r}", dict(rp, plane=nm))
            return


def cavity_track_probe(ctx, n: int) -> None:
    """the damping clause on *tracked* beams: accelerating and decelerating cavities (voltage of either sign, deceleration
    also expressed by the phase), both beam types, alone and inside a Segment — the outgoing reference energy is
    E_in + V cos(phi) and the transverse phase-space area (from the tracked moments / particles) shrinks or grows by
    E_in / E_out with that very outgoing energy"""
    rep, rng = ctx.report, ctx.rng
    for c in range(n):
        p = E.gen_params(rng, "Cavity")
        p["V"] = float(abs(p["V"]) if p["V"] != 0 else 1e6) * (1.0 if c % 2 == 0 else -1.0)
        phi = math.radians(p["phase"])
        En = float(np.exp(rng.uniform(np.log(2e7), np.log(2e9))))
        Eout = En + p["V"] * math.cos(phi)
        if Eout <= max(E.MC2 * 3.0, 0.2 * En) or abs(math.cos(phi)) < 1e-2:
            continue
        for bt in ("ParticleBeam", "ParameterBeam"):
            for ctxname in ("alone", "segment"):
                rep.fals_cases += 1
                rep.case(("cavity-track", "V>0" if p["V"] > 0 else "V<0", bt, ctxname))
                cavity_track_case(rep, p, En, bt, ctxname)


def run(ctx) -> None:
    rep, rng = ctx.report, ctx.rng
    cavity_track_probe(ctx, ctx.n(10, 300))
    bad = run_maps_correspondence(ctx, "C03", ctx.n(30, 800))
    for p, En, real, model, entry in bad:
        before = len(rep.failures)
        check_linear(rep, p, En, real)
        if len(rep.failures) == before:
            mismatch_failure(rep, "C03", p, En, real, model, entry, "; the map is still symplectic")
    nf = ctx.n(25, 800)
    for cls in E.LINEAR_CLASSES:
        for _ in range(nf if cls not in ("Marker", "BPM", "Screen", "Aperture") else 1):
            p = E.gen_params(rng, cls)
            En = E.energy(rng)
            try:
                real = E.real_map(E.build(p), En)
            except Exception:
                continue
            rep.case(E.config_key(p))
            check_linear(rep, p, En, real)
    try:
        import bmadx_corr
    except ImportError:
        return
    bmadx_corr.run_c03(ctx)
    bmadx_jacobians(ctx, ctx.n(24, 600))
    vector_maps(ctx, ctx.n(24, 600))
    import context_probes as CP
    # the map that reaches the beam is the map of the element as it is now (an element re-tuned between two passes of the
    # same beam object): a stale map with a fresh energy gain breaks the E_in/E_out area law
    CP.retune_probe(ctx, "C03", ctx.n(18, 400))


VEC_KINDS = ["Quadrupole", "Dipole", "RBend", "Solenoid", "HorizontalCorrector", "VerticalCorrector", "Drift", "Undulator"]


def vector_case(rep, r: dict) -> None:
    """clause: every map is symplectic, also the entries of a vectorised element's map (strength scans through exactly
    zero, mixed signs): entry b of the batched transfer map must pass the same test as the map of element b alone"""
    from fals import _c0405 as H
    rec, En = r["rec"], r["energy"]
    T = {k: H.tt(v) for k, v in r["T"].items()}
    el = H.build_t(rec, T)
    tm = el.transfer_map(torch.tensor(En, dtype=torch.float64)).detach().numpy()
    B = max(len(v) for v in r["T"].values())
    try:
        tm = np.broadcast_to(tm, (B, 7, 7))        # (the vector shape of the result is C04's subject)
    except ValueError:
        return
    for b in range(B):
        q = dict(rec, **{k: float(v[b]) for k, v in r["T"].items()})
        sub = type(rep)("C03")
        check_linear(sub, q, En, tm[b].reshape(-1).tolist())
        rep.fals_cases += 1
        if sub.failures:
            f0 = sub.failures[0]
            zeros = ",".join(sorted(k for k, v in r["T"].items() if any(x == 0.0 for x in v))) or "none"
            rep.fail("falsifier", f"C03|{rec['cls']}.transfer_map|vectorised, zeros in: {zeros}|{f0.signature.split('|')[-1]}",
                     f"entry {b} of the map of a vectorised {rec['cls']} ({', '.join(f'{k}={v}' for k, v in r['T'].items())}): {f0.what}", r)
            return


def vector_maps(ctx, n: int) -> None:
    from fals import _c0405 as H
    rep, rng = ctx.report, ctx.rng
    for i in range(n):
        kind = VEC_KINDS[i % len(VEC_KINDS)]
        rec = H.gen_kind(rng, kind)
        names = [k for k in H.PARAMS[rec["cls"]] if k not in ("gap", "fint", "fintx")]
        B = int(rng.integers(2, 5))
        T = {}
        for j in rng.choice(len(names), size=int(rng.integers(1, min(3, len(names)) + 1)), replace=False):
            nm = names[int(j)]
            vals = [H.sample_value(rng, kind, nm) for _ in range(B)]
            if nm != "L" and rng.random() < 0.6:
                vals[int(rng.integers(B))] = 0.0          # a scan that passes through exactly zero
            T[nm] = vals
        r = {"kind": "vector_map", "rec": rec, "T": T, "energy": float(E.energy(rng))}
        rep.count(f"vector-map:{kind}")
        rep.case(("vector_map", kind, tuple(sorted(T))), None)
        try:
            vector_case(rep, r)
        except Exception as ex:  # noqa: BLE001  (vectorisation failures are C04's subject)
            rep.count(f"vector-map:rejected:{type(ex).__name__}")


S6 = np.zeros((6, 6))
for _k, _sg in ((0, 1.0), (2, 1.0), (4, -1.0)):      # tau carries the sign of the time-like convention
    S6[_k, _k + 1], S6[_k + 1, _k] = _sg, -_sg


def bmadx_case(rep, r: dict) -> None:
    """clause: the (non-linear) Bmad-X maps are symplectic at every point of the paraxial region: J^T S J = S, det J = 1
    with J the autograd Jacobian of the one-particle map at the given point"""
    import torch
    import cheetah
    from fals import C07 as F7
    p, En, v = r["params"], r["energy"], r["point"]
    el = F7.build(p)
    en = torch.tensor(En, dtype=torch.float64)
    q = torch.tensor([1e-12], dtype=torch.float64)

    def f(x):
        P = torch.cat([x, torch.ones(1, dtype=torch.float64)]).unsqueeze(0)
        return el.track(cheetah.ParticleBeam(P, en, particle_charges=q, dtype=torch.float64)).particles[0, :6]
    x0 = torch.tensor(v, dtype=torch.float64)
    out = f(x0).detach().numpy()
    if not np.all(np.isfinite(out)):
        return                                 # outside the domain of the map (C07 / C09 report non-finite design orbits)
    J = torch.autograd.functional.jacobian(f, x0).detach().numpy()
    where = "on axis" if not any(v[:5]) and v[5] == 0 else "off axis"
    big = "|angle|>=pi/2" if abs(p.get("angle", 0.0)) >= math.pi / 2 else "generic"
    tag = F7.cls_tag(p)
    if not np.all(np.isfinite(J)):
        return                                 # (non-finite gradients are C05's subject)
    nrm = max(1.0, float(np.max(np.abs(J))))
    D = J.T @ S6 @ J - S6
    d = float(np.max(np.abs(D)))
    if not d <= 1e-8 * nrm * nrm:
        i, j = np.unravel_index(int(np.argmax(np.abs(D))), D.shape)
        rep.fail("falsifier", f"C03|{tag}.track|{big}|jacobian not symplectic",
                 f"{tag} ({', '.join(f'{k}={w!r}' for k, w in p.items() if k not in ('cls', 'method'))}) at E = {En!r} eV, point {v} ({where}): "
                 f"max |J^T S J - S| = {d:.3g} at [{i},{j}], det J = {float(np.linalg.det(J))!r}", r)


def bmadx_jacobians(ctx, n: int) -> None:
    from fals import C07 as F7
    import lattices as LT
    rep, rng = ctx.report, ctx.rng
    for i in range(n):
        kind = ["Drift", "Quadrupole", "Dipole", "Dipole", "RBend", "Quadrupole"][i % 6]
        if kind == "Drift":
            p = LT.gen_record(rng, "BmadxDrift")
        elif kind == "Quadrupole":
            p = F7.gen_quad(rng, allow_L0=False)
        else:
            p = F7.gen_dipole(rng, kind, allow_zero_angle=False)
        En = float(E.energy(rng))
        P = np.array(F7.gen_particles(rng, 4, En))
        v = P[int(rng.integers(0, 4)), :6].tolist()
        r = {"kind": "bmadx_jacobian", "params": p, "energy": En, "point": v}
        rep.fals_cases += 1
        rep.count(f"bmadx-jacobian:{kind}:{'big-angle' if abs(p.get('angle', 0.0)) >= math.pi / 2 else 'generic'}")
        rep.case(("bmadx_jacobian",) + E.config_key(p), None)
        try:
            bmadx_case(rep, r)
        except Exception as ex:  # noqa: BLE001
            rep.count(f"bmadx-jacobian:rejected:{type(ex).__name__}")


def replay(ctx, data) -> bool:
    r = data["replay"]
    from common import Report
    rep = Report("C03")
    if r.get("kind") == "bmadx_jacobian":
        bmadx_case(rep, r)
        return bool(rep.failures)
    if r.get("kind") == "vector_map":
        vector_case(rep, r)
        return bool(rep.failures)
    if r.get("kind") == "cavity-track":
        cavity_track_case(rep, r["params"], r["energy"], r["beam"], r["context"])
        return bool(rep.failures)
    if r.get("kind") == "retune":
        import context_probes as CP
        CP.retune_case(rep, "C03", r)
        return bool(rep.failures)
    check_linear(rep, r["params"], r["energy"], E.real_map(E.build(r["params"]), r["energy"]))
    return bool(rep.failures)
