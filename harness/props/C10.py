"""C10 — energy, charge and particle survival are accounted for exactly

B1: Element.track (apertures of both shapes incl. infinite sizes, blocking screens, cavities) vs Elem.trackP/M;
survival-weighted statistics vs wmean/wvar/wcov.
F : monotone survival along real lattices, statistics vs survivors-only beam, exact energy bookkeeping (fals/C10.py).
"""
from __future__ import annotations

from stats_corr import run_stats_correspondence
from track_corr import run_track_correspondence
try:
    from fals import C10 as F
except ImportError:  # falsifier module not present
    F = None

META = {
    "level": "proof",
    "rule": 'B1 case = (aperture/screen/cavity record, particles, survival pattern) and (particle set, weight pattern in {all-1, 0/1, fractional})' + ((" | falsifier: " + F.META.get("rule", "")) if F and hasattr(F, "META") else ""),
    "modelled": 'Aperture.track masks, blocking Screen, cavity energy gain, weighted statistics (Elements.lean, Beam.lean)',
    "gap": 'none identified',
    "assumptions": ((F.META.get("assumptions", []) if F and hasattr(F, "META") else []) + []),
}


def run(ctx) -> None:
    run_track_correspondence(ctx, "C10", ctx.n(10, 250), kinds=["Aperture", "Aperture", "Screen", "Cavity", "BPM", "Drift"])
    run_stats_correspondence(ctx, "C10", ctx.n(80, 2000))
    if F is not None:
        F.run(ctx)


def corpus_case(ctx, r: dict) -> None:
    if F is not None and hasattr(F, "corpus_case"):
        F.corpus_case(ctx, r)


def replay(ctx, data) -> bool:
    from common import Report
    import types
    c2 = types.SimpleNamespace(**{k: getattr(ctx, k) for k in ("prop", "tier", "seed", "rng", "escalate", "t0", "n")})
    c2.report = Report("C10")
    corpus_case(c2, data["replay"])
    return bool(c2.report.failures)
