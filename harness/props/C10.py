"""C10 — energy, charge and particle survival are accounted for exactly

B1: Element.track (apertures of both shapes incl. infinite sizes, blocking screens, cavities) vs Elem.trackP/M;
survival-weighted statistics vs wmean/wvar/wcov.
F : monotone survival along real lattices, statistics vs survivors-only beam, exact energy bookkeeping (fals/C10.py).
"""
from __future__ import annotations

from stats_corr import run_stats_correspondence
from track_corr import run_track_correspondence
try:
    from fals import C10 as F
except ImportError:  # falsifier module not present
    F = None

META = {
    "level": "proof",
    "rule": 'B1 case = (aperture/screen/cavity record, particles, survival pattern) and (particle set, weight pattern in {all-1, 0/1, fractional})' + ((" | falsifier: " + F.META.get("rule", "")) if F and hasattr(F, "META") else ""),
    "modelled": 'Aperture.track masks, blocking Screen, cavity energy gain, weighted statistics (Elements.lean, Beam.lean)',
    "gap": 'none identified',
    "assumptions": ((F.META.get("assumptions", []) if F and hasattr(F, "META") else []) + []),
}


def cavity_vector_case(rep, r: dict) -> None:
    """vectorised cavity (alone / inside a Segment): the reference energy of every vector entry changes by exactly
    voltage*cos(phase) of that entry; particle number, charges and survival are untouched"""
    import math
    import numpy as np
    import torch
    import cheetah
    F64 = torch.float64
    V, ph, En, bt, where = r["V"], r["phase"], r["energy"], r["beam"], r["where"]
    P = np.asarray(r["particles"], dtype=float)
    zeros = "none" if all(v != 0 for v in V) else ("all" if all(v == 0 for v in V) else "some")
    sig = f"C10|Cavity|vectorised voltage, zeros:{zeros}{', zero length' if r['L'] == 0 else ''}|{bt}|{where}|"
    try:
        cav = cheetah.Cavity(length=torch.tensor(r["L"], dtype=F64), voltage=torch.tensor(V, dtype=F64),
                             phase=torch.tensor(ph, dtype=F64), frequency=torch.tensor(1.3e9, dtype=F64), dtype=F64, name="cav")
        el = cav if where == "alone" else cheetah.Segment([cheetah.Drift(length=torch.tensor(0.3, dtype=F64), dtype=F64), cav,
                                                            cheetah.Drift(length=torch.tensor(0.2, dtype=F64), dtype=F64)])
        q = torch.full((P.shape[0],), 1e-12, dtype=F64)
        surv = torch.tensor(r["survival"], dtype=F64)
        if bt == "ParticleBeam":
            b = cheetah.ParticleBeam(torch.tensor(P, dtype=F64), torch.tensor(En, dtype=F64), particle_charges=q,
                                     survival_probabilities=surv, dtype=F64)
        else:
            Pt = torch.tensor(P, dtype=F64)
            mu = Pt.mean(dim=0)
            cov = torch.cov(Pt.T)
            b = cheetah.ParameterBeam(mu, cov, torch.tensor(En, dtype=F64), total_charge=torch.tensor(1e-10, dtype=F64), dtype=F64)
        out = el.track(b)
        e_out = out.energy.detach().numpy().reshape(-1) * np.ones(len(V))
    except Exception as e:  # noqa: BLE001
        rep.fail("falsifier", sig + "raises", f"Cavity with voltages {V} ({where}, {bt}): {type(e).__name__}: {e}", r)
        return
    want = [En + v * math.cos(math.radians(p_)) for v, p_ in zip(V, ph)]
    bad = [i for i, (a, w) in enumerate(zip(e_out, want)) if not abs(a - w) <= 1e-12 * max(abs(w), En)]
    if bad:
        i = bad[0]
        rep.fail("falsifier", sig + "energy", f"Cavity with voltages {V}, phases {ph} deg ({where}, {bt}): outgoing reference energy of "
                 f"entry {i} is {e_out[i]!r}, incoming {En!r} + voltage*cos(phase) = {want[i]!r}", r)
        return
    if bt == "ParticleBeam":
        if out.particles.shape[-2] != P.shape[0] or not torch.equal(out.particle_charges.broadcast_to(q.shape), q) \
                or not torch.equal(out.survival_probabilities.broadcast_to(surv.shape) if out.survival_probabilities.dim() == 1
                                   else out.survival_probabilities[0], surv):
            rep.fail("falsifier", sig + "charge/survival", f"Cavity with voltages {V} ({where}): particle number, charges or survival changed", r)
    else:
        if not torch.equal(out.total_charge.reshape(-1)[0], b.total_charge.reshape(-1)[0]):
            rep.fail("falsifier", sig + "charge/survival", f"Cavity with voltages {V} ({where}): total charge changed", r)


def cavity_vector_probe(ctx, n: int) -> None:
    import lattices as LT
    import elements as E
    rep, rng = ctx.report, ctx.rng
    for _ in range(n):
        B = int(rng.integers(2, 4))
        pat = ["none", "some", "some", "all"][int(rng.integers(4))]
        V = [float(E.pick(rng, 1e7, 2e7, 5e6, -1e7, 3.3e6)) for _ in range(B)]
        if pat == "all":
            V = [0.0] * B
        elif pat == "some":
            V[int(rng.integers(B))] = 0.0
        ph = [float(E.pick(rng, 0.0, 30.0, 60.0, 180.0, -45.0, 90.0)) for _ in range(B)]
        r = {"kind": "cavity_vector", "V": V, "phase": ph, "L": float(E.pick(rng, 1.0, 0.5, 1.0377, 0.0)), "energy": float(E.pick(rng, 1e8, 6e6 + 1e8, 1.3e9)),
             "beam": ["ParticleBeam", "ParameterBeam"][int(rng.integers(2))], "where": ["alone", "segment"][int(rng.integers(2))],
             "particles": LT.gen_particles(rng, 6).tolist(), "survival": [float(E.pick(rng, 1.0, 1.0, 0.0, 0.5)) for _ in range(6)]}
        rep.fals_cases += 1
        rep.case(("cavity_vector", pat, r["beam"], r["where"]), {k: r[k] for k in ("V", "phase", "beam", "where")})
        rep.count(f"cavity_vector:{pat}")
        cavity_vector_case(rep, r)


def run(ctx) -> None:
    import context_probes as CP
    CP.toggle_probe(ctx, "C10", ctx.n(16, 300))
    cavity_vector_probe(ctx, ctx.n(16, 300))
    run_track_correspondence(ctx, "C10", ctx.n(10, 250), kinds=["Aperture", "Aperture", "Screen", "Cavity", "BPM", "Drift"])
    run_stats_correspondence(ctx, "C10", ctx.n(80, 2000))
    if F is not None:
        F.run(ctx)


def corpus_case(ctx, r: dict) -> None:
    if r.get("kind") == "cavity_vector":
        return cavity_vector_case(ctx.report, r)
    if r.get("kind") == "toggle":
        import context_probes as CP
        return CP.toggle_case(ctx.report, "C10", r)
    if F is not None and hasattr(F, "corpus_case"):
        F.corpus_case(ctx, r)


def replay(ctx, data) -> bool:
    from common import Report
    import types
    c2 = types.SimpleNamespace(**{k: getattr(ctx, k) for k in ("prop", "tier", "seed", "rng", "escalate", "t0", "n")})
    c2.report = Report("C10")
    corpus_case(c2, data["replay"])
    return bool(c2.report.failures)
