"""C13 — imported lattices mean what the lattice file says

B2: Elegant / Bmad dispatch tables regenerated from the converters' if/elif chains must equal the reviewed tables;
    the converters' continuation passes regenerated from source must be the modelled ones.
B1: NX drift filling (convert_lattice_to_cheetah) vs CheetahModel/Nx.lean (nx_corr.py);
    text front end (read_clean_lines, merge_delimiter_continued_lines, rpn) vs CheetahModel/Text.lean (text_corr.py);
    statement level (parse_lines handlers, wild cards, line expansion by convert_element) vs CheetahModel/Namelist.lean (nml_corr.py).
F : random abstract lattices rendered in many spellings, imported, compared with a reference denotation (fals/C13.py).
"""
from __future__ import annotations


try:
    from fals import C13 as F
except ImportError:  # falsifier module not present
    F = None

META = {
    "level": "proof",
    "rule": 'B2 table rows: one per element type per dialect' + ((" | falsifier: " + F.META.get("rule", "")) if F and hasattr(F, "META") else ""),
    "modelled": 'converter dispatch (ConverterTables.lean); comment/blank/case cleaning, continuation merging, RPN reordering (Text.lean); NX drift filling (Nx.lean); statement level: what parse_lines\' handlers do to the context, wild cards, expansion of lines by convert_element (Namelist.lean)',
    "gap": 'partial: the regexes that classify and cut statements and Python eval of general expressions are exercised by the correspondence nml but not modelled; element-level conversion by tables + falsifier',
    "assumptions": ((F.META.get("assumptions", []) if F and hasattr(F, "META") else []) + []),
}


def run(ctx) -> None:
    from text_corr import run_text_correspondence
    run_text_correspondence(ctx, "C13", 300 if ctx.tier == "quick" else 4000)
    from nml_corr import run_nml_correspondence
    run_nml_correspondence(ctx, "C13", 250 if ctx.tier == "quick" else 5000)
    if F is not None:
        from nx_corr import run_nx_correspondence
        run_nx_correspondence(ctx, "C13", 120 if ctx.tier == "quick" else 2000)
    if F is not None:
        F.run(ctx)


def corpus_case(ctx, r: dict) -> None:
    if F is not None and hasattr(F, "corpus_case"):
        F.corpus_case(ctx, r)


def replay(ctx, data) -> bool:
    from common import Report
    import types
    c2 = types.SimpleNamespace(**{k: getattr(ctx, k) for k in ("prop", "tier", "seed", "rng", "escalate", "t0", "n")})
    c2.report = Report("C13")
    corpus_case(c2, data["replay"])
    return bool(c2.report.failures)
