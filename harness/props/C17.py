"""C17 — beam moments and Twiss parameters are mutually consistent

B1: Twiss read-out and ParameterBeam.from_twiss vs twissOf / fromTwiss; weighted statistics vs wmean / wvar / wcov.
F : Twiss relations, transport law, statistics invariances on real beams (fals/C17.py).
"""
from __future__ import annotations

from misc_corr import run_twiss_correspondence
from stats_corr import run_stats_correspondence
try:
    from fals import C17 as F
except ImportError:  # falsifier module not present
    F = None

META = {
    "level": "proof",
    "rule": 'B1 case = (beta, alpha, emittance) / particle set with weight pattern' + ((" | falsifier: " + F.META.get("rule", "")) if F and hasattr(F, "META") else ""),
    "modelled": 'emittance/beta/alpha with the finfo.tiny clamp, from_twiss (Beam.lean); weighted statistics',
    "gap": 'the statistical clause (ParticleBeam.from_twiss) is exploration by nature',
    "assumptions": ((F.META.get("assumptions", []) if F and hasattr(F, "META") else []) + []),
}


def run(ctx) -> None:
    run_twiss_correspondence(ctx, "C17", ctx.n(60, 1500))
    run_stats_correspondence(ctx, "C17", ctx.n(60, 1500))
    if F is not None:
        F.run(ctx)


def corpus_case(ctx, r: dict) -> None:
    if F is not None and hasattr(F, "corpus_case"):
        F.corpus_case(ctx, r)


def replay(ctx, data) -> bool:
    from common import Report
    import types
    c2 = types.SimpleNamespace(**{k: getattr(ctx, k) for k in ("prop", "tier", "seed", "rng", "escalate", "t0", "n")})
    c2.report = Report("C17")
    corpus_case(c2, data["replay"])
    return bool(c2.report.failures)
