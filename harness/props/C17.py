"""C17 — beam moments and Twiss parameters are mutually consistent

B1: Twiss read-out and ParameterBeam.from_twiss vs twissOf / fromTwiss; weighted statistics vs wmean / wvar / wcov.
F : Twiss relations, transport law, statistics invariances on real beams (fals/C17.py).
"""
from __future__ import annotations

from misc_corr import run_twiss_correspondence
from stats_corr import run_stats_correspondence
try:
    from fals import C17 as F
except ImportError:  # falsifier module not present
    F = None

META = {
    "level": "proof",
    "rule": 'B1 case = (beta, alpha, emittance) / particle set with weight pattern' + ((" | falsifier: " + F.META.get("rule", "")) if F and hasattr(F, "META") else ""),
    "modelled": 'emittance/beta/alpha with the finfo.tiny clamp, from_twiss (Beam.lean); weighted statistics',
    "gap": 'the statistical clause (ParticleBeam.from_twiss) is exploration by nature',
    "assumptions": ((F.META.get("assumptions", []) if F and hasattr(F, "META") else []) + []),
}


def grid_case(rep, r: dict) -> None:
    """vector shape with two dimensions (beta of shape (A,1) against emittance of shape (B,)): entry [a,b] reports
    beta[a], alpha, emittance[b]"""
    import numpy as np
    import torch
    import cheetah
    bt = r["beam"]
    t = lambda v: torch.tensor(v, dtype=torch.float64)  # noqa: E731
    beta, emit, alpha = np.array(r["beta"]), np.array(r["emit"]), float(r["alpha"])
    kw = dict(beta_x=t(beta).reshape(-1, 1), emittance_x=t(emit), alpha_x=t(alpha), beta_y=t(r["beta_y"]), emittance_y=t(r["emit_y"]),
              energy=t(r["energy"]), dtype=torch.float64)
    N = 20_000
    try:
        if bt == "ParameterBeam":
            b = cheetah.ParameterBeam.from_twiss(**kw)
            tol_b, tol_a = 1e-9, 1e-9 * (1 + alpha * alpha)
        else:
            with torch.random.fork_rng():
                torch.manual_seed(int(r["torch_seed"]))
                b = cheetah.ParticleBeam.from_twiss(num_particles=N, **kw)
            tol_b, tol_a = 8.0 / np.sqrt(N), 8.0 * np.sqrt(1 + alpha * alpha) / np.sqrt(N)
        gb, ga, ge = (np.array(getattr(b, nm).detach().numpy(), dtype=float) for nm in ("beta_x", "alpha_x", "emittance_x"))
    except Exception as e:  # noqa: BLE001
        rep.fail("falsifier", f"C17|from_twiss|{bt}|2-d vector shape|raises", f"{bt}.from_twiss with beta_x of shape {(len(beta), 1)} and emittance_x "
                 f"of shape {(len(emit),)}: {type(e).__name__}: {e}", r)
        return
    want = (len(beta), len(emit))
    for nm, g in (("beta_x", gb), ("alpha_x", ga), ("emittance_x", ge)):
        if g.shape != want:
            rep.fail("falsifier", f"C17|from_twiss|{bt}|2-d vector shape|shape", f"{bt}.from_twiss: {nm} has shape {g.shape}, the parameters broadcast to {want}", r)
            return
    for a in range(want[0]):
        for c in range(want[1]):
            if not abs(gb[a, c] / beta[a] - 1) <= tol_b or not abs(ge[a, c] / emit[c] - 1) <= tol_b or not abs(ga[a, c] - alpha) <= tol_a:
                rep.fail("falsifier", f"C17|from_twiss|{bt}|2-d vector shape|value", f"{bt}.from_twiss(beta_x={beta.tolist()} as a column, emittance_x="
                         f"{emit.tolist()}, alpha_x={alpha}): entry [{a},{c}] reports beta {gb[a, c]!r}, alpha {ga[a, c]!r}, emittance {ge[a, c]!r}", r)
                return


def mutate_case(rep, r: dict) -> None:
    """the reported Twiss parameters are those of the beam as it is *now*: after coordinates were changed through the
    public setters they equal the ones of a beam freshly built from the same particles, and beta*gamma - alpha^2 = 1"""
    import numpy as np
    import torch
    import cheetah
    t = lambda v: torch.tensor(v, dtype=torch.float64)  # noqa: E731
    P = np.array(r["particles"], dtype=float)
    b = cheetah.ParticleBeam(t(P), t(r["energy"]), dtype=torch.float64)
    names = ("beta_x", "alpha_x", "emittance_x", "beta_y", "alpha_y", "emittance_y", "normalized_emittance_x", "normalized_emittance_y")
    first = {n: float(getattr(b, n)) for n in r["read_first"]}   # noqa: F841  (the read is the point)
    fx, fpy = float(r["fx"]), float(r["fpy"])
    b.x = b.x * fx
    b.py = b.py * fpy + 1e-5
    P2 = P.copy()
    P2[:, 0] *= fx
    P2[:, 3] = P2[:, 3] * fpy + 1e-5
    fresh = cheetah.ParticleBeam(t(P2), t(r["energy"]), dtype=torch.float64)
    for n in names:
        g, w = float(getattr(b, n)), float(getattr(fresh, n))
        if not abs(g - w) <= 1e-9 * max(abs(w), 1e-300):
            rep.fail("falsifier", "C17|ParticleBeam|after setting coordinates|" + n.rsplit("_", 1)[0],
                     f"after reading {r['read_first']} and then x *= {fx}, py = py*{fpy} + 1e-5: {n} = {g!r}, a beam built from the same particles "
                     f"reports {w!r}", r)
            return


def extreme_case(rep, r: dict) -> None:
    """(a) strongly correlated planes (|alpha| up to 1e4: a beam far from its waist): from_twiss reports the parameters
    back, beta*gamma - alpha^2 = 1, and a drift transports them by the matrix law; (b) float32 beams far off axis
    compared with their size: the statistics are those of the same coordinates in float64, to float32 round-off"""
    import numpy as np
    import torch
    import cheetah
    if r["what"] == "alpha":
        t = lambda v: torch.tensor(v, dtype=torch.float64)  # noqa: E731
        a, bta, em = r["alpha"], r["beta"], r["emit"]
        b = cheetah.ParameterBeam.from_twiss(beta_x=t(bta), alpha_x=t(a), emittance_x=t(em), beta_y=t(2.0), alpha_y=t(0.0), emittance_y=t(1e-9),
                                             energy=t(r["energy"]), dtype=torch.float64)
        L = r["L"]
        out = cheetah.Drift(length=t(L), dtype=torch.float64).track(b)
        g = (1 + a * a) / bta
        want = {"in": (bta, a, em), "drift": (bta - 2 * L * a + L * L * g, a - L * g, em)}
        for tag, bb in (("in", b), ("drift", out)):
            wb, wa, we = want[tag]
            if abs(wa) > 3e4:
                continue        # sigma_x^2 sigma_px^2 - sigma_xpx^2 cancels to 1/(1+alpha^2) < 1e-9: beyond float64
            gb, ga, ge = float(bb.beta_x), float(bb.alpha_x), float(bb.emittance_x)
            tol = 1e-9 + 1e-12 * (1 + wa * wa)
            if not (abs(gb / wb - 1) <= tol and abs(ga - wa) <= tol * max(1.0, abs(wa)) and abs(ge / we - 1) <= tol):
                rep.fail("falsifier", f"C17|ParameterBeam|{'|alpha|>=1000' if abs(a) >= 1000 else '|alpha|<1000'}|{'from_twiss' if tag == 'in' else 'drift'}",
                         f"from_twiss(beta={bta!r}, alpha={a!r}, emittance={em!r})" + ("" if tag == "in" else f" after a {L} m drift")
                         + f": reports beta {gb!r}, alpha {ga!r}, emittance {ge!r}; expected {wb!r}, {wa!r}, {we!r}", r)
                return
        return
    P = np.array(r["particles"], dtype=np.float32)
    b = cheetah.ParticleBeam(torch.tensor(P), torch.tensor(np.float32(r["energy"])), dtype=torch.float32)
    P64 = P.astype(np.float64)
    for k, nm in ((0, "sigma_x"), (1, "sigma_px"), (2, "sigma_y")):
        w = float(np.std(P64[:, k], ddof=1))
        g = float(getattr(b, nm))
        ratio = abs(float(np.mean(P64[:, k]))) / max(w, 1e-300)
        # two-pass float32 statistics lose about eps32 * (offset / size) of relative accuracy
        tol = 1e-3 + 50 * 1.2e-7 * ratio
        if not abs(g / w - 1) <= tol:
            rep.fail("falsifier", f"C17|ParticleBeam(float32)|offset/size {'>=500' if ratio >= 500 else '<500'}|{nm}",
                     f"float32 beam centred {ratio:.0f} sizes off axis: {nm} = {g!r}, the same coordinates in float64 give {w!r}", r)
            return


def extreme_probe(ctx, n: int) -> None:
    import numpy as np
    import elements as E
    rep, rng = ctx.report, ctx.rng
    for i in range(n):
        if i % 2 == 0:
            r = {"kind": "twiss_extreme", "what": "alpha", "alpha": float(E.pick(rng, 40.0, -900.0, 2500.0, -4000.0, 1500.0)),
                 "beta": float(10.0 ** rng.uniform(-1, 3)), "emit": float(10.0 ** rng.uniform(-11, -7)), "L": float(E.pick(rng, 0.5, 2.0)),
                 "energy": float(E.energy(rng))}
        else:
            n_p = 2000
            size = np.array([10.0 ** rng.uniform(-6, -4), 10.0 ** rng.uniform(-6, -4), 10.0 ** rng.uniform(-6, -4)])
            ratio = float(E.pick(rng, 0.0, 30.0, 800.0, 3000.0))
            P = np.zeros((n_p, 7), dtype=np.float32)
            P[:, 6] = 1.0
            P[:, :3] = (rng.normal(size=(n_p, 3)) * size + ratio * size).astype(np.float32)
            r = {"kind": "twiss_extreme", "what": "offset", "particles": P.tolist(), "energy": 1e8, "ratio": ratio}
        rep.fals_cases += 1
        rep.count("probe:extreme:" + r["what"])
        rep.case(("twiss_extreme", r["what"], r.get("alpha", r.get("ratio"))), None)
        try:
            extreme_case(rep, r)
        except Exception as ex:  # noqa: BLE001
            rep.count(f"extreme:rejected:{type(ex).__name__}")


def extra_probes(ctx, n: int) -> None:
    import numpy as np
    import elements as E
    import lattices as LT
    rep, rng = ctx.report, ctx.rng
    for i in range(n):
        A, B = int(rng.integers(2, 4)), int(rng.integers(2, 4))
        if rng.random() < 0.3:
            B = A
        beta = (10.0 ** rng.uniform(-1, 2)) * 3.0 ** np.arange(A)
        emit = (10.0 ** rng.uniform(-12, -7)) * 3.0 ** np.arange(B)
        rng.shuffle(beta)
        rng.shuffle(emit)
        r = {"kind": "twiss_grid", "beam": ["ParameterBeam", "ParticleBeam"][i % 2], "beta": beta.tolist(), "emit": emit.tolist(),
             "alpha": float(E.pick(rng, 0.0, 1.0, -0.7, 2.5)), "beta_y": 2.0, "emit_y": 1e-9, "energy": float(E.energy(rng)),
             "torch_seed": int(rng.integers(2 ** 31))}
        rep.fals_cases += 1
        rep.count("probe:twiss-grid:" + r["beam"])
        rep.case(("twiss_grid", r["beam"], A, B), None)
        grid_case(rep, r)
    for i in range(n):
        names = ["beta_x", "alpha_x", "emittance_x", "beta_y", "alpha_y", "emittance_y", "normalized_emittance_x", "sigma_x"]
        r = {"kind": "twiss_mutate", "particles": LT.gen_particles(rng, 12).tolist(), "energy": float(E.energy(rng)),
             "read_first": [names[int(j)] for j in rng.choice(len(names), size=int(rng.integers(1, 4)), replace=False)],
             "fx": float(E.pick(rng, 3.0, 0.5, -2.0)), "fpy": float(E.pick(rng, 2.0, 0.25, 1.0))}
        rep.fals_cases += 1
        rep.count("probe:twiss-after-setters")
        mutate_case(rep, r)


def transport_case(rep, r: dict) -> None:
    """the transport law through a *vectorised* lattice element: beta, alpha and the emittance behind a quadrupole whose k1 is
    a scan (through exactly 0) follow, entry by entry, M Sigma M^T with that entry's thick-lens matrix — computed here from
    the closed form, independently of the code"""
    import math
    import numpy as np
    import torch
    import cheetah
    dt = torch.float64
    t = lambda v: torch.tensor(v, dtype=dt)  # noqa: E731
    L, ks, En = r["L"], r["k1"], r["energy"]
    tw = r["twiss"]
    b = cheetah.ParameterBeam.from_twiss(beta_x=t(tw["bx"]), alpha_x=t(tw["ax"]), emittance_x=t(tw["ex"]), beta_y=t(tw["by"]),
                                         alpha_y=t(tw["ay"]), emittance_y=t(tw["ey"]), energy=t(En), dtype=dt)
    q = cheetah.Quadrupole(length=t(L), k1=t(ks), dtype=dt)
    out = q.track(b)
    got = {k: getattr(out, k).detach().numpy().reshape(-1) * np.ones(len(ks)) for k in ("beta_x", "alpha_x", "emittance_x", "beta_y", "alpha_y", "emittance_y")}

    def m2(k):
        if k == 0.0:
            return 1.0, L, 0.0, 1.0
        if k > 0:
            w = math.sqrt(k)
            return math.cos(w * L), math.sin(w * L) / w, -w * math.sin(w * L), math.cos(w * L)
        w = math.sqrt(-k)
        return math.cosh(w * L), math.sinh(w * L) / w, w * math.sinh(w * L), math.cosh(w * L)
    for i, k in enumerate(ks):
        for pl, kk in (("x", k), ("y", -k)):
            be, al, em = tw["b" + pl], tw["a" + pl], tw["e" + pl]
            ga = (1 + al * al) / be
            a, bb, c, d = m2(kk)
            be1 = a * a * be - 2 * a * bb * al + bb * bb * ga
            al1 = -a * c * be + (a * d + bb * c) * al - bb * d * ga
            for nm, want, have in ((f"beta_{pl}", be1, got[f"beta_{pl}"][i]), (f"alpha_{pl}", al1, got[f"alpha_{pl}"][i]),
                                   (f"emittance_{pl}", em, got[f"emittance_{pl}"][i])):
                if not abs(have - want) <= 1e-8 * (abs(want) + abs(be1) / max(be, 1e-30) + 1.0):
                    rep.fail("falsifier", f"C17|transport|vectorised Quadrupole k1, zeros:{'some' if 0.0 in ks else 'none'}|{nm.split('_')[0]}",
                             f"ParameterBeam behind Quadrupole(L={L!r}, k1={ks}): {nm} of entry {i} (k1 = {k!r}) is {have!r}, the transport law gives {want!r}", r)
                    return


def transport_probe(ctx, n: int) -> None:
    import elements as E
    rep, rng = ctx.report, ctx.rng
    for i in range(n):
        ks = [float(x) for x in rng.permutation([float(rng.uniform(0.5, 6.0)), -float(rng.uniform(0.5, 6.0)), 0.0, float(rng.uniform(-2, 2))])]
        if i % 3 == 2:
            ks = [k for k in ks if k != 0.0]
        r = {"kind": "twiss_transport", "L": float(E.pick(rng, 0.2, 0.5, 1.0)), "k1": ks, "energy": float(E.energy(rng)),
             "twiss": {"bx": float(rng.uniform(0.5, 20)), "ax": float(rng.uniform(-2, 2)), "ex": float(10 ** rng.uniform(-9, -6)),
                       "by": float(rng.uniform(0.5, 20)), "ay": float(rng.uniform(-2, 2)), "ey": float(10 ** rng.uniform(-9, -6))}}
        rep.fals_cases += 1
        rep.count("probe:transport-vector")
        rep.case(("twiss_transport", 0.0 in ks), None)
        transport_case(rep, r)


def run(ctx) -> None:
    extra_probes(ctx, ctx.n(8, 120))
    transport_probe(ctx, ctx.n(9, 200))
    extreme_probe(ctx, ctx.n(12, 200))
    run_twiss_correspondence(ctx, "C17", ctx.n(60, 1500))
    run_stats_correspondence(ctx, "C17", ctx.n(60, 1500))
    if F is not None:
        F.run(ctx)


def corpus_case(ctx, r: dict) -> None:
    if r.get("kind") == "twiss_grid":
        return grid_case(ctx.report, r)
    if r.get("kind") == "twiss_transport":
        return transport_case(ctx.report, r)
    if r.get("kind") == "twiss_mutate":
        return mutate_case(ctx.report, r)
    if r.get("kind") == "twiss_extreme":
        return extreme_case(ctx.report, r)
    if F is not None and hasattr(F, "corpus_case"):
        F.corpus_case(ctx, r)


def replay(ctx, data) -> bool:
    from common import Report
    import types
    c2 = types.SimpleNamespace(**{k: getattr(ctx, k) for k in ("prop", "tier", "seed", "rng", "escalate", "t0", "n")})
    c2.report = Report("C17")
    corpus_case(c2, data["replay"])
    return bool(c2.report.failures)
