"""C18 — coordinate conversions are mutually inverse and match the documented definitions

B1: cheetah_to_bmad_z_pz / bmad_to_cheetah_z_pz and to_xyz_pxpypz / from_xyz_pxpypz vs toBmad / toCheetah / toXyz / fromXyz.
F : round trips and definitions vs an mpmath oracle, both dtypes (fals/C18.py).
"""
from __future__ import annotations

from bmadx_corr import report_mismatches, run_bmadx_correspondence
from misc_corr import run_xyz_correspondence
try:
    from fals import C18 as F
except ImportError:  # falsifier module not present
    F = None

META = {
    "level": "proof",
    "rule": 'B1 case = (tau, delta, energy) / particle vector, energy' + ((" | falsifier: " + F.META.get("rule", "")) if F and hasattr(F, "META") else ""),
    "modelled": 'z/pz conversions (Bmadx.lean), SI conversions with the constants as the code holds them (Beam.lean)',
    "gap": "the si_roundtrip theorem needs mec = me*c, which the code's float32 constants violate in float64 (known finding)",
    "assumptions": ((F.META.get("assumptions", []) if F and hasattr(F, "META") else []) + []),
}


def history_case(rep, r: dict) -> None:
    """the conversions depend on the beam as it is now (particles, reference energy), not on what was read from it
    earlier: after the reference energy of an existing beam is re-assigned, every conversion equals the one of a beam
    freshly built with that energy"""
    import numpy as np
    import torch
    import cheetah
    dt = torch.float64
    t = lambda v: torch.tensor(v, dtype=dt)  # noqa: E731
    P = np.array(r["particles"], dtype=float)
    b = cheetah.ParticleBeam(t(P), t(r["E1"]), dtype=dt)
    for nm in r["read_first"]:
        v = getattr(b, nm)
        if callable(v):
            v()
    if r["how"] == "assign":
        b.energy = t(r["E2"])
    else:
        with torch.no_grad():
            b.energy.mul_(r["E2"] / r["E1"])
    E2 = float(b.energy)
    fresh = cheetah.ParticleBeam(t(P), t(E2), dtype=dt)
    obs = {"to_xyz_pxpypz": lambda x: x.to_xyz_pxpypz(), "p0c": lambda x: x.p0c, "energies": lambda x: x.energies,
           "relativistic_beta": lambda x: x.relativistic_beta, "relativistic_gamma": lambda x: x.relativistic_gamma}
    for nm, f in obs.items():
        try:
            g, w = f(b).detach().numpy(), f(fresh).detach().numpy()
        except AttributeError:
            continue
        d = np.abs(g - w)
        sc = np.maximum(np.abs(w).max(axis=0) if w.ndim == 2 else np.abs(w).max(), 1e-300)
        if g.shape != w.shape or not np.all(d <= 1e-12 * sc):
            rep.fail("falsifier", f"C18|ParticleBeam.{nm}|after the reference energy was changed",
                     f"beam at {r['E1']!r} eV, {r['read_first']} read, energy then set to {E2!r} eV ({r['how']}): {nm} differs from the one of a beam "
                     f"built with that energy by {float((d / sc).max()):.3g} (relative)", r)
            return
    # round trip at the new energy
    back = cheetah.ParticleBeam.from_xyz_pxpypz(b.to_xyz_pxpypz(), b.energy, dtype=dt).particles.detach().numpy()
    sc = np.maximum(np.abs(P).max(axis=0), [1e-6, 1e-6, 1e-6, 1e-6, 1e-6, 1e-4, 1.0])
    if not np.all(np.abs(back - P) <= 1e-9 * sc):
        rep.fail("falsifier", "C18|ParticleBeam.from_xyz(to_xyz)|after the reference energy was changed",
                 f"round trip at the new reference energy {E2!r} eV differs by {float((np.abs(back - P) / sc).max()):.3g} (scaled)", r)


def history_probe(ctx, n: int) -> None:
    import elements as E
    import lattices as LT
    rep, rng = ctx.report, ctx.rng
    reads = ["relativistic_beta", "p0c", "energies", "to_xyz_pxpypz", "relativistic_gamma"]
    for _ in range(n):
        E1 = float(E.energy(rng))
        r = {"kind": "history", "particles": LT.gen_particles(rng, 8).tolist(), "E1": E1,
             "E2": E1 * float(E.pick(rng, 0.05, 0.5, 2.0, 20.0)), "how": E.pick(rng, "assign", "inplace"),
             "read_first": [reads[int(j)] for j in rng.choice(len(reads), size=int(rng.integers(1, 3)), replace=False)]}
        if r["E2"] < 2 * E.MC2:
            r["E2"] = 5e6
        rep.fals_cases += 1
        rep.count("probe:energy-history:" + r["how"])
        history_case(rep, r)


def cross_dtype_case(rep, r: dict) -> None:
    """SI coordinates kept in float64 and read back into a beam of the *default* dtype (float32) — `from_xyz_pxpypz(xp, E)`
    as a user calls it: the float32 beam must equal the float64 original to float32 round-off (the squared SI momenta,
    ~1e-44, leave the float32 range: the conversion has to do its arithmetic in the precision it was handed)"""
    import numpy as np
    import torch
    import cheetah
    import lattices as LT
    P, En = np.array(r["particles"], dtype=float), r["energy"]
    b64 = LT.particle_beam(P, En)
    xp = b64.to_xyz_pxpypz()
    try:
        b32 = cheetah.ParticleBeam.from_xyz_pxpypz(xp, torch.tensor(En, dtype=torch.float64))
    except Exception as ex:
        rep.count(f"cross-dtype-rejected:{type(ex).__name__}")
        return
    if b32.particles.dtype != torch.float32:
        rep.count("cross-dtype:not-float32")      # the default dtype is not float32 here
        return
    A, C = b32.particles.double().numpy(), b64.particles.numpy()
    sc = np.abs(C[:, :6]).max(axis=0) + 1e-300
    sc[5] = max(sc[5], 0.25)      # delta is a difference of O(1) quantities (E/E0): float32 arithmetic leaves ~1e-7 absolute
    sc[4] = max(sc[4], 1e-3)
    d = np.abs(A[:, :6] - C[:, :6]) / sc
    if not np.all(d <= 2e-6):
        j = int(np.nanargmax(np.nanmax(d, axis=0)))
        rep.fail("falsifier", f"C18|from_xyz_pxpypz|float64 SI coordinates into a float32 beam|{'x px y py tau delta'.split()[j]}",
                 f"from_xyz_pxpypz(float64 SI coordinates) at E = {En!r} eV builds a float32 beam whose {'x px y py tau delta'.split()[j]} is off "
                 f"by {float(np.nanmax(d[:, j]))!r} of its scale from the float64 original (float32 round-off is 6e-8)", r)


def cross_dtype_probe(ctx, n: int) -> None:
    import elements as E
    import lattices as LT
    rep, rng = ctx.report, ctx.rng
    for i in range(n):
        En = float(E.pick(rng, 8e5, 2e6, 6e6, 2e7, 1e8)) if i % 2 == 0 else float(E.energy(rng))
        P = LT.gen_particles(rng, 10, energy=En)
        P[:, 5] = rng.normal(0, 2e-3, size=P.shape[0])
        r = {"kind": "cross_dtype", "particles": P.tolist(), "energy": max(En, 1.5 * E.MC2)}
        rep.fals_cases += 1
        rep.count("probe:cross-dtype")
        rep.case(("cross_dtype", r["energy"] < 1e7), None)
        cross_dtype_case(rep, r)


def run(ctx) -> None:
    history_probe(ctx, ctx.n(20, 300))
    cross_dtype_probe(ctx, ctx.n(16, 300))
    report_mismatches(ctx.report, "C18", run_bmadx_correspondence(ctx, "C18", ctx.n(15, 300)))
    run_xyz_correspondence(ctx, "C18", ctx.n(60, 1500))
    if F is not None:
        F.run(ctx)


def corpus_case(ctx, r: dict) -> None:
    if r.get("kind") == "history":
        return history_case(ctx.report, r)
    if r.get("kind") == "cross_dtype":
        return cross_dtype_case(ctx.report, r)
    if F is not None and hasattr(F, "corpus_case"):
        F.corpus_case(ctx, r)


def replay(ctx, data) -> bool:
    from common import Report
    import types
    c2 = types.SimpleNamespace(**{k: getattr(ctx, k) for k in ("prop", "tier", "seed", "rng", "escalate", "t0", "n")})
    c2.report = Report("C18")
    corpus_case(c2, data["replay"])
    return bool(c2.report.failures)
