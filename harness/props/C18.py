"""C18 — coordinate conversions are mutually inverse and match the documented definitions

B1: cheetah_to_bmad_z_pz / bmad_to_cheetah_z_pz and to_xyz_pxpypz / from_xyz_pxpypz vs toBmad / toCheetah / toXyz / fromXyz.
F : round trips and definitions vs an mpmath oracle, both dtypes (fals/C18.py).
"""
from __future__ import annotations

from bmadx_corr import report_mismatches, run_bmadx_correspondence
from misc_corr import run_xyz_correspondence
try:
    from fals import C18 as F
except ImportError:  # falsifier module not present
    F = None

META = {
    "level": "proof",
    "rule": 'B1 case = (tau, delta, energy) / particle vector, energy' + ((" | falsifier: " + F.META.get("rule", "")) if F and hasattr(F, "META") else ""),
    "modelled": 'z/pz conversions (Bmadx.lean), SI conversions with the constants as the code holds them (Beam.lean)',
    "gap": "the si_roundtrip theorem needs mec = me*c, which the code's float32 constants violate in float64 (known finding)",
    "assumptions": ((F.META.get("assumptions", []) if F and hasattr(F, "META") else []) + []),
}


def run(ctx) -> None:
    report_mismatches(ctx.report, "C18", run_bmadx_correspondence(ctx, "C18", ctx.n(15, 300)))
    run_xyz_correspondence(ctx, "C18", ctx.n(60, 1500))
    if F is not None:
        F.run(ctx)


def corpus_case(ctx, r: dict) -> None:
    if F is not None and hasattr(F, "corpus_case"):
        F.corpus_case(ctx, r)


def replay(ctx, data) -> bool:
    from common import Report
    import types
    c2 = types.SimpleNamespace(**{k: getattr(ctx, k) for k in ("prop", "tier", "seed", "rng", "escalate", "t0", "n")})
    c2.report = Report("C18")
    corpus_case(c2, data["replay"])
    return bool(c2.report.failures)
