"""C04 — vectorised tracking equals tracking each setting separately

B1: vectorised Quadrupole.transfer_map (batched parameters, every mixture of zero/non-zero tilt, misalignment, strength)
vs the per-sample Lean model maps (the tie of theorem C04.quad_batched_eq_map).
F : batched track vs a Python loop over entries for every element class / shape / mixture (fals/C04.py).
"""
from __future__ import annotations

from misc_corr import run_batch_correspondence
try:
    from fals import C04 as F
except ImportError:  # falsifier module not present
    F = None

META = {
    "level": "proof",
    "rule": 'B1 case = (batch of 2-4 quadrupole records incl. exact zeros, energy, entry)' + ((" | falsifier: " + F.META.get("rule", "")) if F and hasattr(F, "META") else ""),
    "modelled": 'whole-tensor branches any(tilt != 0), all(misalignment == 0), any(length != 0), any(delta_energy > 0) as functions of the batch (Batch.lean)',
    "gap": 'partial: PyTorch broadcasting / unsqueeze plumbing is not modelled (falsifier only); cross-talk of Dipole length and Cavity T566 is proved to exist (known findings)',
    "assumptions": ((F.META.get("assumptions", []) if F and hasattr(F, "META") else []) + ['B1 tolerance 1024 eps per row']),
}


def run(ctx) -> None:
    run_batch_correspondence(ctx, "C04", ctx.n(60, 1500))
    if F is not None:
        F.run(ctx)


def corpus_case(ctx, r: dict) -> None:
    if F is not None and hasattr(F, "corpus_case"):
        F.corpus_case(ctx, r)


def replay(ctx, data) -> bool:
    from common import Report
    import types
    c2 = types.SimpleNamespace(**{k: getattr(ctx, k) for k in ("prop", "tier", "seed", "rng", "escalate", "t0", "n")})
    c2.report = Report("C04")
    corpus_case(c2, data["replay"])
    return bool(c2.report.failures)
