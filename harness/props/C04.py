"""C04 — vectorised tracking equals tracking each setting separately

B1: vectorised Quadrupole.transfer_map (batched parameters, every mixture of zero/non-zero tilt, misalignment, strength)
vs the per-sample Lean model maps (the tie of theorem C04.quad_batched_eq_map).
F : batched track vs a Python loop over entries for every element class / shape / mixture (fals/C04.py).
"""
from __future__ import annotations

from misc_corr import run_batch_correspondence
try:
    from fals import C04 as F
except ImportError:  # falsifier module not present
    F = None

META = {
    "level": "proof",
    "rule": 'B1 case = (batch of 2-4 quadrupole records incl. exact zeros, energy, entry)' + ((" | falsifier: " + F.META.get("rule", "")) if F and hasattr(F, "META") else ""),
    "modelled": 'whole-tensor branches any(tilt != 0), all(misalignment == 0), any(length != 0), any(delta_energy > 0) as functions of the batch (Batch.lean)',
    "gap": 'partial: PyTorch broadcasting / unsqueeze plumbing is not modelled (falsifier only); cross-talk of Dipole length and Cavity T566 is proved to exist (known findings)',
    "assumptions": ((F.META.get("assumptions", []) if F and hasattr(F, "META") else []) + ['B1 tolerance 1024 eps per row']),
}


def run(ctx) -> None:
    run_batch_correspondence(ctx, "C04", ctx.n(60, 1500))
    shape_probe(ctx, ctx.n(12, 300))
    grid_probe(ctx, ctx.n(8, 120))
    if F is not None:
        F.run(ctx)


def shape_probe(ctx, n: int) -> None:
    """two elements with differently shaped parameter batches (incl. size-1 dimensions: (1,), (m,1) x (n,)) tracked one
    after another: every moment / coordinate of the outgoing beam must have exactly the combined vector shape and each
    entry must equal the scalar simulation of that entry - for both beam types"""
    import itertools
    import numpy as np
    import torch
    import cheetah
    import lattices as LT
    rep, rng = ctx.report, ctx.rng
    F64 = torch.float64
    menu = [((1,), ()), ((3, 1), (3,)), ((2, 1), (3,)), ((1,), (2,)), ((2,), (2,)), ((1, 1), (2,)), ((3,), ()), ((2, 1), (1, 3))]
    for _ in range(n):
        sa, sb = menu[int(rng.integers(len(menu)))]
        k1 = rng.uniform(-6, 6, size=sa)
        Ld = rng.uniform(0.2, 1.5, size=sb)
        En = float(np.exp(rng.uniform(np.log(5e6), np.log(1e9))))
        P = LT.gen_particles(rng, 5)
        mid = str(rng.choice(["none", "bpm", "marker"]))
        shape = torch.broadcast_shapes(tuple(sa), tuple(sb))
        for bt in ("ParameterBeam", "ParticleBeam"):
            b = LT.particle_beam(P, En) if bt == "ParticleBeam" else LT.parameter_beam_from(P, En)
            rep.fals_cases += 1
            rep.count(f"shape-probe:{bt}:{sa}x{sb}")
            rep.case(("shape-probe", bt, sa, sb, mid))
            desc = {"kind": "shape-probe", "k1_shape": list(sa), "drift_shape": list(sb), "between": mid, "beam": bt}
            try:
                q = cheetah.Quadrupole(length=torch.tensor(0.3, dtype=F64), k1=torch.tensor(k1, dtype=F64), dtype=F64)
                d = cheetah.Drift(length=torch.tensor(Ld, dtype=F64), dtype=F64)
                els = [q] + ([cheetah.BPM(is_active=True)] if mid == "bpm" else [cheetah.Marker()] if mid == "marker" else []) + [d]
                out = b
                for e in els:
                    out = e.track(out)
                seg_out = cheetah.Segment(els).track(b)
            except Exception as ex:
                rep.fail("falsifier", f"C04|Quadrupole->Drift|shapes with size-1 dims|{bt}|raises",
                         f"k1 shape {sa}, drift length shape {sb}: {type(ex).__name__}: {ex}", desc)
                continue
            for label, o in (("element-by-element", out), ("Segment", seg_out)):
                got_mu = o._mu if bt == "ParameterBeam" else o.particles
                want_shape = tuple(shape) + ((7,) if bt == "ParameterBeam" else (5, 7))
                if tuple(got_mu.shape) != want_shape and tuple(torch.broadcast_shapes(got_mu.shape, want_shape)) != want_shape:
                    rep.fail("falsifier", f"C04|Quadrupole->Drift|shapes with size-1 dims|{bt}|vector shape",
                             f"{label}: k1 shape {sa}, drift length shape {sb}: outgoing {'mean' if bt == 'ParameterBeam' else 'particles'} "
                             f"has shape {tuple(got_mu.shape)}, combined vector shape requires {want_shape}", desc)
                    break
                full = got_mu.expand(want_shape)
                bad = None
                for idx in itertools.product(*[range(k) for k in shape]):
                    ka = float(np.broadcast_to(k1, shape)[idx]) if shape else float(k1)
                    lb = float(np.broadcast_to(Ld, shape)[idx]) if shape else float(Ld)
                    qs = cheetah.Quadrupole(length=torch.tensor(0.3, dtype=F64), k1=torch.tensor(ka, dtype=F64), dtype=F64)
                    ds = cheetah.Drift(length=torch.tensor(lb, dtype=F64), dtype=F64)
                    ref = ds.track(qs.track(b))
                    want = ref._mu if bt == "ParameterBeam" else ref.particles
                    sc = torch.tensor(list(LT.REF_SIG), dtype=F64)
                    err = float(((full[idx] - want).abs() / sc).max())
                    if not np.isfinite(err) or err > 1e-8:
                        bad = (idx, err)
                        break
                if bad:
                    rep.fail("falsifier", f"C04|Quadrupole->Drift|shapes with size-1 dims|{bt}|entry value",
                             f"{label}: k1 shape {sa}, drift length shape {sb}: entry {bad[0]} differs from its scalar simulation "
                             f"by {bad[1]:.2e} (scaled)", desc)
                    break


def grid_case(rep, r: dict) -> None:
    """a square 2-D grid of settings (misalignment x-offset varies along one vector dimension, y-offset along the other, a
    second parameter carries the full grid): entry [i, j] of the vectorised result is the scalar simulation with entry
    [i, j]'s settings — not [j, i]'s"""
    import numpy as np
    import torch
    import cheetah
    import lattices as LT
    F64 = torch.float64
    t = lambda v: torch.tensor(v, dtype=F64)  # noqa: E731
    A, cls, En, P = r["A"], r["cls"], r["energy"], np.array(r["particles"], dtype=float)
    mis = np.array(r["mis"], dtype=float)            # (A, A, 2)
    second = np.array(r["second"], dtype=float)      # (A, A)

    def mk(m, s2):
        if cls == "TransverseDeflectingCavity":
            return cheetah.TransverseDeflectingCavity(length=t(0.4), voltage=t(2e6), phase=t(20.0), frequency=t(3e9), misalignment=t(m),
                                                      tilt=t(s2), dtype=F64)
        if cls == "Quadrupole":
            return cheetah.Quadrupole(length=t(0.3), k1=t(s2 * 10.0), misalignment=t(m), tracking_method=r["method"], dtype=F64)
        return cheetah.Solenoid(length=t(0.3), k=t(s2 * 4.0), misalignment=t(m), dtype=F64)
    for bt in (("ParticleBeam",) if cls == "TransverseDeflectingCavity" or r["method"] == "bmadx" else ("ParticleBeam", "ParameterBeam")):
        beam = (lambda: LT.particle_beam(P, En)) if bt == "ParticleBeam" else (lambda: LT.parameter_beam_from(P, En))
        try:
            out = mk(mis, second).track(beam())
        except Exception as ex:  # noqa: BLE001
            rep.fail("falsifier", f"C04|{cls}|{A}x{A} grid of misalignments|{bt}|raises", f"{cls} with misalignment of shape ({A}, {A}, 2) and a second "
                     f"parameter of shape ({A}, {A}): {type(ex).__name__}: {str(ex)[:200]}", dict(r, beam=bt))
            return
        got = out.particles if bt == "ParticleBeam" else out._mu
        for i in range(A):
            for j in range(A):
                one = mk(mis[i, j], second[i, j]).track(beam())
                want = one.particles if bt == "ParticleBeam" else one._mu
                d = (got[i, j] - want).abs().max().item()
                sc = want.abs().max().item()
                if not d <= 1e-10 * max(sc, 1e-6):
                    swapped = (got[i, j] - (mk(mis[j, i], second[i, j]).track(beam()).particles if bt == "ParticleBeam"
                                            else mk(mis[j, i], second[i, j]).track(beam())._mu)).abs().max().item() <= 1e-10 * max(sc, 1e-6)
                    rep.fail("falsifier", f"C04|{cls}|{A}x{A} grid of misalignments|{bt}|entry differs",
                             f"{cls} ({r['method']}) with a {A}x{A} grid of misalignments: entry [{i}, {j}] differs from the scalar simulation of that "
                             f"entry by {d:.3e}" + (" and equals the simulation with the misalignment of entry [j, i]" if swapped else ""), dict(r, beam=bt))
                    return


def grid_probe(ctx, n: int) -> None:
    import elements as E
    import lattices as LT
    rep, rng = ctx.report, ctx.rng
    kinds = [("TransverseDeflectingCavity", "bmadx"), ("Quadrupole", "cheetah"), ("Quadrupole", "bmadx"), ("Solenoid", "cheetah")]
    for i in range(n):
        cls, method = kinds[i % len(kinds)]
        A = 2 + (i // len(kinds)) % 2
        xo, yo = rng.uniform(-1e-3, 1e-3, size=A), rng.uniform(-1e-3, 1e-3, size=A)
        mis = [[[float(xo[a]), float(yo[b])] for b in range(A)] for a in range(A)]
        r = {"kind": "grid", "cls": cls, "method": method, "A": A, "mis": mis, "second": rng.uniform(0.05, 0.4, size=(A, A)).tolist(),
             "energy": float(E.energy(rng)), "particles": LT.gen_particles(rng, 4).tolist()}
        rep.fals_cases += 1
        rep.count(f"grid-probe:{cls}:{A}x{A}")
        rep.case(("grid-probe", cls, method, A), None)
        grid_case(rep, r)


def corpus_case(ctx, r: dict) -> None:
    if r.get("kind") == "grid":
        return grid_case(ctx.report, r)
    if F is not None and hasattr(F, "corpus_case"):
        F.corpus_case(ctx, r)


def replay(ctx, data) -> bool:
    from common import Report
    import types
    c2 = types.SimpleNamespace(**{k: getattr(ctx, k) for k in ("prop", "tier", "seed", "rng", "escalate", "t0", "n")})
    c2.report = Report("C04")
    corpus_case(c2, data["replay"])
    return bool(c2.report.failures)
