"""C20 — screen and BPM readings show the beam that passed them

B1: single particles on random non-square, binned, misaligned histogram screens: lit pixel and image shape vs pixelOf.
F : argmax pixel / total / shape for both methods and beam types, vectorised kde, BPM (fals/C20.py).
"""
from __future__ import annotations

from screen_corr import run_hist_correspondence, run_screen_correspondence
try:
    from fals import C20 as F
except ImportError:  # falsifier module not present
    F = None

META = {
    "level": "proof",
    "rule": 'B1 case = (resolution, binning, pixel size, misalignment, particle position on/off screen)' + ((" | falsifier: " + F.META.get("rule", "")) if F and hasattr(F, "META") else ""),
    "modelled": 'bin edges (torch.linspace), histogramdd bin index, flipud(T), misalignment; reading cache (Diagnostics.lean)',
    "gap": 'partial: KDE, ParameterBeam and vectorised images are falsifier-only',
    "assumptions": ((F.META.get("assumptions", []) if F and hasattr(F, "META") else []) + []),
}


def run(ctx) -> None:
    import context_probes as CP
    CP.diag_history_probe(ctx, "C20", ctx.n(12, 300))
    run_screen_correspondence(ctx, "C20", ctx.n(120, 3000))
    run_hist_correspondence(ctx, "C20", ctx.n(60, 1500))
    if F is not None:
        F.run(ctx)


def corpus_case(ctx, r: dict) -> None:
    if r.get("kind") == "diag_history":
        import context_probes as CP
        return CP.diag_history_case(ctx.report, "C20", r)
    if F is not None and hasattr(F, "corpus_case"):
        F.corpus_case(ctx, r)


def replay(ctx, data) -> bool:
    from common import Report
    import types
    c2 = types.SimpleNamespace(**{k: getattr(ctx, k) for k in ("prop", "tier", "seed", "rng", "escalate", "t0", "n")})
    c2.report = Report("C20")
    corpus_case(c2, data["replay"])
    return bool(c2.report.failures)
