"""C16 — splitting an element preserves its length and its action

B1: number of pieces and piece length of Drift / Quadrupole / corrector split vs the model (ceil(L/res), L/n, at least one
piece for correctors); B2: split forwards every constructor parameter. F : pieces vs whole on the real code (fals/C16.py).
"""
from __future__ import annotations

from misc_corr import run_split_correspondence
try:
    from fals import C16 as F
except ImportError:  # falsifier module not present
    F = None

META = {
    "level": "proof",
    "rule": 'B1 case = (class, length incl. 0, resolution incl. exact multiples and > length)' + ((" | falsifier: " + F.META.get("rule", "")) if F and hasattr(F, "META") else ""),
    "modelled": 'split of Drift, Quadrupole, correctors, unsplittable elements (Elements.lean); forwarded keywords (Features.lean)',
    "gap": 'vectorised lengths are falsifier-only',
    "assumptions": ((F.META.get("assumptions", []) if F and hasattr(F, "META") else []) + []),
}


def run(ctx) -> None:
    run_split_correspondence(ctx, "C16", ctx.n(80, 2000))
    if F is not None:
        F.run(ctx)


def corpus_case(ctx, r: dict) -> None:
    if F is not None and hasattr(F, "corpus_case"):
        F.corpus_case(ctx, r)


def replay(ctx, data) -> bool:
    from common import Report
    import types
    c2 = types.SimpleNamespace(**{k: getattr(ctx, k) for k in ("prop", "tier", "seed", "rng", "escalate", "t0", "n")})
    c2.report = Report("C16")
    corpus_case(c2, data["replay"])
    return bool(c2.report.failures)
