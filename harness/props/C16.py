"""C16 — splitting an element preserves its length and its action

B1: number of pieces and piece length of Drift / Quadrupole / corrector split vs the model (ceil(L/res), L/n, at least one
piece for correctors); B2: split forwards every constructor parameter. F : pieces vs whole on the real code (fals/C16.py).
"""
from __future__ import annotations

from misc_corr import run_split_correspondence
try:
    from fals import C16 as F
except ImportError:  # falsifier module not present
    F = None

META = {
    "level": "proof",
    "rule": 'B1 case = (class, length incl. 0, resolution incl. exact multiples and > length)' + ((" | falsifier: " + F.META.get("rule", "")) if F and hasattr(F, "META") else ""),
    "modelled": 'split of Drift, Quadrupole, correctors, unsplittable elements (Elements.lean); forwarded keywords (Features.lean)',
    "gap": 'vectorised lengths: piece count / sum / resolution are theorems (vector_lengths), tracking of vectorised pieces is falsifier-only',
    "assumptions": ((F.META.get("assumptions", []) if F and hasattr(F, "META") else []) + []),
}


SETTERS = {"Quadrupole": ["k1", "tilt", "misalignment", "length"], "Dipole": ["angle", "k1", "tilt", "length"],
           "RBend": ["angle", "k1", "length"], "Drift": ["length"], "Solenoid": ["k", "length", "misalignment"],
           "HorizontalCorrector": ["angle", "length"], "VerticalCorrector": ["angle", "length"], "Undulator": ["length"],
           "Cavity": ["voltage", "phase", "length"]}


def resplit_case(rep, r: dict) -> None:
    """the pieces are those of the element *as it is now*: split, change a parameter through the public attribute, split
    again - tracking through the new pieces equals tracking through the (changed) whole, lengths add up"""
    import numpy as np
    import torch
    import elements as E
    import lattices as LT
    from fals import C16 as F16
    p, En, P = r["params"], r["energy"], np.array(r["particles"], dtype=float)
    res = torch.tensor(r["resolution"], dtype=torch.float64)
    el = E.build(p)
    first = el.split(res)                                  # noqa: F841  (the first split is the point)
    for attr, fac, add in r["changes"]:
        old = getattr(el, attr)
        setattr(el, attr, old * fac + add)
    pieces = el.split(res)
    cls = p["cls"]
    what = ",".join(sorted(a for a, _, _ in r["changes"]))
    tot = sum(float(q.length) for q in pieces)
    if not abs(tot - float(el.length)) <= 1e-12 * max(1.0, abs(float(el.length))):
        rep.fail("falsifier", f"C16|{cls}.split|after changing {what}|lengths-sum", f"{cls}: after {what} changed, the second split's lengths add up "
                 f"to {tot!r}, the element is {float(el.length)!r} long", r)
        return
    for bt in ("ParticleBeam", "ParameterBeam"):
        if bt == "ParameterBeam" and p.get("method") == "bmadx":
            continue
        b = LT.particle_beam(P, En) if bt == "ParticleBeam" else LT.parameter_beam_from(P, En)
        ref = el.track(b)
        got = F16.fold(pieces, b)
        if cls in ("HorizontalCorrector", "VerticalCorrector"):
            k = 1 if cls == "HorizontalCorrector" else 3
            a_, b_ = (got.particles[..., k], ref.particles[..., k]) if bt == "ParticleBeam" else (got._mu[..., k], ref._mu[..., k])
            d = None if bool(((a_ - b_).abs() <= 1e-9 * torch.clamp(b_.abs().max(), min=2e-5)).all()) else "total deflection differs"
        else:
            d = LT.beams_differ(got, ref, rtol=1e-8)
        if d is not None:
            rep.fail("falsifier", f"C16|{cls}.split|after changing {what}|track {bt}", f"{cls} split, then {what} changed, then split again: the pieces "
                     f"do not track like the element ({bt}): {d}", r)
            return


def resplit_probe(ctx, n: int) -> None:
    import elements as E
    import lattices as LT
    rep, rng = ctx.report, ctx.rng
    kinds = list(SETTERS)
    for i in range(n):
        cls = kinds[i % len(kinds)]
        p = E.gen_params(rng, cls)
        if cls == "Cavity":
            p["V"] = 0.0 if rng.random() < 0.5 else p["V"]
        if p.get("L", 1.0) == 0.0:
            p["L"] = 0.7
        if cls in ("Quadrupole", "Dipole", "RBend", "Drift") and rng.random() < 0.25 and cls != "RBend":
            p["method"] = "bmadx"
            if cls == "Dipole":
                p["k1"] = 0.0
                if p["angle"] == 0.0:
                    p["angle"] = 0.1
            if cls == "Quadrupole" and p["k1"] == 0.0:
                p["k1"] = 1.3
        attrs = SETTERS[cls]
        chosen = [attrs[int(j)] for j in rng.choice(len(attrs), size=int(rng.integers(1, min(2, len(attrs)) + 1)), replace=False)]
        changes = []
        for a in chosen:
            if a == "length" and rng.random() < 0.7:
                continue      # (a changed length alters the number of pieces: keep that for half of the cases only)
            changes.append([a, float(E.pick(rng, 0.5, 2.0, -1.0, 1.5)) if a != "length" else float(E.pick(rng, 0.5, 1.5)),
                            float(E.pick(rng, 0.0, 0.0, 1e-3)) if a != "length" else 0.0])
        if not changes:
            changes = [[attrs[0], 1.5, 1e-3 if attrs[0] != "length" else 0.0]]
        r = {"kind": "resplit", "params": p, "energy": float(E.energy(rng)), "particles": LT.gen_particles(rng, 6).tolist(),
             "resolution": float(p["L"] / float(E.pick(rng, 1.5, 2.5, 3.7, 0.8))), "changes": changes}
        rep.fals_cases += 1
        rep.count(f"probe:resplit:{cls}")
        rep.case(("resplit", cls, tuple(sorted(a for a, _, _ in changes))), None)
        try:
            resplit_case(rep, r)
        except Exception as ex:  # noqa: BLE001
            rep.count(f"resplit:rejected:{type(ex).__name__}")


def fine_weak_case(rep, r: dict) -> None:
    """weak magnets split finely (piece strength*length^2 far below that of the whole), and a resolution given in another
    dtype than the element's: pieces keep the element's dtype, and track like the whole"""
    import numpy as np
    import torch
    import elements as E
    import lattices as LT
    from fals import C16 as F16
    p, En, P = r["params"], r["energy"], np.array(r["particles"], dtype=float)
    dt = {"float32": torch.float32, "float64": torch.float64}
    el = E._build(p, dtype=dt[r["dtype"]])
    res = torch.tensor(r["resolution"], dtype=dt[r["res_dtype"]]) if r["res_dtype"] != "python" else r["resolution"]
    cls = p["cls"]
    try:
        pieces = el.split(res)
    except Exception as e:  # noqa: BLE001
        if r["res_dtype"] == "python":
            return          # (a Python float is not the documented argument type)
        rep.fail("falsifier", f"C16|{cls}.split|{r['tag']}|raises", f"{cls}.split(resolution of dtype {r['res_dtype']}) on a {r['dtype']} element: "
                 f"{type(e).__name__}: {e}", r)
        return
    bad = [str(q.length.dtype) for q in pieces if q.length.dtype != dt[r["dtype"]]]
    if bad:
        rep.fail("falsifier", f"C16|{cls}.split|resolution dtype {r['res_dtype']} on {r['dtype']}|dtype", f"{cls} ({r['dtype']}) split with a "
                 f"{r['res_dtype']} resolution: pieces are {bad[0]}", r)
        return
    if r["dtype"] != "float64" or (cls in F16.SPLITTABLE and cls not in F16.TRACK_EQ):
        return          # (correctors: only the total deflection is claimed, fals/C16.py checks it)
    for bt in ("ParticleBeam", "ParameterBeam"):
        b = LT.particle_beam(P, En) if bt == "ParticleBeam" else LT.parameter_beam_from(P, En)
        d = LT.beams_differ(F16.fold(pieces, b), el.track(b), rtol=1e-8)
        if d is not None:
            rep.fail("falsifier", f"C16|{cls}.split|{r['tag']}|track {bt}", f"{cls} ({', '.join(f'{k}={v!r}' for k, v in p.items() if k != 'cls')}) split "
                     f"into {len(pieces)} pieces: pieces vs whole ({bt}): {d}", r)
            return


def fine_weak_probe(ctx, n: int) -> None:
    import elements as E
    import lattices as LT
    rep, rng = ctx.report, ctx.rng
    for i in range(n):
        cls = ["Quadrupole", "Quadrupole", "Dipole", "Drift", "Solenoid"][i % 5]
        p = LT.tame(E.gen_params(rng, cls))
        if p["L"] == 0.0:
            p["L"] = 0.5
        weak = rng.random() < 0.7
        if weak:
            for k in ("k1", "k", "angle"):
                if k in p:
                    p[k] = float(p[k]) * 10.0 ** float(-rng.uniform(1.0, 4.0))
        npieces = int(E.pick(rng, 3, 17, 60, 150))
        r = {"kind": "fine_weak", "params": p, "energy": float(E.energy(rng)), "particles": LT.gen_particles(rng, 5).tolist(),
             "resolution": float(p["L"]) / (npieces - 0.5), "dtype": E.pick(rng, "float64", "float64", "float32"),
             "res_dtype": E.pick(rng, "float64", "float32", "float64"), "tag": ("weak" if weak else "normal") + f", {'>=50' if npieces >= 50 else '<50'} pieces"}
        rep.fals_cases += 1
        rep.count(f"probe:fine-weak:{cls}:{r['dtype']}/{r['res_dtype']}")
        rep.case(("fine_weak", cls, r["tag"], r["dtype"], r["res_dtype"]), None)
        try:
            fine_weak_case(rep, r)
        except Exception as ex:  # noqa: BLE001
            rep.count(f"fine-weak:rejected:{type(ex).__name__}")


def dtype_grid(ctx) -> None:
    """every splittable class x element dtype x resolution dtype (the combinations are few: all of them, every run)"""
    import elements as E
    import lattices as LT
    rep, rng = ctx.report, ctx.rng
    for cls in ("Drift", "Quadrupole", "Dipole", "RBend", "Solenoid", "HorizontalCorrector", "VerticalCorrector", "Undulator", "Cavity"):
        for dtn in ("float32", "float64"):
            for rdt in ("float32", "float64"):
                p = LT.tame(E.gen_params(rng, cls))
                p["L"] = 0.9
                r = {"kind": "fine_weak", "params": p, "energy": 1e8, "particles": LT.gen_particles(rng, 4).tolist(), "resolution": 0.25,
                     "dtype": dtn, "res_dtype": rdt, "tag": "dtype grid"}
                rep.fals_cases += 1
                rep.count("probe:split-dtype-grid")
                try:
                    fine_weak_case(rep, r)
                except Exception as ex:  # noqa: BLE001
                    rep.count(f"fine-weak:rejected:{type(ex).__name__}")


def run(ctx) -> None:
    dtype_grid(ctx)
    fine_weak_probe(ctx, ctx.n(30, 600))
    resplit_probe(ctx, ctx.n(108, 1800))
    run_split_correspondence(ctx, "C16", ctx.n(80, 2000))
    if F is not None:
        F.run(ctx)


def corpus_case(ctx, r: dict) -> None:
    if r.get("kind") == "resplit":
        return resplit_case(ctx.report, r)
    if r.get("kind") == "fine_weak":
        return fine_weak_case(ctx.report, r)
    if F is not None and hasattr(F, "corpus_case"):
        F.corpus_case(ctx, r)


def replay(ctx, data) -> bool:
    from common import Report
    import types
    c2 = types.SimpleNamespace(**{k: getattr(ctx, k) for k in ("prop", "tier", "seed", "rng", "escalate", "t0", "n")})
    c2.report = Report("C16")
    corpus_case(c2, data["replay"])
    return bool(c2.report.failures)
