"""C12 — dtype is preserved and float64 simulations are float64-accurate

B2: table of default-dtype / cast-on-entry tensor-creation sites regenerated from the AST, theorem: no site outside the
reviewed baseline. B1: the float64 correspondences of C02/C03/C06/C18 are the accuracy tie (model at double vs code ~1e-13).
F : exhaustive dtype audit and mpmath accuracy checks (fals/C12.py).
"""
from __future__ import annotations

from maps_corr import mismatch_failure, run_maps_correspondence
try:
    from fals import C12 as F
except ImportError:  # falsifier module not present
    F = None

META = {
    "level": "proof",
    "rule": 'B1 case = float64 transfer map vs the double-precision model (accuracy tie)' + ((" | falsifier: " + F.META.get("rule", "")) if F and hasattr(F, "META") else ""),
    "modelled": 'tensor-creation sites (syntactic classification, DtypeSites.lean)',
    "gap": 'partial: round-off itself is not a theorem; the site table is a syntactic abstraction',
    "assumptions": ((F.META.get("assumptions", []) if F and hasattr(F, "META") else []) + []),
}


def run(ctx) -> None:
    for p, En, real, model, entry in run_maps_correspondence(ctx, "C12", ctx.n(10, 200)):
        mismatch_failure(ctx.report, "C12", p, En, real, model, entry)
    if F is not None:
        F.run(ctx)


def corpus_case(ctx, r: dict) -> None:
    if F is not None and hasattr(F, "corpus_case"):
        F.corpus_case(ctx, r)


def replay(ctx, data) -> bool:
    from common import Report
    import types
    c2 = types.SimpleNamespace(**{k: getattr(ctx, k) for k in ("prop", "tier", "seed", "rng", "escalate", "t0", "n")})
    c2.report = Report("C12")
    corpus_case(c2, data["replay"])
    return bool(c2.report.failures)
