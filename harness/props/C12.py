"""C12 — dtype is preserved and float64 simulations are float64-accurate

B2: table of default-dtype / cast-on-entry tensor-creation sites regenerated from the AST, theorem: no site outside the
reviewed baseline. B1: the float64 correspondences of C02/C03/C06/C18 are the accuracy tie (model at double vs code ~1e-13).
F : exhaustive dtype audit and mpmath accuracy checks (fals/C12.py).
"""
from __future__ import annotations

from maps_corr import mismatch_failure, run_maps_correspondence
try:
    from fals import C12 as F
except ImportError:  # falsifier module not present
    F = None

META = {
    "level": "proof",
    "rule": 'B1 case = float64 transfer map vs the double-precision model (accuracy tie)' + ((" | falsifier: " + F.META.get("rule", "")) if F and hasattr(F, "META") else ""),
    "modelled": 'tensor-creation sites (syntactic classification, DtypeSites.lean)',
    "gap": 'partial: round-off itself is not a theorem; the site table is a syntactic abstraction',
    "assumptions": ((F.META.get("assumptions", []) if F and hasattr(F, "META") else []) + []),
}


STRENGTHS = {"Quadrupole": ["k1"], "Dipole": ["angle", "k1"], "RBend": ["angle", "k1"], "Solenoid": ["k"],
             "HorizontalCorrector": ["angle"], "VerticalCorrector": ["angle"], "Cavity": ["V"]}


def weak(cls, rng):
    """forced record entries: strengths spread over 1e-9 .. 1 of their usual size (small-argument shortcuts, series
    switch-overs and cancellation live there)"""
    import elements as E
    base = E.gen_params(rng, cls)
    return {k: float(base[k]) * 10.0 ** float(-rng.uniform(1.0, 9.0)) for k in STRENGTHS.get(cls, []) if k in base}


def mp_solenoid_R(L, k, mx, my, En):
    from mpmath import mp, mpf
    L, k, mx, my = [mpf(float(v)) for v in (L, k, mx, my)]
    g = mpf(float(En)) / mpf(F.MC2)
    c, s = mp.cos(L * k), mp.sin(L * k)
    sk = L if k == 0 else s / k
    R = F.mp_eye()
    R[0][0] = c * c; R[0][1] = c * sk; R[0][2] = s * c; R[0][3] = s * sk  # noqa: E702
    R[1][0] = -k * s * c; R[1][1] = c * c; R[1][2] = -k * s * s; R[1][3] = s * c  # noqa: E702
    R[2][0] = -s * c; R[2][1] = -s * sk; R[2][2] = c * c; R[2][3] = c * sk  # noqa: E702
    R[3][0] = k * s * s; R[3][1] = -s * c; R[3][2] = -k * s * c; R[3][3] = c * c  # noqa: E702
    R[4][5] = L / (1 - g * g)
    if mx != 0 or my != 0:
        Rin, Rout = F.mp_eye(), F.mp_eye()
        Rin[0][6] = -mx; Rin[2][6] = -my; Rout[0][6] = mx; Rout[2][6] = my  # noqa: E702
        R = F.mp_mul(Rout, F.mp_mul(R, Rin))
    return R


def map_accuracy_case(rep, r: dict) -> None:
    """float64 (float32) transfer map vs the closed form in 50-digit arithmetic, to round-off of the working dtype
    (row-wise scale)"""
    import numpy as np
    import torch
    import cheetah
    from mpmath import mpf
    dtn, cls = r["dtype"], r["cls"]
    dtype = F.DT[dtn]
    eps = float(torch.finfo(dtype).eps)
    t = lambda x: torch.tensor(x, dtype=dtype)  # noqa: E731
    q = {k: float(F.r32(r[k], dtn)) for k in ("L", "s", "mx", "my", "E")}
    if cls == "Solenoid":
        el = cheetah.Solenoid(length=t(q["L"]), k=t(q["s"]), misalignment=t([q["mx"], q["my"]]), dtype=dtype)
        R = mp_solenoid_R(q["L"], q["s"], q["mx"], q["my"], q["E"])
    else:
        el = cheetah.Quadrupole(length=t(q["L"]), k1=t(q["s"]), misalignment=t([q["mx"], q["my"]]), dtype=dtype)
        R = F.mp_quad_R(q["L"], q["s"], 0.0, q["mx"], q["my"], q["E"])
    got = el.transfer_map(t(q["E"])).to(torch.float64).numpy()
    for i in range(6):
        scale = max(float(abs(R[i][j])) for j in range(6))
        for j in range(7):
            sc = scale if j < 6 else max(scale * max(abs(q["mx"]), abs(q["my"])), 1e-300)
            e = abs(float(mpf(float(got[i, j])) - R[i][j]))
            if not e <= 64 * eps * sc + (1e-11 if cls == "Quadrupole" else 0.0):
                mag = "k*L<1e-3" if abs(q["s"]) * q["L"] ** (1 if cls == "Solenoid" else 2) < 1e-3 else "k*L>=1e-3"
                rep.fail("falsifier", f"C12|accuracy|{cls}.transfer_map|{dtn}|{mag}",
                         f"{cls}(length={q['L']!r}, strength={q['s']!r}).transfer_map in {dtn}: R[{i},{j}] = {float(got[i, j])!r}, closed form "
                         f"{float(R[i][j])!r} ({e / (eps * sc):.3g} eps x row scale)", r)
                return


def map_accuracy_probe(ctx, n: int) -> None:
    import elements as E
    import numpy as np
    rep, rng = ctx.report, ctx.rng
    for _ in range(n):
        cls = ["Solenoid", "Quadrupole"][int(rng.integers(2))]
        s = float(rng.choice([-1.0, 1.0])) * 10.0 ** float(rng.uniform(-9.0, 1.0))
        if rng.random() < 0.1:
            s = 0.0
        mis = rng.random() < 0.3
        r = {"kind": "map_accuracy", "cls": cls, "dtype": ["float64", "float64", "float32"][int(rng.integers(3))],
             "L": float(np.round(rng.uniform(0.05, 2.0), 4)), "s": s, "mx": float(rng.normal(0, 1e-3)) if mis else 0.0,
             "my": float(rng.normal(0, 1e-3)) if mis else 0.0, "E": float(E.energy(rng))}
        rep.fals_cases += 1
        rep.count(f"map_accuracy:{cls}:{r['dtype']}")
        rep.case(("map_accuracy", cls, r["dtype"], int(np.floor(np.log10(abs(s) + 1e-300)))), None)
        map_accuracy_case(rep, r)


def run(ctx) -> None:
    for p, En, real, model, entry in run_maps_correspondence(ctx, "C12", ctx.n(10, 200)):
        mismatch_failure(ctx.report, "C12", p, En, real, model, entry)
    for p, En, real, model, entry in run_maps_correspondence(ctx, "C12", ctx.n(6, 100), force=weak, classes=list(STRENGTHS)):
        mismatch_failure(ctx.report, "C12", p, En, real, model, entry, extra=" [weak-strength sweep]")
    if F is not None:
        map_accuracy_probe(ctx, ctx.n(60, 1500))
    if F is not None:
        F.run(ctx)


def corpus_case(ctx, r: dict) -> None:
    if r.get("kind") == "map_accuracy":
        return map_accuracy_case(ctx.report, r)
    if F is not None and hasattr(F, "corpus_case"):
        F.corpus_case(ctx, r)


def replay(ctx, data) -> bool:
    from common import Report
    import types
    c2 = types.SimpleNamespace(**{k: getattr(ctx, k) for k in ("prop", "tier", "seed", "rng", "escalate", "t0", "n")})
    c2.report = Report("C12")
    corpus_case(c2, data["replay"])
    return bool(c2.report.failures)
