"""C12 — dtype is preserved and float64 simulations are float64-accurate

B2: table of default-dtype / cast-on-entry tensor-creation sites regenerated from the AST, theorem: no site outside the
reviewed baseline. B1: the float64 correspondences of C02/C03/C06/C18 are the accuracy tie (model at double vs code ~1e-13).
F : exhaustive dtype audit and mpmath accuracy checks (fals/C12.py).
"""
from __future__ import annotations

import math
import os

from maps_corr import mismatch_failure, run_maps_correspondence
try:
    from fals import C12 as F
except ImportError:  # falsifier module not present
    F = None

META = {
    "level": "proof",
    "rule": 'B1 case = float64 transfer map vs the double-precision model (accuracy tie)' + ((" | falsifier: " + F.META.get("rule", "")) if F and hasattr(F, "META") else ""),
    "modelled": 'tensor-creation sites (syntactic classification, DtypeSites.lean); PyTorch type promotion over dimensioned / zero-dimensional / Python operands (Promote.lean, tied to torch by op prom)',
    "gap": 'partial: round-off itself is not a theorem; the site table is a syntactic abstraction',
    "assumptions": ((F.META.get("assumptions", []) if F and hasattr(F, "META") else []) + []),
}


STRENGTHS = {"Quadrupole": ["k1"], "Dipole": ["angle", "k1"], "RBend": ["angle", "k1"], "Solenoid": ["k"],
             "HorizontalCorrector": ["angle"], "VerticalCorrector": ["angle"]}
# (the cavity's R-matrix cancels catastrophically for |V| -> 0: a recorded C09 finding, not swept here)


def weak(cls, rng):
    """forced record entries: strengths spread over 1e-9 .. 1 of their usual size (small-argument shortcuts, series
    switch-overs and cancellation live there)"""
    import elements as E
    base = E.gen_params(rng, cls)
    return {k: float(base[k]) * 10.0 ** float(-rng.uniform(1.0, 9.0)) for k in STRENGTHS.get(cls, []) if k in base}


def mp_solenoid_R(L, k, mx, my, En):
    from mpmath import mp, mpf
    L, k, mx, my = [mpf(float(v)) for v in (L, k, mx, my)]
    g = mpf(float(En)) / mpf(F.MC2)
    c, s = mp.cos(L * k), mp.sin(L * k)
    sk = L if k == 0 else s / k
    R = F.mp_eye()
    R[0][0] = c * c; R[0][1] = c * sk; R[0][2] = s * c; R[0][3] = s * sk  # noqa: E702
    R[1][0] = -k * s * c; R[1][1] = c * c; R[1][2] = -k * s * s; R[1][3] = s * c  # noqa: E702
    R[2][0] = -s * c; R[2][1] = -s * sk; R[2][2] = c * c; R[2][3] = c * sk  # noqa: E702
    R[3][0] = k * s * s; R[3][1] = -s * c; R[3][2] = -k * s * c; R[3][3] = c * c  # noqa: E702
    R[4][5] = L / (1 - g * g)
    if mx != 0 or my != 0:
        Rin, Rout = F.mp_eye(), F.mp_eye()
        Rin[0][6] = -mx; Rin[2][6] = -my; Rout[0][6] = mx; Rout[2][6] = my  # noqa: E702
        R = F.mp_mul(Rout, F.mp_mul(R, Rin))
    return R


def map_accuracy_case(rep, r: dict) -> None:
    """float64 (float32) transfer map vs the closed form in 50-digit arithmetic, to round-off of the working dtype
    (row-wise scale)"""
    import numpy as np
    import torch
    import cheetah
    from mpmath import mpf
    dtn, cls = r["dtype"], r["cls"]
    dtype = F.DT[dtn]
    eps = float(torch.finfo(dtype).eps)
    t = lambda x: torch.tensor(x, dtype=dtype)  # noqa: E731
    q = {k: float(F.r32(r[k], dtn)) for k in ("L", "s", "mx", "my", "E")}
    if cls == "Solenoid":
        el = cheetah.Solenoid(length=t(q["L"]), k=t(q["s"]), misalignment=t([q["mx"], q["my"]]), dtype=dtype)
        R = mp_solenoid_R(q["L"], q["s"], q["mx"], q["my"], q["E"])
    else:
        el = cheetah.Quadrupole(length=t(q["L"]), k1=t(q["s"]), misalignment=t([q["mx"], q["my"]]), dtype=dtype)
        R = F.mp_quad_R(q["L"], q["s"], 0.0, q["mx"], q["my"], q["E"])
    got = el.transfer_map(t(q["E"])).to(torch.float64).numpy()
    # conditioning: the phase advance phi = k*L (sqrt(|k1|)*L) carries a relative round-off, i.e. an absolute error
    # phi*eps in the argument of sin / cos / sinh / cosh
    phi = abs(q["s"]) * q["L"] if cls == "Solenoid" else math.sqrt(abs(q["s"])) * q["L"]
    cond = 1.0 + phi
    for i in range(6):
        scale = max(float(abs(R[i][j])) for j in range(6))
        for j in range(7):
            sc = scale if j < 6 else max(scale * max(abs(q["mx"]), abs(q["my"])), 1e-300)
            e = abs(float(mpf(float(got[i, j])) - R[i][j]))
            if not e <= 64 * eps * sc * cond + (1e-11 if cls == "Quadrupole" else 0.0):
                mag = "k*L<1e-3" if abs(q["s"]) * q["L"] ** (1 if cls == "Solenoid" else 2) < 1e-3 else "k*L>=1e-3"
                rep.fail("falsifier", f"C12|accuracy|{cls}.transfer_map|{dtn}|{mag}",
                         f"{cls}(length={q['L']!r}, strength={q['s']!r}).transfer_map in {dtn}: R[{i},{j}] = {float(got[i, j])!r}, closed form "
                         f"{float(R[i][j])!r} ({e / (eps * sc):.3g} eps x row scale)", r)
                return


_F32_STAT: list = []


def f32_case(rep, r: dict) -> None:
    """"the float32 result of the same simulation agrees with it to float32 round-off": Bmad-X elements (incl. weak
    strengths), the same float32-representable inputs tracked in float32 and in float64"""
    import numpy as np
    import torch
    import bmadx_corr
    import elements as E
    import lattices as LT
    p, En = r["params"], float(np.float32(r["energy"]))
    P = np.array(r["particles"], dtype=np.float32).astype(float)
    q = {k: (float(np.float32(v)) if isinstance(v, float) else v) for k, v in p.items()}
    out = {}
    for dtn, dt in (("float32", torch.float32), ("float64", torch.float64)):
        if q["cls"] == "Dipole":
            el = bmadx_corr.build_bend(q).to(dt) if dt == torch.float64 else None
            tt = lambda x: torch.tensor(x, dtype=dt)  # noqa: E731
            import cheetah
            el = cheetah.Dipole(length=tt(q["L"]), angle=tt(q["angle"]), dipole_e1=tt(q["e1"]), dipole_e2=tt(q["e2"]), tilt=tt(q["tilt"]),
                                gap=tt(q["gap"]), gap_exit=tt(q["gapx"]), fringe_integral=tt(q["fint"]), fringe_integral_exit=tt(q["fintx"]),
                                fringe_at=q["fringe_at"], tracking_method="bmadx", dtype=dt)
        else:
            el = E.build(q, dtype=dt)
        import cheetah
        b = cheetah.ParticleBeam(torch.tensor(P, dtype=dt), torch.tensor(En, dtype=dt), dtype=dt)
        out[dtn] = el.track(b).particles.to(torch.float64).numpy()
    a, b = out["float32"], out["float64"]
    if not np.all(np.isfinite(b)) or np.abs(b[:, [0, 2]]).max() > 1.0 or np.abs(b[:, [1, 3]]).max() > 0.3:
        return          # (outside the paraxial regime: over-focused beam)
    # float32 round-off at the scale of the intermediate quantities of the Bmad-X formulas: momenta are handled as
    # 1 + pz, sqrt((1+pz)^2 - px^2 - py^2) (scale 1), positions and path lengths as sums of terms of size L
    L = abs(q.get("L", 0.0))
    amp = np.abs(P).max(axis=0)
    scale = np.array([L + amp[0], 1.0, L + amp[2], 1.0, L + amp[4], 1.0])
    eps = float(np.finfo(np.float32).eps)
    K = float(os.environ.get("VERIF_F32_K", "64"))
    err = np.abs(a - b)[:, :6] / (K * eps * scale)
    _F32_STAT.append(float(np.nanmax(err)) * K)
    if q["cls"] in ("Quadrupole", "Drift") and not any(q.get(k, 0.0) for k in ("mx", "my", "tilt")):
        # transverse positions (aligned magnets: no cancellation against the misalignment) of drifts / quadrupoles: forward-error scale |x| + L|px| per particle, 20 eps32 (clean tree:
        # <= 5.4 eps32 over 1500 long / weak / strong magnets)
        ap = np.abs(P)
        amp_f = math.cosh(min(math.sqrt(abs(q.get("k1", 0.0))) * L, 30.0))      # growth in the defocusing plane
        for j, sc in ((0, ap[:, 0] + L * ap[:, 1]), (2, ap[:, 2] + L * ap[:, 3])):
            e = np.abs(a[:, j] - b[:, j]) / (20 * eps * amp_f * np.maximum(sc, 1e-30))
            if not np.all(e <= 1.0):
                i = int(np.argmax(e))
                rep.fail("falsifier", f"C12|float32-vs-float64|{F.COORD[j]}|{E.config_key(p)[0]}(bmadx)|{'long' if L >= 3 else 'short'}, per-particle scale",
                         f"{p['cls']}(bmadx) ({', '.join(f'{k}={v!r}' for k, v in q.items() if k not in ('cls', 'method'))}) at {En!r} eV: particle {i} "
                         f"{F.COORD[j]} = {a[i, j]!r} in float32, {b[i, j]!r} in float64 ({e[i] * 20:.3g} float32 eps x (|x| + L|px|))", r)
                return
    if not np.all(err <= 1.0):
        i, j = np.unravel_index(int(np.argmax(np.nan_to_num(err, nan=np.inf))), err.shape)
        weak = "weak" if r.get("weak") else "normal"
        rep.fail("falsifier", f"C12|float32-vs-float64|{F.COORD[j]}|{E.config_key(p)[0]}(bmadx)|{weak} strength",
                 f"{p['cls']}(bmadx) ({', '.join(f'{k}={v!r}' for k, v in q.items() if k not in ('cls', 'method'))}) at {En!r} eV: particle {i} "
                 f"{F.COORD[j]} = {a[i, j]!r} in float32, {b[i, j]!r} in float64 ({err[i, j] * K:.3g} float32 eps x scale)", r)


def mixed_args_case(rep, r: dict) -> None:
    """a float64 beam handed default-dtype (float32) tensors as *arguments* — `transformed_to(mu_x=torch.tensor(1e-3))` —
    must give what it gives when handed the same numbers as float64 tensors: the beam's own float64 quantities may not be
    routed through the argument's dtype"""
    import numpy as np
    import torch
    import lattices as LT
    P, En = np.array(r["particles"], dtype=float), r["energy"]
    b = LT.particle_beam(P, En) if r["beam"] == "ParticleBeam" else LT.parameter_beam_from(P, En)
    kw32 = {k: torch.tensor(v, dtype=torch.float32) for k, v in r["args"].items()}
    kw64 = {k: v.to(torch.float64) for k, v in kw32.items()}        # the same numbers
    try:
        a, c = b.transformed_to(**kw32), b.transformed_to(**kw64)
    except Exception as ex:
        rep.count(f"mixed-args-rejected:{type(ex).__name__}")
        return
    va = a.particles if r["beam"] == "ParticleBeam" else torch.cat([a._mu.reshape(-1), a._cov.reshape(-1)])
    vc = c.particles if r["beam"] == "ParticleBeam" else torch.cat([c._mu.reshape(-1), c._cov.reshape(-1)])
    if va.dtype != torch.float64:
        rep.fail("falsifier", f"C12|transformed_to|float32 argument {sorted(r['args'])}|{r['beam']}|dtype",
                 f"{r['beam']}.transformed_to({sorted(r['args'])} as float32 tensors) on a float64 beam returns {va.dtype}", r)
        return
    # what the float32 arguments determine may carry float32 round-off (a function of a float32 number); everything else —
    # the planes no argument speaks about — is the beam's own float64 data and must not be touched by the argument's dtype
    PLANE = {"mu_x": 0, "sigma_x": 0, "mu_px": 1, "sigma_px": 1, "mu_y": 2, "sigma_y": 2, "mu_py": 3, "sigma_py": 3, "sigma_tau": 4, "sigma_p": 5}
    touched = {PLANE[k] for k in r["args"]}
    if r["beam"] == "ParticleBeam":
        A, C = a.particles.detach().numpy(), c.particles.detach().numpy()
        worst = 0.0
        for j in range(6):
            if j in touched:
                continue
            sc = np.abs(C[:, j]).max() + 1e-300
            worst = max(worst, float(np.nanmax(np.abs(A[:, j] - C[:, j])) / sc))
    else:
        mA, mC = a._mu.detach().numpy(), c._mu.detach().numpy()
        cA, cC = a._cov.detach().numpy(), c._cov.detach().numpy()
        sd = np.sqrt(np.abs(np.diag(cC))) + 1e-300
        worst = 0.0
        for j in range(6):
            if j in touched:
                continue
            worst = max(worst, abs(mA[j] - mC[j]) / (abs(mC[j]) + sd[j]))
            for l in range(6):
                if l not in touched:
                    worst = max(worst, abs(cA[j, l] - cC[j, l]) / (sd[j] * sd[l]))
    if not worst <= 1e-13:
        rep.fail("falsifier", f"C12|transformed_to|float32 argument {sorted(r['args'])}|{r['beam']}|value",
                 f"{r['beam']}.transformed_to({sorted(r['args'])} as float32 tensors) on a float64 beam: the planes no argument speaks about differ from the "
                 f"call with the same numbers as float64 tensors by {worst!r} relative (the beam's own float64 quantities went through float32)", r)


def mixed_args_probe(ctx, n: int) -> None:
    import elements as E
    import lattices as LT
    rep, rng = ctx.report, ctx.rng
    names = ["mu_x", "mu_y", "mu_px", "mu_py", "sigma_x", "sigma_y", "sigma_px", "sigma_py", "sigma_tau", "sigma_p"]
    for i in range(n):
        k = names[i % len(names)]
        args = {k: float(E.pick(rng, 1e-3, 2.5e-4, 3.3e-5))}
        if rng.random() < 0.4:
            k2 = names[int(rng.integers(len(names)))]
            args[k2] = float(E.pick(rng, 1e-3, 2.5e-4, 3.3e-5))
        r = {"kind": "mixed_args", "args": args, "beam": ["ParticleBeam", "ParameterBeam"][i % 2], "energy": float(E.energy(rng)),
             "particles": LT.gen_particles(rng, 16).tolist()}
        rep.fals_cases += 1
        rep.count("probe:mixed-args")
        rep.case(("mixed_args", k, r["beam"]), None)
        mixed_args_case(rep, r)


def f32_probe(ctx, n: int) -> None:
    import bmadx_corr
    import elements as E
    import lattices as LT
    rep, rng = ctx.report, ctx.rng
    for i in range(n):
        kind = ["Drift", "Quadrupole", "Dipole"][i % 3]
        weak = bool(rng.random() < 0.6)
        if kind == "Dipole":
            p = bmadx_corr.gen_bend(rng)
        else:
            p = E.gen_params(rng, kind, force={"method": "bmadx"})
            if p["L"] == 0.0:
                p["L"] = 0.4
            if rng.random() < 0.4:          # long magnets in one step, weak or switched off
                p["L"] = float(E.pick(rng, 6.0, 8.0, 10.0, 12.0))
                if kind == "Quadrupole":
                    p["k1"] = float(E.pick(rng, 0.0, 1 / 64, -1 / 32, 0.02)) 
                    p["num_steps"] = 1
                    p["tilt"], p["mx"], p["my"] = 0.0, 0.0, 0.0
        if weak:
            for k in ("k1", "angle"):
                if k in p and not (kind == "Dipole" and k == "k1"):
                    p[k] = float(p[k]) * 10.0 ** float(-rng.uniform(1.0, 5.0))
        Pp = LT.gen_particles(rng, 6)
        Pp[0, [1, 3, 5]] = 0.0            # pure offsets (the forward-error scale of x is then |x| alone)
        Pp[1, [1, 3]] = 0.0
        r = {"kind": "f32_vs_f64", "params": p, "energy": float(E.energy(rng)), "particles": Pp.tolist(), "weak": weak}
        rep.fals_cases += 1
        rep.count(f"f32-vs-f64:{kind}:{'weak' if weak else 'normal'}")
        rep.case(("f32", kind, weak), None)
        try:
            f32_case(rep, r)
        except Exception as ex:  # noqa: BLE001
            rep.count(f"f32:rejected:{type(ex).__name__}")


def map_accuracy_probe(ctx, n: int) -> None:
    import elements as E
    import numpy as np
    rep, rng = ctx.report, ctx.rng
    for _ in range(n):
        cls = ["Solenoid", "Quadrupole"][int(rng.integers(2))]
        s = float(rng.choice([-1.0, 1.0])) * 10.0 ** float(rng.uniform(-9.0, 1.0))
        if rng.random() < 0.1:
            s = 0.0
        mis = rng.random() < 0.3
        r = {"kind": "map_accuracy", "cls": cls, "dtype": ["float64", "float64", "float32"][int(rng.integers(3))],
             "L": float(np.round(rng.uniform(0.05, 2.0), 4)), "s": s, "mx": float(rng.normal(0, 1e-3)) if mis else 0.0,
             "my": float(rng.normal(0, 1e-3)) if mis else 0.0, "E": float(E.energy(rng))}
        rep.fals_cases += 1
        rep.count(f"map_accuracy:{cls}:{r['dtype']}")
        rep.case(("map_accuracy", cls, r["dtype"], int(np.floor(np.log10(abs(s) + 1e-300)))), None)
        map_accuracy_case(rep, r)


def run(ctx) -> None:
    from prom_corr import run_prom_correspondence
    run_prom_correspondence(ctx, "C12", ctx.n(300, 6000))
    for p, En, real, model, entry in run_maps_correspondence(ctx, "C12", ctx.n(10, 200)):
        mismatch_failure(ctx.report, "C12", p, En, real, model, entry)
    for p, En, real, model, entry in run_maps_correspondence(ctx, "C12", ctx.n(6, 100), force=weak, classes=list(STRENGTHS)):
        mismatch_failure(ctx.report, "C12", p, En, real, model, entry, extra=" [weak-strength sweep]")
    import bmadx_corr
    bmadx_corr.report_mismatches(ctx.report, "C12", bmadx_corr.run_bmadx_correspondence(ctx, "C12", ctx.n(10, 200), weak=True))
    if F is not None:
        map_accuracy_probe(ctx, ctx.n(60, 1500))
        f32_probe(ctx, ctx.n(30, 600))
        mixed_args_probe(ctx, ctx.n(20, 400))
    if F is not None:
        F.run(ctx)


def corpus_case(ctx, r: dict) -> None:
    if r.get("kind") == "map_accuracy":
        return map_accuracy_case(ctx.report, r)
    if r.get("kind") == "f32_vs_f64":
        return f32_case(ctx.report, r)
    if r.get("kind") == "mixed_args":
        return mixed_args_case(ctx.report, r)
    if F is not None and hasattr(F, "corpus_case"):
        F.corpus_case(ctx, r)


def replay(ctx, data) -> bool:
    from common import Report
    import types
    c2 = types.SimpleNamespace(**{k: getattr(ctx, k) for k in ("prop", "tier", "seed", "rng", "escalate", "t0", "n")})
    c2.report = Report("C12")
    corpus_case(c2, data["replay"])
    return bool(c2.report.failures)
