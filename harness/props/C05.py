"""C05 — autograd gradients equal the true derivatives and are finite

B1 (rev): random expression programs incl. the guard idioms at the guard — torch.autograd.grad vs the reverse-mode model Ex.back.
B1: torch.autograd gradients of all 49 entries of Quadrupole.transfer_map w.r.t. each parameter vs the tangents of the
Lean model on dual numbers (quadMapDual at Dual Float), guard points included.
F : autograd vs central finite differences on the real code (fals/C05.py).
"""
from __future__ import annotations

from dual_corr import run_dual_correspondence
from rev_corr import run_rev_correspondence
try:
    from fals import C05 as F
except ImportError:  # falsifier module not present
    F = None

META = {
    "level": "proof",
    "rule": 'B1 case = (quadrupole record, energy, differentiation variable)' + ((" | falsifier: " + F.META.get("rule", "")) if F and hasattr(F, "META") else ""),
    "modelled": 'forward-mode derivative pairs (Dual.lean) through the linear-map model incl. the in-place guard k1[k1==0]=1e-12',
    "gap": 'partial: the reverse-mode engine is modelled over expression programs (Reverse.lean, tied to torch.autograd by op rev) and proved equal to forward mode / the derivative; Cheetah\'s own formulas reach those theorems through the dual-number correspondence, their HasDerivAt proofs cover the focusing functions, R[1,0] and the drift R56; other functions by B1/F',
    "assumptions": ((F.META.get("assumptions", []) if F and hasattr(F, "META") else []) + ['B1 tolerance 1e6 eps relative to the largest gradient entry']),
}


def run(ctx) -> None:
    run_dual_correspondence(ctx, "C05", ctx.n(80, 2000))
    run_rev_correspondence(ctx, "C05", ctx.n(400, 20000))
    if F is not None:
        F.run(ctx)


def corpus_case(ctx, r: dict) -> None:
    if F is not None and hasattr(F, "corpus_case"):
        F.corpus_case(ctx, r)


def replay(ctx, data) -> bool:
    from common import Report
    import types
    c2 = types.SimpleNamespace(**{k: getattr(ctx, k) for k in ("prop", "tier", "seed", "rng", "escalate", "t0", "n")})
    c2.report = Report("C05")
    corpus_case(c2, data["replay"])
    return bool(c2.report.failures)
