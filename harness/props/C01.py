"""C01 — Segment tracking is the ordered composition of its elements.

B1 (i)  exact: the real Segment algorithms on integer stub elements vs the Lean model `Lat.*` over Int.
B1 (ii) contract: for every real element in every skippable configuration, `e.track(b)` equals the action of
        `e.transfer_map(b.energy)` on b and leaves the energy unchanged (the hypothesis `Sem.Lawful.contract`).
F       random lattices of real elements: `Segment.track` vs a Python fold of `element.track`; regrouped, flattened,
        cut into sub-cells; `length`.
"""
from __future__ import annotations

import numpy as np
import torch

import cheetah
import elements as E
import lattices as LT
import stubs as ST
from common import LeanDriver

META = {
    "level": "proof",
    "rule": "stub case = random nested lattice (<=10 integer stub leaves, depth<=3, runs of skippables of every length) "
            "x op in {trackP, trackM, skip, tmap, flat, length, subcell}; real case = random lattice of real elements "
            "(all kinds incl. Bmad-X, active cavities, apertures, diagnostics) x beam type x regrouping; distinct = "
            "distinct (tree shape with skip pattern) / distinct class sequence",
    "modelled": "Segment.track / transfer_map / is_skippable / flattened / subcell / length, Element.track "
                "(segment.py, element.py) as Lat.* over an abstract semantics record",
    "gap": "none for the algorithm (proved for every lattice and every lawful semantics); the per-element contract is "
           "checked by sampling every class/configuration, not proved",
    "assumptions": ["float tolerance 1e-9 relative per coordinate between Segment.track and the element-wise fold"],
}


# ------------------------------------------------------------------------------------------------
# (i) stub correspondence
# ------------------------------------------------------------------------------------------------
def stub_correspondence(ctx, n_cases: int) -> None:
    rep, rng = ctx.report, ctx.rng
    drv = LeanDriver()
    pend = []
    for _ in range(n_cases):
        case = ST.Case(rng)
        seg = case.build()
        st, tr = case.stub_tokens(), case.tree_tokens()
        desc = case.describe()
        # trackP
        pb, pbt = ST.rand_pbeam(rng)
        pend.append(("trackP", desc, drv.raw(f"lat trackP {st} {tr} {pbt}"), "T " + ST.show_pbeam(seg.track(pb))))
        # trackM
        mb, mbt = ST.rand_mbeam(rng)
        pend.append(("trackM", desc, drv.raw(f"lat trackM {st} {tr} {mbt}"), "T " + ST.show_mbeam(seg.track(mb))))
        # fold of element.track on the real elements vs Lean seq
        b = pb
        for el in seg.elements:
            b = el.track(b)
        pend.append(("seqP", desc, drv.raw(f"lat seqP {st} {tr} {pbt}"), "T " + ST.show_pbeam(b)))
        pend.append(("skip", desc, drv.raw(f"lat skip {st} {tr}"), "T " + ("1" if seg.is_skippable else "0")))
        en = int(rng.integers(10, 14))
        tm = seg.transfer_map(torch.tensor(float(en), dtype=torch.float64))
        pend.append(("tmap", desc, drv.raw(f"lat tmap {st} {tr} {en}"),
                     "T NONE" if tm is None else "T " + " ".join(str(int(v)) for v in tm.reshape(-1).tolist())))
        pend.append(("flat", desc, drv.raw(f"lat flat {st} {tr}"), "T " + ST.show_real(seg.flattened())))
        pend.append(("length", desc, drv.raw(f"lat length {st} {tr}"), "T " + str(int(float(seg.length)))))
        names = case.top_names()
        pool = names + [999]
        s, e = int(pool[int(rng.integers(len(pool)))]), int(pool[int(rng.integers(len(pool)))])
        sub = seg.subcell(str(s), str(e))
        pend.append(("subcell", {**desc, "start": s, "end": e}, drv.raw(f"lat subcell {st} {tr} {s} {e}"),
                     "T " + " ".join(el.name for el in sub.elements)))
    replies = drv.run()
    for op, desc, idx, real in pend:
        rep.corr_cases += 1
        rep.count("stub:" + op)
        rep.case(("stub", op, str(desc["tree"])), {"op": op, **desc} if op == "trackP" else None)
        model = replies[idx]
        model = model if isinstance(model, str) else "T " + " ".join(str(int(x)) for x in model)
        if model.strip() != real.strip():
            ctx.escalate = True
            rep.fail("correspondence", f"C01|stub|{op}",
                     f"Segment.{op} on integer stub elements differs from the Lean model Lat.{op}",
                     {"kind": "stub", "op": op, "case": desc, "code": real[:400], "model": model[:400],
                      "broken": f"correspondence Segment <-> CheetahModel.Lattice ({op}); theorem C01.track_seg_eq_seq "
                                "no longer speaks about this code"}, found_input=False)


# ------------------------------------------------------------------------------------------------
# (ii) the linear contract on real elements
# ------------------------------------------------------------------------------------------------
CONTRACT_KINDS = ["Drift", "Quadrupole", "Dipole", "RBend", "Solenoid", "HorizontalCorrector", "VerticalCorrector",
                  "Undulator", "OffCavity", "Marker", "BPM", "Screen", "Aperture", "CustomTransferMap"]


def act_map(tm: torch.Tensor, b):
    if isinstance(b, cheetah.ParticleBeam):
        return cheetah.ParticleBeam(torch.matmul(b.particles, tm.transpose(-2, -1)), b.energy,
                                    particle_charges=b.particle_charges,
                                    survival_probabilities=b.survival_probabilities, dtype=torch.float64)
    mu = torch.matmul(tm, b._mu.unsqueeze(-1)).squeeze(-1)
    cov = torch.matmul(tm, torch.matmul(b._cov, tm.transpose(-2, -1)))
    return cheetah.ParameterBeam(mu, cov, b.energy, total_charge=b.total_charge, dtype=torch.float64)


def contract_check(ctx, per_kind: int) -> None:
    rep, rng = ctx.report, ctx.rng
    for kind in CONTRACT_KINDS:
        for _ in range(per_kind):
            r = LT.gen_record(rng, kind)
            if r["cls"] in ("BPM", "Screen", "Aperture"):
                r["active"] = False
            En = E.energy(rng)
            P = LT.gen_particles(rng, 12)
            for bt in ("ParticleBeam", "ParameterBeam"):
                b = LT.particle_beam(P, En) if bt == "ParticleBeam" else LT.parameter_beam_from(P, En)
                try:
                    el = E.build(r)
                    if not el.is_skippable:
                        continue
                    out = el.track(b)
                    ref = act_map(el.transfer_map(b.energy), b)
                except Exception as ex:
                    rep.count(f"contract-rejected:{kind}:{type(ex).__name__}")
                    continue
                rep.corr_cases += 1
                rep.count("contract:" + kind)
                rep.case(("contract", kind, bt))
                d = LT.beams_differ(out, ref)
                if d is not None:
                    rep.fail("falsifier", f"C01|contract|{LT.class_seq([r])}|{bt}",
                             f"skippable {LT.class_seq([r])}.track({bt}) is not the action of its transfer_map: {d}",
                             {"kind": "contract", "record": r, "energy": En, "beam": bt, "particles": P.tolist(),
                              "diff": d})


# ------------------------------------------------------------------------------------------------
# falsifier on real lattices
# ------------------------------------------------------------------------------------------------
def fold_track(elements, b):
    for el in elements:
        b = el.track(b)
    return b


def seg_vs_fold(recs, P, En, bt, variant: str):
    """returns description of difference or None; builds fresh elements for both sides"""
    b = LT.particle_beam(P, En) if bt == "ParticleBeam" else LT.parameter_beam_from(P, En)
    if bt == "ParameterBeam" and any(r.get("method") == "bmadx" or r["cls"] == "SpaceChargeKick" for r in LT.leaves(recs)):
        return None
    ref = fold_track(LT.build_elements(LT.leaves(recs)), b)
    seg = LT.build_segment(recs)
    if variant == "plain":
        out = seg.track(b)
        again = seg.track(b)            # the same Segment object once more: tracking may not leave anything behind
        d2 = LT.beams_differ(again, out)
        if d2 is not None:
            return "second track of the same Segment differs from the first: " + d2
    elif variant == "flattened":
        out = seg.flattened().track(b)
    elif variant == "cut":
        els = list(seg.elements)
        k = len(els) // 2
        out = cheetah.Segment(els[k:]).track(cheetah.Segment(els[:k]).track(b)) if 0 < k < len(els) else seg.track(b)
    else:
        raise ValueError(variant)
    return LT.beams_differ(out, ref)


def falsifier(ctx, n: int) -> None:
    rep, rng = ctx.report, ctx.rng
    for _ in range(n):
        flat = LT.gen_lattice(rng, 8, dup_names=0.15)
        recs = LT.nest(rng, flat)
        En = E.energy(rng)
        P = LT.gen_particles(rng, 16)
        for bt in ("ParticleBeam", "ParameterBeam"):
            for variant in ("plain", "flattened", "cut"):
                rep.fals_cases += 1
                rep.count(f"real:{bt}:{variant}")
                rep.case(("real", LT.class_seq(recs), bt, variant),
                         {"lattice": LT.class_seq(recs), "beam": bt} if variant == "plain" else None)
                try:
                    d = seg_vs_fold(recs, P, En, bt, variant)
                except Exception as ex:
                    rep.count(f"real-exception:{type(ex).__name__}")
                    d = None
                if d is None:
                    continue

                def fails(cand, _bt=bt, _v=variant):
                    return seg_vs_fold(cand, P, En, _bt, _v) is not None
                small = LT.shrink_tree(recs, fails)
                d2 = seg_vs_fold(small, P, En, bt, variant) or d
                rep.fail("falsifier", f"C01|Segment.track!=fold|{LT.class_seq(small)}|{bt}",
                         f"Segment([{LT.class_seq(small)}]).track({bt}) [{variant}] differs from element-by-element "
                         f"tracking: {d2}",
                         {"kind": "lattice", "records": small, "energy": En, "beam": bt, "variant": variant,
                          "particles": P.tolist(), "diff": d2})
        # length
        seg = LT.build_segment(recs)
        tot = sum(float(r.get("L", 0.0)) for r in LT.leaves(recs))
        if not abs(float(seg.length) - tot) <= 1e-9 * max(1.0, tot) or not abs(float(seg.flattened().length) - tot) <= 1e-9 * max(1.0, tot):
            rep.fail("falsifier", "C01|Segment.length", f"Segment.length {float(seg.length)} != sum of element lengths {tot}",
                     {"kind": "length", "records": recs})
    # empty segment (reachable through subcell)
    try:
        l0 = float(cheetah.Segment([]).length)
        if l0 != 0.0:
            raise ValueError(l0)
    except Exception as ex:
        rep.fail("falsifier", "C01|Segment([]).length", f"length of an empty segment: {type(ex).__name__}: {ex}",
                 {"kind": "empty-length"})


def shared_case(r: dict):
    """the same element object (a drift used after every magnet) and the same sub-segment object (a repeated cell) occur
    several times in one lattice — the ordinary way a FODO channel is written.  Every occurrence counts: `flattened()`
    lists them all in order, the length is the sum over occurrences, tracking equals element-by-element tracking of the
    expansion"""
    t = lambda v: torch.tensor(v, dtype=torch.float64)  # noqa: E731
    P, En = np.array(r["particles"], dtype=float), r["energy"]
    d = cheetah.Drift(length=t(r["Ld"]), name="d", dtype=torch.float64)
    qf = cheetah.Quadrupole(length=t(0.2), k1=t(r["k1"]), name="qf", dtype=torch.float64)
    qd = cheetah.Quadrupole(length=t(0.2), k1=t(-r["k1"]), name="qd", dtype=torch.float64)
    cell = cheetah.Segment([qf, d, qd, d], name="cell")
    mid = {"bpm": lambda: cheetah.BPM(is_active=True, name="m"), "marker": lambda: cheetah.Marker(name="m"),
           "cavity": lambda: cheetah.Cavity(length=t(0.3), voltage=t(3e6), phase=t(10.0), frequency=t(1.3e9), name="m", dtype=torch.float64)}[r["mid"]]()
    top = {"cells": [cell, mid, cell, cell], "shared-drift": [cheetah.Segment([qf, d], name="a"), mid, cheetah.Segment([qd, d], name="b"), d],
           "flat": [qf, d, mid, qd, d, qf, d]}[r["layout"]]
    seg = cheetah.Segment(top, name="line")

    def expand(e):
        return [x for c in e.elements for x in expand(c)] if isinstance(e, cheetah.Segment) else [e]
    want = expand(seg)
    flat = seg.flattened().elements
    if [e.name for e in flat] != [e.name for e in want] or any(a is not b for a, b in zip(flat, want)):
        return "flattened", f"flattened() lists {[e.name for e in flat]}, the lattice expands to {[e.name for e in want]}"
    Ls = sum(float(e.length) for e in want)
    for nm, L in (("length", seg.length), ("flattened().length", seg.flattened().length)):
        if not abs(float(L) - Ls) <= 1e-12 * max(Ls, 1.0):
            return "length", f"{nm} = {float(L)!r}, the occurrences add up to {Ls!r}"
    for bt in ("ParticleBeam", "ParameterBeam"):
        mk = (lambda: LT.particle_beam(P, En)) if bt == "ParticleBeam" else (lambda: LT.parameter_beam_from(P, En))
        ref = mk()
        for e in want:
            ref = e.track(ref)
        for nm, s2 in (("Segment.track", seg), ("flattened().track", seg.flattened())):
            d2 = LT.beams_differ(s2.track(mk()), ref, rtol=1e-10)
            if d2 is not None:
                return "track", f"{nm} ({bt}) differs from element-by-element tracking of the expansion: {d2}"
    return None


def shared_probe(ctx, n: int) -> None:
    rep, rng = ctx.report, ctx.rng
    layouts, mids = ["cells", "shared-drift", "flat"], ["bpm", "marker", "cavity"]
    for i in range(n):
        r = {"kind": "shared", "layout": layouts[i % 3], "mid": mids[(i // 3) % 3], "Ld": float(E.pick(rng, 0.3, 0.5, 1.1)),
             "k1": float(E.pick(rng, 1.5, 3.0, 6.0)), "energy": float(E.energy(rng)), "particles": LT.gen_particles(rng, 6).tolist()}
        rep.fals_cases += 1
        rep.count("shared-objects:" + r["layout"])
        rep.case(("shared", r["layout"], r["mid"]), None)
        f = shared_case(r)
        if f is not None:
            rep.fail("falsifier", f"C01|Segment|element objects used several times ({r['layout']})|{f[0]}",
                     f"lattice with repeated element objects ({r['layout']}, {r['mid']} in the middle): {f[1]}", r)


def vector_length_case(r: dict):
    """vectorised element lengths: the segment's length is the broadcast sum of the element lengths, entry by entry (also
    nested and flattened), and has the vector shape of the tracked beam"""
    t = lambda v: torch.tensor(v, dtype=torch.float64)  # noqa: E731
    els = [cheetah.Drift(length=t(L), name=f"d{i}", dtype=torch.float64) for i, L in enumerate(r["lengths"])]
    q = cheetah.Quadrupole(length=t(0.2), k1=t(2.0), name="q", dtype=torch.float64)
    inner = cheetah.Segment(els[1:] + [q], name="inner")
    seg = cheetah.Segment([els[0], inner] if r["nested"] else els + [q], name="line")
    want = sum(np.asarray(L, dtype=float) for L in r["lengths"]) + 0.2
    for nm, L in (("length", seg.length), ("flattened().length", seg.flattened().length)):
        got = L.detach().numpy()
        if got.shape != np.shape(want) or not np.all(np.abs(got - want) <= 1e-12 * np.maximum(np.abs(want), 1.0)):
            return f"{nm} = {got.tolist()} (shape {got.shape}), the element lengths add up to {np.asarray(want).tolist()}"
    out = seg.track(LT.parameter_beam_from(np.array(r["particles"], dtype=float), r["energy"]))
    if tuple(out._mu.shape[:-1]) != np.shape(want):
        return f"tracked beam has vector shape {tuple(out._mu.shape[:-1])}, length {np.shape(want)}"
    return None


def vector_length_probe(ctx, n: int) -> None:
    rep, rng = ctx.report, ctx.rng
    for i in range(n):
        B = 2 + i % 2
        lengths = [rng.uniform(0.2, 2.0, size=B).tolist() if (j == i % 3 or rng.random() < 0.3) else float(rng.uniform(0.2, 2.0)) for j in range(3)]
        r = {"kind": "vector_length", "lengths": lengths, "nested": bool(i % 2), "energy": float(E.energy(rng)),
             "particles": LT.gen_particles(rng, 5).tolist()}
        rep.fals_cases += 1
        rep.count("vector-length")
        rep.case(("vector_length", B, r["nested"]), None)
        f = vector_length_case(r)
        if f is not None:
            rep.fail("falsifier", "C01|Segment.length|vectorised element lengths", f"segment of drifts with lengths {lengths}: {f}", r)


def run(ctx) -> None:
    stub_correspondence(ctx, ctx.n(60, 1500))
    contract_check(ctx, ctx.n(6, 120))
    shared_probe(ctx, ctx.n(9, 90))
    vector_length_probe(ctx, ctx.n(6, 60))
    falsifier(ctx, ctx.n(25, 600))


def replay(ctx, data) -> bool:
    r = data["replay"]
    if r.get("kind") == "shared":
        return shared_case(r) is not None
    if r.get("kind") == "vector_length":
        return vector_length_case(r) is not None
    if r.get("kind") == "lattice":
        P = np.array(r["particles"])
        return seg_vs_fold(r["records"], P, r["energy"], r["beam"], r["variant"]) is not None
    if r.get("kind") == "contract":
        P = np.array(r["particles"])
        b = LT.particle_beam(P, r["energy"]) if r["beam"] == "ParticleBeam" else LT.parameter_beam_from(P, r["energy"])
        el = E.build(r["record"])
        return LT.beams_differ(el.track(b), act_map(el.transfer_map(b.energy), b)) is not None
    return False
