"""C11 — tracking has no side effects on its inputs and no hidden state

F : random operation histories on real lattices with bitwise snapshots / _version counters, final track vs a freshly built
lattice, diagnostics' readings vs fresh diagnostics (fals/C11.py). The Lean model states the abstraction (lattice = its
parameter records; reading cache state machine); the screen pixel model is tied by screen_corr.
"""
from __future__ import annotations

from screen_corr import run_screen_correspondence
try:
    from fals import C11 as F
except ImportError:  # falsifier module not present
    F = None

META = {
    "level": "proof",
    "rule": 'B1 case = single particle on a random screen (ties the reading model)' + ((" | falsifier: " + F.META.get("rule", "")) if F and hasattr(F, "META") else ""),
    "modelled": 'lattice handle as a list of records; Screen read-beam / cached-reading state machine (Diagnostics.lean)',
    "gap": 'partial: aliasing is observed at tensor granularity (data_ptr / _version), autograd graph retention not modelled',
    "assumptions": ((F.META.get("assumptions", []) if F and hasattr(F, "META") else []) + []),
}


EXTREME_KINDS = ["Drift", "BmadxDrift", "Quadrupole", "BmadxQuadrupole", "Dipole", "BmadxDipole", "Solenoid", "Cavity",
                 "HorizontalCorrector", "Undulator", "Aperture", "TransverseDeflectingCavity", "Marker", "ActiveBPM", "ActiveScreen"]


def extreme_case(rep, r: dict) -> None:
    """"never modifies the incoming beam" holds for *every* beam, also one that contains particles the element cannot
    transport (more transverse than total momentum, far below the reference energy): whatever the outgoing coordinates
    of such a particle are (NaN), the incoming beam object is bit-identical afterwards and a second track of it gives the
    same (NaN-aware) result"""
    import numpy as np
    import torch
    import cheetah
    import lattices as LT
    F64 = torch.float64
    P = np.array(r["particles"], dtype=float)
    rec, En = r["record"], r["energy"]
    el = LT.build_elements([rec])[0]
    if r["where"] == "segment":
        el = cheetah.Segment([cheetah.Quadrupole(length=torch.tensor(0.2, dtype=F64), k1=torch.tensor(1.0, dtype=F64), dtype=F64), el,
                              cheetah.Drift(length=torch.tensor(0.3, dtype=F64), dtype=F64)])
    b = cheetah.ParticleBeam(torch.tensor(P, dtype=F64), torch.tensor(En, dtype=F64), particle_charges=torch.full((P.shape[0],), 1e-12, dtype=F64),
                             dtype=F64)
    snap = {k: getattr(b, k).detach().clone() for k in ("particles", "energy", "particle_charges", "survival_probabilities")}
    tag = LT.class_seq([rec])

    def same(x, y):
        return x.shape == y.shape and bool(torch.equal(torch.nan_to_num(x, nan=1.25e300), torch.nan_to_num(y, nan=1.25e300)))
    try:
        o1 = el.track(b)
    except Exception:  # noqa: BLE001  (an element may reject such a beam; then nothing was tracked)
        o1 = None
    for k, v in snap.items():
        if not same(getattr(b, k).detach(), v):
            rep.fail("falsifier", f"C11|track|{tag}|beam with untransportable particles|incoming {k} modified",
                     f"{tag} ({r['where']}): tracking a beam that contains untransportable particles changed the incoming beam's {k}: "
                     f"{v.reshape(-1)[:8].tolist()} -> {getattr(b, k).detach().reshape(-1)[:8].tolist()}", r)
            return
    if o1 is None:
        return
    o2 = el.track(b)
    for k in ("particles", "survival_probabilities", "energy"):
        if not same(getattr(o1, k).detach(), getattr(o2, k).detach()):
            rep.fail("falsifier", f"C11|track|{tag}|beam with untransportable particles|repeated track differs ({k})",
                     f"{tag} ({r['where']}): the second track of the same beam gives different {k}", r)
            return


def extreme_probe(ctx, n: int) -> None:
    import numpy as np
    import elements as E
    import lattices as LT
    rep, rng = ctx.report, ctx.rng
    for i in range(n):
        kind = EXTREME_KINDS[i % len(EXTREME_KINDS)]
        if kind == "BmadxDipole":
            rec = E.gen_params(rng, "Dipole", force={"method": "bmadx", "k1": 0.0})
            rec["L"] = rec["L"] or 0.5
            rec["angle"] = rec["angle"] or 0.1
        elif kind == "TransverseDeflectingCavity":
            rec = E.gen_params(rng, kind)
        else:
            rec = LT.gen_record(rng, kind)
        En = float(E.pick(rng, 5e6, 1e8, E.energy(rng)))
        P = LT.gen_particles(rng, 6)
        P[3, 1] = float(E.pick(rng, 1.3, -1.1))                     # |px| > 1: more transverse than total momentum
        P[4, [1, 3, 5]] = [0.3, 0.4, -0.7]                          # slow particle with px^2 + py^2 >= (1 + pz)^2
        if rng.random() < 0.5:
            P[2, 5] = -1.5                                           # energy below the rest energy
        r = {"kind": "extreme", "record": rec, "energy": En, "particles": P.tolist(), "where": E.pick(rng, "alone", "segment")}
        rep.fals_cases += 1
        rep.count("probe:extreme:" + kind)
        rep.case(("extreme", kind, r["where"]), None)
        try:
            extreme_case(rep, r)
        except Exception as ex:  # noqa: BLE001
            rep.count(f"extreme:rejected:{type(ex).__name__}")


def run(ctx) -> None:
    import context_probes as CP
    CP.diag_history_probe(ctx, "C11", ctx.n(12, 300))
    CP.merged_readings_probe(ctx, "C11", ctx.n(8, 200))
    from props.C08 import run_arrivals_correspondence
    run_arrivals_correspondence(ctx, "C11", ctx.n(40, 1000))
    extreme_probe(ctx, ctx.n(30, 600))
    run_screen_correspondence(ctx, "C11", ctx.n(40, 500))
    if F is not None:
        F.run(ctx)


def corpus_case(ctx, r: dict) -> None:
    if r.get("kind") == "merged_readings":
        import context_probes as CP
        return CP.merged_readings_case(ctx.report, "C11", r)
    if r.get("kind") == "diag_history":
        import context_probes as CP
        return CP.diag_history_case(ctx.report, "C11", r)
    if r.get("kind") == "extreme":
        return extreme_case(ctx.report, r)
    if F is not None and hasattr(F, "corpus_case"):
        F.corpus_case(ctx, r)


def replay(ctx, data) -> bool:
    from common import Report
    import types
    c2 = types.SimpleNamespace(**{k: getattr(ctx, k) for k in ("prop", "tier", "seed", "rng", "escalate", "t0", "n")})
    c2.report = Report("C11")
    corpus_case(c2, data["replay"])
    return bool(c2.report.failures)
