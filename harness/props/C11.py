"""C11 — tracking has no side effects on its inputs and no hidden state

F : random operation histories on real lattices with bitwise snapshots / _version counters, final track vs a freshly built
lattice, diagnostics' readings vs fresh diagnostics (fals/C11.py). The Lean model states the abstraction (lattice = its
parameter records; reading cache state machine); the screen pixel model is tied by screen_corr.
"""
from __future__ import annotations

from screen_corr import run_screen_correspondence
try:
    from fals import C11 as F
except ImportError:  # falsifier module not present
    F = None

META = {
    "level": "proof",
    "rule": 'B1 case = single particle on a random screen (ties the reading model)' + ((" | falsifier: " + F.META.get("rule", "")) if F and hasattr(F, "META") else ""),
    "modelled": 'lattice handle as a list of records; Screen read-beam / cached-reading state machine (Diagnostics.lean)',
    "gap": 'partial: aliasing is observed at tensor granularity (data_ptr / _version), autograd graph retention not modelled',
    "assumptions": ((F.META.get("assumptions", []) if F and hasattr(F, "META") else []) + []),
}


def run(ctx) -> None:
    run_screen_correspondence(ctx, "C11", ctx.n(40, 500))
    if F is not None:
        F.run(ctx)


def corpus_case(ctx, r: dict) -> None:
    if F is not None and hasattr(F, "corpus_case"):
        F.corpus_case(ctx, r)


def replay(ctx, data) -> bool:
    from common import Report
    import types
    c2 = types.SimpleNamespace(**{k: getattr(ctx, k) for k in ("prop", "tier", "seed", "rng", "escalate", "t0", "n")})
    c2.report = Report("C11")
    corpus_case(c2, data["replay"])
    return bool(c2.report.failures)
