"""C14 — saving to LatticeJSON and loading back reproduces the lattice

B2: per class constructor parameters vs defining_features regenerated from the live classes (theorem features_cover_ctor).
F : save / json.load / reload of random nested segments with every class and non-default attributes (fals/C14.py).
"""
from __future__ import annotations


try:
    from fals import C14 as F
except ImportError:  # falsifier module not present
    F = None

META = {
    "level": "proof",
    "rule": 'B2 table rows: one per element class' + ((" | falsifier: " + F.META.get("rule", "")) if F and hasattr(F, "META") else ""),
    "modelled": 'feature lists vs constructor signatures (Features.lean)',
    "gap": 'json, tolist, torch.tensor round trip of values is trusted (falsifier observes it)',
    "assumptions": ((F.META.get("assumptions", []) if F and hasattr(F, "META") else []) + []),
}


def run(ctx) -> None:
    pass
    if F is not None:
        F.run(ctx)


def corpus_case(ctx, r: dict) -> None:
    if F is not None and hasattr(F, "corpus_case"):
        F.corpus_case(ctx, r)


def replay(ctx, data) -> bool:
    from common import Report
    import types
    c2 = types.SimpleNamespace(**{k: getattr(ctx, k) for k in ("prop", "tier", "seed", "rng", "escalate", "t0", "n")})
    c2.report = Report("C14")
    corpus_case(c2, data["replay"])
    return bool(c2.report.failures)
