"""C14 — saving to LatticeJSON and loading back reproduces the lattice

B2: per class constructor parameters vs defining_features regenerated from the live classes (theorem features_cover_ctor).
B1: convert_segment / parse_segment vs NLat.conv / NLat.parse on random named trees incl. duplicate names (ser_corr.py).
F : save / json.load / reload of random nested segments with every class and non-default attributes (fals/C14.py).
"""
from __future__ import annotations


try:
    from fals import C14 as F
except ImportError:  # falsifier module not present
    F = None

META = {
    "level": "proof",
    "rule": 'B2 table rows: one per element class | B1 case = named segment tree (unique or colliding names, depth <= 4)' + ((" | falsifier: " + F.META.get("rule", "")) if F and hasattr(F, "META") else ""),
    "modelled": 'feature lists vs constructor signatures (Features.lean)',
    "gap": 'json, tolist, torch.tensor round trip of values is trusted (falsifier observes it)',
    "assumptions": ((F.META.get("assumptions", []) if F and hasattr(F, "META") else []) + []),
}


SHAPES = [(), (1,), (1, 1), (2,), (2, 1), (3,)]


def _scratch(tag: str) -> str:
    import os, tempfile
    fd, fn = tempfile.mkstemp(suffix=".json", prefix=f"c14_{tag}_", dir=os.environ.get("TMPDIR", "/tmp"))
    os.close(fd)
    return fn


def _vec_lattice(r: dict):
    import torch
    import cheetah
    F64 = torch.float32   # the loader's default dtype (what a float64 lattice loads as is C12's subject)

    def t(key):
        return torch.tensor(r[key], dtype=F64)
    return cheetah.Segment([
        cheetah.Drift(length=t("d"), name="d0", dtype=F64),
        cheetah.Quadrupole(length=t("ql"), k1=t("k1"), name="q0", dtype=F64),
        cheetah.Segment([cheetah.HorizontalCorrector(length=torch.tensor(0.1, dtype=F64), angle=t("angle"), name="h0", dtype=F64)],
                        name="sub"),
    ], name="root")


def shape_case(rep, r: dict) -> None:
    """parameter values include their vector shape: a (1,)- or (1,1)-shaped parameter is not a scalar"""
    import os
    import torch
    import cheetah
    fn = _scratch("shape")
    try:
        seg = _vec_lattice(r)
        seg.to_lattice_json(fn)
        seg2 = cheetah.Segment.from_lattice_json(fn)
        pairs = [("d0.length", seg.d0.length, seg2.d0.length), ("q0.length", seg.q0.length, seg2.q0.length),
                 ("q0.k1", seg.q0.k1, seg2.q0.k1), ("h0.angle", seg.sub.h0.angle, seg2.sub.h0.angle)]
        for nm, a, b in pairs:
            if tuple(a.shape) != tuple(b.shape):
                rep.fail("falsifier", f"C14|vector-shape|{len(a.shape)}-d with {a.numel()} entr{'y' if a.numel() == 1 else 'ies'}|shape",
                         f"{nm} of shape {tuple(a.shape)} comes back from LatticeJSON with shape {tuple(b.shape)}", r)
                return
            if not torch.equal(a, b.to(a.dtype)):
                rep.fail("falsifier", f"C14|vector-shape|{len(a.shape)}-d|value", f"{nm} = {a.tolist()} comes back as {b.tolist()}", r)
                return
    except Exception as e:  # noqa: BLE001
        rep.fail("falsifier", "C14|vector-shape|raises", f"round trip of a lattice with vectorised parameters: {type(e).__name__}: {e}", r)
    finally:
        if os.path.exists(fn):
            os.remove(fn)


def reuse_case(rep, r: dict) -> None:
    """loading returns what the file says *now*, as an independent object (same path written and read several times)"""
    import os
    import torch
    import cheetah
    fn = _scratch("reuse")
    try:
        a, b = _vec_lattice(r["a"]), _vec_lattice(r["b"])
        a.to_lattice_json(fn)
        a1 = cheetah.Segment.from_lattice_json(fn)
        a2 = cheetah.Segment.from_lattice_json(fn)
        if a1 is a2 or a1.q0 is a2.q0 or a1.q0.k1.data_ptr() == a2.q0.k1.data_ptr():
            rep.fail("falsifier", "C14|reload|same file twice|shared objects", "two loads of one file return objects that share state", r)
            return
        a1.q0.k1 = a1.q0.k1 + 1.0
        a1.d0.length = a1.d0.length * 2
        a3 = cheetah.Segment.from_lattice_json(fn)
        if not torch.equal(a3.q0.k1, a.q0.k1) or not torch.equal(a3.d0.length, a.d0.length):
            rep.fail("falsifier", "C14|reload|after modifying an earlier load|value", f"q0.k1 loads as {a3.q0.k1.tolist()}, the file says {a.q0.k1.tolist()}", r)
            return
        b.to_lattice_json(fn)
        b1 = cheetah.Segment.from_lattice_json(fn)
        for nm, x, y in [("q0.k1", b.q0.k1, b1.q0.k1), ("d0.length", b.d0.length, b1.d0.length), ("h0.angle", b.sub.h0.angle, b1.sub.h0.angle)]:
            if tuple(x.shape) != tuple(y.shape) or not torch.equal(x, y.to(x.dtype)):
                rep.fail("falsifier", "C14|reload|file rewritten|value", f"after the file was overwritten with another lattice, {nm} loads as "
                         f"{y.tolist()}, the file says {x.tolist()}", r)
                return
    except Exception as e:  # noqa: BLE001
        rep.fail("falsifier", "C14|reload|raises", f"{type(e).__name__}: {e}", r)
    finally:
        if os.path.exists(fn):
            os.remove(fn)


def _gen_vec(rng) -> dict:
    import numpy as np

    def val(lo, hi):
        sh = SHAPES[int(rng.integers(len(SHAPES)))]
        return np.round(rng.uniform(lo, hi, size=sh), 6).tolist()
    return {"d": val(0.1, 2.0), "ql": val(0.1, 0.5), "k1": val(-3.0, 3.0), "angle": val(-1e-3, 1e-3)}


def file_probes(ctx, n: int) -> None:
    rep, rng = ctx.report, ctx.rng
    for _ in range(n):
        r = dict(_gen_vec(rng), kind="vec_shape")
        rep.fals_cases += 1
        rep.count("probe:vector-shape")
        shape_case(rep, r)
        r2 = {"kind": "reuse", "a": _gen_vec(rng), "b": _gen_vec(rng)}
        rep.fals_cases += 1
        rep.count("probe:reload")
        reuse_case(rep, r2)


def run(ctx) -> None:
    from ser_corr import run_ser_correspondence
    run_ser_correspondence(ctx, "C14", ctx.n(120, 3000))
    file_probes(ctx, ctx.n(10, 150))
    if F is not None:
        F.run(ctx)


def corpus_case(ctx, r: dict) -> None:
    if r.get("kind") == "vec_shape":
        return shape_case(ctx.report, r)
    if r.get("kind") == "reuse":
        return reuse_case(ctx.report, r)
    if F is not None and hasattr(F, "corpus_case"):
        F.corpus_case(ctx, r)


def replay(ctx, data) -> bool:
    from common import Report
    import types
    c2 = types.SimpleNamespace(**{k: getattr(ctx, k) for k in ("prop", "tier", "seed", "rng", "escalate", "t0", "n")})
    c2.report = Report("C14")
    corpus_case(c2, data["replay"])
    return bool(c2.report.failures)
