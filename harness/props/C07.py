"""C07 — Bmad-X tracking agrees with the linear map to first order and is an exact flow

B1: single particles through the real Bmad-X Drift / Quadrupole / Dipole / TransverseDeflectingCavity and the z-pz
conversions vs CheetahModel.Bmadx at Float.
F : autograd Jacobian vs linear map, piece composition, straight-line / uniform-field motion, TDC(0V) vs drift (fals/C07.py).
"""
from __future__ import annotations

from bmadx_corr import report_mismatches, run_bmadx_correspondence
try:
    from fals import C07 as F
except ImportError:  # falsifier module not present
    F = None

META = {
    "level": "proof",
    "rule": 'B1 case = (Bmad-X element record, energy, one particle incl. large energy offsets)' + ((" | falsifier: " + F.META.get("rule", "")) if F and hasattr(F, "META") else ""),
    "modelled": 'bmadx.py kernels and the Bmad-X track of Drift, Quadrupole, Dipole, TDC per particle (Bmadx.lean)',
    "gap": 'partial: bend-body exactness and the chromatic / bend Jacobian = linear map statements are falsifier-only',
    "assumptions": ((F.META.get("assumptions", []) if F and hasattr(F, "META") else []) + ['B1 tolerance 16384 eps with conditioning-aware scales']),
}


def on_axis_case(rep, r: dict) -> None:
    """a particle on the axis of a quadrupole (x = px = y = py = 0) feels no field: for every energy offset its motion is
    the straight flight of the Bmad-X drift, tau_out = tau + L*(1/beta - 1/beta_ref) (both methods agree for small
    *and sizeable* energy offsets)"""
    import math
    import numpy as np
    import torch
    import cheetah
    import elements as E
    dt = torch.float64
    t = lambda v: torch.tensor(v, dtype=dt)  # noqa: E731
    L, k1, En, ns = r["L"], r["k1"], r["energy"], r["num_steps"]
    deltas = np.array(r["deltas"], dtype=float)
    P = np.zeros((len(deltas), 7))
    P[:, 5], P[:, 6] = deltas, 1.0
    P[:, 4] = r["tau"]
    beam = cheetah.ParticleBeam(t(P), t(En), dtype=dt)
    q = cheetah.Quadrupole(length=t(L), k1=t(k1), num_steps=ns, tracking_method="bmadx", dtype=dt)
    d = cheetah.Drift(length=t(L), tracking_method="bmadx", dtype=dt)
    a, b = q.track(beam).particles.detach().numpy(), d.track(beam).particles.detach().numpy()
    # exact: tau_out - tau = L*(1/beta - 1/beta0)   [tau = c*dt, head at negative tau]
    p0 = math.sqrt(En ** 2 - E.MC2 ** 2)
    Es = En + deltas * p0
    ps = np.sqrt(Es ** 2 - E.MC2 ** 2)
    exact = r["tau"] + L * (Es / ps - En / p0)
    # Bmad's low-energy path-length formula is a third-order Taylor series below its switch-over: relative truncation
    # error O(delta^2) <= ~1e-3 for |delta| <= 3 %; 1e-2 of the (tiny) velocity slip L*|delta|/gamma^2 is allowed
    tol = 1e-2 * abs(L) * np.abs(deltas) * (E.MC2 / En) ** 2 + 1e-15
    for nm, ref in (("Bmad-X drift", b[:, 4]), ("straight flight", exact)):
        e = np.abs(a[:, 4] - ref)
        if not np.all(e <= tol):
            i = int(np.argmax(e / tol))
            regime = "|delta|>=1e-3" if abs(deltas[i]) >= 1e-3 else "|delta|<1e-3"
            rep.fail("falsifier", f"C07|Quadrupole(bmadx)|on-axis particle|{regime}|tau",
                     f"Quadrupole(bmadx) (L={L!r}, k1={k1!r}, num_steps={ns}) at E = {En!r} eV: on-axis particle with delta = {deltas[i]!r} leaves "
                     f"with tau - tau_in = {a[i, 4] - r['tau']!r}, {nm} gives {ref[i] - r['tau']!r}", r)
            return
    if not np.array_equal(a[:, :4], P[:, :4]) or not np.all(np.abs(a[:, 5] - P[:, 5]) <= 1e-13 * np.abs(P[:, 5]) + 1e-14):
        rep.fail("falsifier", "C07|Quadrupole(bmadx)|on-axis particle|transverse", f"Quadrupole(bmadx) (L={L!r}, k1={k1!r}) moves an on-axis particle "
                 "off the axis or changes its energy offset", r)


def on_momentum_case(rep, r: dict) -> None:
    """theorem C07.quad_onmomentum_is_linear_map observed on the real code: for particles with delta = 0 — any amplitude —
    the aligned Bmad-X quadrupole gives the transverse coordinates of the linear transfer map and keeps delta = 0"""
    import numpy as np
    import torch
    import cheetah
    dt = torch.float64
    t = lambda v: torch.tensor(v, dtype=dt)  # noqa: E731
    L, k1, En, ns = r["L"], r["k1"], r["energy"], r["num_steps"]
    P = np.array(r["particles"], dtype=float)
    beam = cheetah.ParticleBeam(t(P), t(En), dtype=dt)
    q = cheetah.Quadrupole(length=t(L), k1=t(k1), num_steps=ns, tracking_method="bmadx", dtype=dt)
    lin = cheetah.Quadrupole(length=t(L), k1=t(k1), dtype=dt)
    a, b = q.track(beam).particles.detach().numpy(), lin.track(beam).particles.detach().numpy()
    amp = float(np.cosh(np.sqrt(abs(k1)) * L))
    scale = np.array([1.0, np.sqrt(abs(k1)) + 1.0, 1.0, np.sqrt(abs(k1)) + 1.0]) * amp * (np.abs(P[:, :4]).max() + 1e-300)
    d = np.abs(a[:, :4] - b[:, :4])
    if not np.all(d <= 2e-13 * scale):
        i, j = np.unravel_index(int(np.argmax(d / scale)), d.shape)
        rep.fail("falsifier", f"C07|Quadrupole(bmadx)|on-momentum particle|{'x px y py'.split()[j]}",
                 f"Quadrupole(bmadx) (L={L!r}, k1={k1!r}, num_steps={ns}) at E = {En!r} eV: on-momentum particle {P[i, :4].tolist()} leaves with "
                 f"{'x px y py'.split()[j]} = {a[i, j]!r}, the linear map gives {b[i, j]!r}", r)
    elif not np.all(np.abs(a[:, 5]) <= 1e-13):
        rep.fail("falsifier", "C07|Quadrupole(bmadx)|on-momentum particle|delta",
                 f"Quadrupole(bmadx) (L={L!r}, k1={k1!r}) changes the energy offset of an on-momentum particle: {np.abs(a[:, 5]).max()!r}", r)


def on_momentum_probe(ctx, n: int) -> None:
    import elements as E
    rep, rng = ctx.report, ctx.rng
    for _ in range(n):
        L = float(E.pick(rng, 0.1, 0.5, 1.0, 1.37))
        k1 = float(E.pick(rng, 4.0, -4.0, 0.7, -12.0, 25.0, 1e-3, -0.05))
        if abs(k1) * L * L > 9.0:
            k1 = 9.0 / (L * L) * (1 if k1 > 0 else -1)
        amp = float(E.pick(rng, 1e-6, 1e-4, 1e-3, 1e-2))
        P = np_particles(rng, amp)
        r = {"kind": "on_momentum", "L": L, "k1": k1, "num_steps": int(E.pick(rng, 1, 2, 3, 7)), "energy": float(E.energy(rng)),
             "particles": P}
        rep.fals_cases += 1
        rep.count("probe:on-momentum")
        rep.case(("on_momentum", r["num_steps"], k1 > 0, amp), None)
        on_momentum_case(rep, r)


def vector_case(rep, r: dict) -> None:
    """every entry of a vectorised Bmad-X element (strengths of mixed sign, an exact zero among them) tracks like the scalar
    element with that entry's setting — the exact flow is a statement about each entry"""
    import numpy as np
    import torch
    import cheetah
    dt = torch.float64
    t = lambda v: torch.tensor(v, dtype=dt)  # noqa: E731
    kind, vals, L, En = r["element"], r["values"], r["L"], r["energy"]
    P = np.array(r["particles"], dtype=float)

    def build(v):
        if kind == "Quadrupole":
            return cheetah.Quadrupole(length=t(L), k1=t(v), num_steps=r["num_steps"], tracking_method="bmadx", dtype=dt)
        if kind == "Dipole":
            return cheetah.Dipole(length=t(L), angle=t(v), dipole_e1=t(r.get("e1", 0.0)), tracking_method="bmadx", dtype=dt)
        return cheetah.TransverseDeflectingCavity(length=t(L), voltage=t(v), phase=t(r.get("phase", 10.0)), frequency=t(2.8e9),
                                                  tracking_method="bmadx", dtype=dt)
    beam = cheetah.ParticleBeam(t(P), t(En), dtype=dt)
    try:
        whole = build(vals).track(beam).particles.detach().numpy()
    except Exception as ex:
        rep.count(f"vector-rejected:{type(ex).__name__}")
        return
    for i, v in enumerate(vals):
        one = build(v).track(beam).particles.detach().numpy()
        if np.isnan(one).any() and kind == "Dipole" and v == 0.0:
            continue            # recorded finding: the Bmad-X dipole at angle 0 is NaN, scalar or not
        sc = np.abs(one[:, :6]).max(axis=0) + np.array([L, 1.0, L, 1.0, L, 1.0]) * (np.abs(P[:, :6]).max() + 1e-300)
        d = np.abs(whole[i][:, :6] - one[:, :6])
        if not np.all(d <= 1e-11 * sc) or (np.isnan(whole[i]).any() != np.isnan(one).any()):
            j = int(np.nanargmax((d / sc).max(axis=0))) if np.isfinite(d).any() else 0
            rep.fail("falsifier", f"C07|{kind}(bmadx)|vectorised|entry differs from scalar",
                     f"{kind}(bmadx) with vectorised setting {vals}: entry {i} (value {v!r}) leaves with {'x px y py tau delta'.split()[j]} "
                     f"deviating from the scalar element by {float(np.nanmax(d[:, j]))!r}", r)
            return


def vector_probe(ctx, n: int) -> None:
    import elements as E
    rep, rng = ctx.report, ctx.rng
    for c in range(n):
        kind = ["Quadrupole", "Dipole", "TransverseDeflectingCavity"][c % 3]
        L = float(E.pick(rng, 0.2, 0.5, 1.0))
        if kind == "Quadrupole":
            vals = [float(x) for x in rng.permutation([float(rng.uniform(0.5, 8.0)), -float(rng.uniform(0.5, 8.0)), 0.0, float(rng.uniform(-3, 3))])]
        elif kind == "Dipole":
            vals = [float(x) for x in rng.permutation([float(rng.uniform(0.05, 0.6)), -float(rng.uniform(0.05, 0.6)), float(rng.uniform(0.01, 0.1))])]
        else:
            vals = [float(x) for x in rng.permutation([float(rng.uniform(1e5, 5e6)), -float(rng.uniform(1e5, 5e6)), 0.0])]
        r = {"kind": "vector_bmadx", "element": kind, "values": vals, "L": L, "energy": float(E.pick(rng, 2e7, 1e8, 1e9)),
             "num_steps": int(E.pick(rng, 1, 2, 3)), "e1": float(E.pick(rng, 0.0, 0.1)), "phase": float(E.pick(rng, 0.0, 10.0, 90.0)),
             "particles": np_particles(rng, float(E.pick(rng, 1e-4, 1e-3)))}
        for row, dl in zip(r["particles"], (0.0, 1e-3, -2e-3, 5e-3, -1e-2, 2e-2)):
            row[5] = dl
        rep.fals_cases += 1
        rep.count("probe:vector-bmadx")
        rep.case(("vector_bmadx", kind), None)
        vector_case(rep, r)


def np_particles(rng, amp: float) -> list:
    import numpy as np
    P = np.zeros((6, 7))
    P[:, :4] = rng.normal(size=(6, 4)) * amp
    P[0, 1:4] = 0.0          # pure x
    P[1, [0, 2, 3]] = 0.0    # pure px
    P[:, 4] = rng.normal(size=6) * 1e-4
    P[:, 6] = 1.0
    return P.tolist()


def on_axis_probe(ctx, n: int) -> None:
    import elements as E
    rep, rng = ctx.report, ctx.rng
    for _ in range(n):
        En = float(E.pick(rng, 5e6, 2e7, 1e8, 1e9, E.energy(rng)))
        mags = [1e-5, 1e-4, 1e-3, 3e-3, 1e-2, 3e-2]
        r = {"kind": "on_axis", "L": float(E.pick(rng, 0.1, 0.5, 1.0, 1.37)), "k1": float(E.pick(rng, 4.0, -4.0, 0.7, -12.0, 25.0)),
             "num_steps": int(E.pick(rng, 1, 2, 4)), "energy": En, "tau": float(E.pick(rng, 0.0, 1e-4, -3e-4)),
             "deltas": [m * s for m in mags for s in (1.0, -1.0)]}
        rep.fals_cases += 1
        rep.count("probe:on-axis")
        rep.case(("on_axis", r["num_steps"], En), None)
        on_axis_case(rep, r)


def run(ctx) -> None:
    import context_probes as CP
    CP.in_segment_probe(ctx, "C07", ctx.n(27, 600), classes=["BmadxDrift", "BmadxQuadrupole", "BmadxDipole", "TransverseDeflectingCavity"], off=0.3)
    on_axis_probe(ctx, ctx.n(12, 300))
    on_momentum_probe(ctx, ctx.n(16, 400))
    vector_probe(ctx, ctx.n(12, 300))
    report_mismatches(ctx.report, "C07", run_bmadx_correspondence(ctx, "C07", ctx.n(30, 600)))
    if F is not None:
        F.run(ctx)


def corpus_case(ctx, r: dict) -> None:
    if r.get("kind") == "in_segment":
        import context_probes as CP
        return CP.in_segment_case(ctx.report, "C07", r)
    if r.get("kind") == "on_axis":
        return on_axis_case(ctx.report, r)
    if r.get("kind") == "on_momentum":
        return on_momentum_case(ctx.report, r)
    if r.get("kind") == "vector_bmadx":
        return vector_case(ctx.report, r)
    if F is not None and hasattr(F, "corpus_case"):
        F.corpus_case(ctx, r)


def replay(ctx, data) -> bool:
    from common import Report
    import types
    c2 = types.SimpleNamespace(**{k: getattr(ctx, k) for k in ("prop", "tier", "seed", "rng", "escalate", "t0", "n")})
    c2.report = Report("C07")
    corpus_case(c2, data["replay"])
    return bool(c2.report.failures)
