"""C07 — Bmad-X tracking agrees with the linear map to first order and is an exact flow

B1: single particles through the real Bmad-X Drift / Quadrupole / Dipole / TransverseDeflectingCavity and the z-pz
conversions vs CheetahModel.Bmadx at Float.
F : autograd Jacobian vs linear map, piece composition, straight-line / uniform-field motion, TDC(0V) vs drift (fals/C07.py).
"""
from __future__ import annotations

from bmadx_corr import report_mismatches, run_bmadx_correspondence
try:
    from fals import C07 as F
except ImportError:  # falsifier module not present
    F = None

META = {
    "level": "proof",
    "rule": 'B1 case = (Bmad-X element record, energy, one particle incl. large energy offsets)' + ((" | falsifier: " + F.META.get("rule", "")) if F and hasattr(F, "META") else ""),
    "modelled": 'bmadx.py kernels and the Bmad-X track of Drift, Quadrupole, Dipole, TDC per particle (Bmadx.lean)',
    "gap": 'partial: quadrupole-step flow, bend-body exactness, Jacobian = linear map are falsifier-only',
    "assumptions": ((F.META.get("assumptions", []) if F and hasattr(F, "META") else []) + ['B1 tolerance 16384 eps with conditioning-aware scales']),
}


def run(ctx) -> None:
    report_mismatches(ctx.report, "C07", run_bmadx_correspondence(ctx, "C07", ctx.n(30, 600)))
    if F is not None:
        F.run(ctx)


def corpus_case(ctx, r: dict) -> None:
    if F is not None and hasattr(F, "corpus_case"):
        F.corpus_case(ctx, r)


def replay(ctx, data) -> bool:
    from common import Report
    import types
    c2 = types.SimpleNamespace(**{k: getattr(ctx, k) for k in ("prop", "tier", "seed", "rng", "escalate", "t0", "n")})
    c2.report = Report("C07")
    corpus_case(c2, data["replay"])
    return bool(c2.report.failures)
