"""C09 — a switched-off element behaves as a drift of the same length

B1: transfer maps at the exact-zero points (k1=0, angle=0, k=0, V=0, L=0) vs the model; Bmad-X kernels vs the model.
F : Element(strength=0).track vs Drift(L, same method).track, finiteness, continuity sweeps (fals/C09.py).
"""
from __future__ import annotations

import elements as E
from bmadx_corr import report_mismatches, run_bmadx_correspondence
from maps_corr import mismatch_failure, run_maps_correspondence
try:
    from fals import C09 as F
except ImportError:  # falsifier module not present
    F = None

META = {
    "level": "proof",
    "rule": 'B1 case = (element record with all strengths exactly zero, energy)' + ((" | falsifier: " + F.META.get("rule", "")) if F and hasattr(F, "META") else ""),
    "modelled": 'all linear maps at the guard points; cavity tracking at V=0; TDC at V=0 (Maps.lean, Elements.lean, Bmadx.lean)',
    "gap": 'continuity is proved as a bound for the focusing functions only (linear guard 1e-12, Bmad-X quadrupole eps); the Bmad-X bend limit is falsifier-only',
    "assumptions": ((F.META.get("assumptions", []) if F and hasattr(F, "META") else []) + []),
}


def run(ctx) -> None:
    import context_probes as CP
    CP.in_segment_probe(ctx, "C09", ctx.n(27, 600), classes=["Quadrupole", "Dipole", "Solenoid", "HorizontalCorrector", "VerticalCorrector", "Cavity", "BmadxQuadrupole", "TransverseDeflectingCavity", "BmadxDrift"], off=0.8)
    def zeros(cls, rng):
        f = {}
        if cls == "Quadrupole":
            f["k1"] = 0.0
        if cls in ("Dipole", "RBend"):
            f["angle"] = 0.0
            f["k1"] = 0.0
        if cls == "Solenoid":
            f["k"] = 0.0
        if cls in ("HorizontalCorrector", "VerticalCorrector"):
            f["angle"] = 0.0
        if cls == "Cavity":
            f["V"] = 0.0
        if rng.random() < 0.25 and cls in ("Quadrupole", "Solenoid", "HorizontalCorrector", "VerticalCorrector", "Drift"):
            f["L"] = 0.0
        return f
    for p, En, real, model, entry in run_maps_correspondence(ctx, "C09", ctx.n(20, 500), force=zeros):
        mismatch_failure(ctx.report, "C09", p, En, real, model, entry)
    report_mismatches(ctx.report, "C09", run_bmadx_correspondence(ctx, "C09", ctx.n(10, 200)))
    vector_off_probe(ctx, ctx.n(12, 200))
    if F is not None:
        F.run(ctx)


def vector_off_probe(ctx, n: int) -> None:
    """switched-off elements with a vectorised length that mixes zero and non-zero entries: every entry must track
    like a Drift of its own length (both beam types) - the whole-tensor `any(length != 0)` / `any(voltage != 0)`
    branches are exactly where a batch-wide decision can leak into the switched-off case"""
    import numpy as np
    import torch
    import cheetah
    import lattices as LT
    rep, rng = ctx.report, ctx.rng
    F64 = torch.float64
    tt = lambda x: torch.tensor(x, dtype=F64)  # noqa: E731
    for _ in range(n):
        Ls = [0.0, float(rng.uniform(0.2, 1.5)), float(rng.uniform(0.2, 1.5))]
        rng.shuffle(Ls)
        if rng.random() < 0.3:
            Ls = [x for x in Ls if x > 0]
        cls = str(rng.choice(["Quadrupole", "Dipole", "RBend", "Solenoid", "HorizontalCorrector", "Cavity"]))
        L = tt(Ls)
        z = torch.zeros_like(L)
        el = {"Quadrupole": lambda: cheetah.Quadrupole(length=L, k1=z, tilt=tt(float(rng.uniform(-1, 1))), dtype=F64),
              "Dipole": lambda: cheetah.Dipole(length=L, angle=z, dipole_e1=tt(0.1), dipole_e2=tt(-0.2), tilt=tt(0.3),
                                               gap=tt(0.02), fringe_integral=tt(0.5), dtype=F64),
              "RBend": lambda: cheetah.RBend(length=L, angle=z, rbend_e1=tt(0.0), tilt=tt(0.3), dtype=F64),
              "Solenoid": lambda: cheetah.Solenoid(length=L, k=z, dtype=F64),
              "HorizontalCorrector": lambda: cheetah.HorizontalCorrector(length=L, angle=z, dtype=F64),
              "Cavity": lambda: cheetah.Cavity(length=L, voltage=z, phase=tt(30.0), frequency=tt(1.3e9), dtype=F64)}[cls]()
        En = float(E.energy(rng, low=True))
        P = LT.gen_particles(rng, 8)
        for bt in ("ParticleBeam", "ParameterBeam"):
            b = LT.particle_beam(P, En) if bt == "ParticleBeam" else LT.parameter_beam_from(P, En)
            rep.fals_cases += 1
            rep.count(f"vector-off:{cls}:{bt}")
            rep.case(("vector-off", cls, bt, len(Ls), 0.0 in Ls))
            try:
                out = el.track(b)
            except Exception as ex:
                rep.fail("falsifier", f"C09|{cls}|strength==0|vectorised length|{bt}|raises",
                         f"{cls} with zero strength and length {Ls} raises {type(ex).__name__}: {ex}",
                         {"kind": "vector-off", "cls": cls, "lengths": Ls, "energy": En, "beam": bt})
                continue
            for i, Li in enumerate(Ls):
                ref = cheetah.Drift(length=tt(Li), dtype=F64).track(b)
                if bt == "ParticleBeam":
                    got, want = out.particles[i], ref.particles
                else:
                    got, want = torch.cat([out._mu[i], out._cov[i].reshape(-1)]), torch.cat([ref._mu, ref._cov.reshape(-1)])
                sc = torch.tensor(list(LT.REF_SIG), dtype=F64)
                if bt == "ParticleBeam":
                    err = ((got - want).abs() / sc).max()
                else:
                    err = max(((got[:7] - want[:7]).abs() / sc).max(),
                              ((got[7:] - want[7:]).abs().reshape(7, 7) / torch.outer(sc, sc)).max())
                if not torch.isfinite(got).all() or float(err) > 1e-8:
                    rep.fail("falsifier", f"C09|{cls}|strength==0|vectorised length|{bt}|differs from drift",
                             f"{cls}(strength 0, length={Ls}) entry {i}: differs from Drift({Li}) by {float(err):.2e} (scaled)",
                             {"kind": "vector-off", "cls": cls, "lengths": Ls, "energy": En, "beam": bt, "entry": i})
                    break


def corpus_case(ctx, r: dict) -> None:
    if r.get("kind") == "in_segment":
        import context_probes as CP
        return CP.in_segment_case(ctx.report, "C09", r)
    if F is not None and hasattr(F, "corpus_case"):
        F.corpus_case(ctx, r)


def replay(ctx, data) -> bool:
    from common import Report
    import types
    c2 = types.SimpleNamespace(**{k: getattr(ctx, k) for k in ("prop", "tier", "seed", "rng", "escalate", "t0", "n")})
    c2.report = Report("C09")
    corpus_case(c2, data["replay"])
    return bool(c2.report.failures)
