"""C09 — a switched-off element behaves as a drift of the same length

B1: transfer maps at the exact-zero points (k1=0, angle=0, k=0, V=0, L=0) vs the model; Bmad-X kernels vs the model.
F : Element(strength=0).track vs Drift(L, same method).track, finiteness, continuity sweeps (fals/C09.py).
"""
from __future__ import annotations

import elements as E
from bmadx_corr import report_mismatches, run_bmadx_correspondence
from maps_corr import mismatch_failure, run_maps_correspondence
try:
    from fals import C09 as F
except ImportError:  # falsifier module not present
    F = None

META = {
    "level": "proof",
    "rule": 'B1 case = (element record with all strengths exactly zero, energy)' + ((" | falsifier: " + F.META.get("rule", "")) if F and hasattr(F, "META") else ""),
    "modelled": 'all linear maps at the guard points; cavity tracking at V=0; TDC at V=0 (Maps.lean, Elements.lean, Bmadx.lean)',
    "gap": 'continuity is proved as a bound for the focusing function only; Bmad-X bend / quadrupole limits are falsifier-only',
    "assumptions": ((F.META.get("assumptions", []) if F and hasattr(F, "META") else []) + []),
}


def run(ctx) -> None:
    def zeros(cls, rng):
        f = {}
        if cls == "Quadrupole":
            f["k1"] = 0.0
        if cls in ("Dipole", "RBend"):
            f["angle"] = 0.0
            f["k1"] = 0.0
        if cls == "Solenoid":
            f["k"] = 0.0
        if cls in ("HorizontalCorrector", "VerticalCorrector"):
            f["angle"] = 0.0
        if cls == "Cavity":
            f["V"] = 0.0
        if rng.random() < 0.25 and cls in ("Quadrupole", "Solenoid", "HorizontalCorrector", "VerticalCorrector", "Drift"):
            f["L"] = 0.0
        return f
    for p, En, real, model, entry in run_maps_correspondence(ctx, "C09", ctx.n(20, 500), force=zeros):
        mismatch_failure(ctx.report, "C09", p, En, real, model, entry)
    report_mismatches(ctx.report, "C09", run_bmadx_correspondence(ctx, "C09", ctx.n(10, 200)))
    if F is not None:
        F.run(ctx)


def corpus_case(ctx, r: dict) -> None:
    if F is not None and hasattr(F, "corpus_case"):
        F.corpus_case(ctx, r)


def replay(ctx, data) -> bool:
    from common import Report
    import types
    c2 = types.SimpleNamespace(**{k: getattr(ctx, k) for k in ("prop", "tier", "seed", "rng", "escalate", "t0", "n")})
    c2.report = Report("C09")
    corpus_case(c2, data["replay"])
    return bool(c2.report.failures)
