"""Small B1 correspondences: Twiss read-out and from_twiss (C17), SI coordinates (C18), split counts (C16),
batched transfer maps vs per-sample model maps (C04), exact-zero maps (C09)."""
from __future__ import annotations

import numpy as np
import torch

import cheetah
import elements as E
import lattices as LT
from common import LeanDriver, vec_close

F64 = torch.float64


def _finish(ctx, prop, pend, replies, site, ulps=4096.0, scale=None):
    rep = ctx.report
    for idx, real, desc in pend:
        rep.corr_cases += 1
        rep.count(site)
        rep.case((site, desc.get("key", rep.corr_cases % 17)), {"op": site, **desc} if rep.corr_cases % 40 == 1 else None)
        model = replies[idx]
        if isinstance(model, str):
            rep.fail("correspondence", f"{prop}|driver|{site}", f"Lean driver error {model}", desc, found_input=False)
            continue
        ok, w, i = vec_close(real, model, ulps=ulps, scale=scale(desc) if scale else None)
        rep.ulp(w)
        if not ok:
            ctx.escalate = True
            rep.fail("correspondence", f"{prop}|model-mismatch|{site}",
                     f"{site}: code {real} differs from the Lean model {list(model)} (output {i})",
                     {"kind": site, **desc, "code": real, "model": list(model),
                      "broken": f"correspondence {site} <-> Lean model"}, found_input=False)


def run_twiss_correspondence(ctx, prop: str, n: int) -> None:
    rng = ctx.rng
    drv = LeanDriver()
    pend = []
    tiny = float(torch.finfo(F64).tiny)
    for _ in range(n):
        beta, alpha = float(np.exp(rng.uniform(-2, 4))), float(rng.normal() * 2)
        eps = float(np.exp(rng.uniform(np.log(1e-12), np.log(1e-6))))
        b = cheetah.ParameterBeam.from_twiss(beta_x=torch.tensor(beta, dtype=F64), alpha_x=torch.tensor(alpha, dtype=F64),
                                             emittance_x=torch.tensor(eps, dtype=F64), dtype=F64)
        real_m = [float(b._cov[0, 0]), float(b._cov[0, 1]), float(b._cov[1, 1])]
        pend.append((drv.call("fromtwiss", beta, alpha, eps), real_m, {"beta": beta, "alpha": alpha, "emittance": eps,
                                                                         "key": "fromtwiss"}))
        real_t = [float(b.emittance_x), float(b.beta_x), float(b.alpha_x)]
        pend.append((drv.call("twiss", float(b.sigma_x), float(b.sigma_px), float(b.sigma_xpx), tiny), real_t,
                     {"beta": beta, "alpha": alpha, "emittance": eps, "key": "twiss"}))
        # a particle beam's read-out
        P = LT.gen_particles(rng, 12)
        pb = LT.particle_beam(P, 1e8)
        real_p = [float(pb.emittance_y), float(pb.beta_y), float(pb.alpha_y)]
        pend.append((drv.call("twiss", float(pb.sigma_y), float(pb.sigma_py), float(pb.sigma_ypy), tiny), real_p,
                     {"key": "twiss-particle"}))
    _finish(ctx, prop, pend, drv.run(), "Twiss read-out / from_twiss")


def run_xyz_correspondence(ctx, prop: str, n: int) -> None:
    import cheetah.particles.particle_beam as pbm
    rng = ctx.rng
    me, c = float(pbm.electron_mass), float(pbm.speed_of_light)
    mec = float(pbm.electron_mass * pbm.speed_of_light)
    drv = LeanDriver()
    pend = []
    for _ in range(n):
        En = E.energy(rng)
        P = LT.gen_particles(rng, 1)
        b = LT.particle_beam(P, En)
        xyz = b.to_xyz_pxpypz()
        pend.append((drv.call("toxyz", me, c, mec, En, E.MC2, *P[0].tolist()), xyz[0].tolist(), {"energy": En, "key": "to"}))
        back = cheetah.ParticleBeam.from_xyz_pxpypz(xyz, torch.tensor(En, dtype=F64), dtype=F64)
        pend.append((drv.call("fromxyz", me, c, mec, En, E.MC2, *xyz[0].tolist()), back.particles[0].tolist(),
                     {"energy": En, "key": "from"}))
    rep = ctx.report
    replies = drv.run()
    for idx, real, desc in pend:
        rep.corr_cases += 1
        rep.count("xyz:" + desc["key"])
        rep.case(("xyz", desc["key"], int(np.log10(desc["energy"]))))
        model = replies[idx]
        bad = isinstance(model, str)
        if not bad:
            for j in range(7):
                sc = max(abs(real[j]), abs(model[j]), 1e-300)
                if abs(real[j] - model[j]) > 1e-9 * sc and abs(real[j] - model[j]) > 1e-25:
                    bad = True
        if bad:
            ctx.escalate = True
            rep.fail("correspondence", f"{prop}|model-mismatch|to/from_xyz_pxpypz",
                     f"SI conversion ({desc['key']}) differs from the Lean model: code {real} model {model}",
                     {"kind": "xyz", **desc, "broken": "correspondence to_xyz_pxpypz/from_xyz_pxpypz <-> toXyz/fromXyz"},
                     found_input=False)


def run_split_correspondence(ctx, prop: str, n: int) -> None:
    rng = ctx.rng
    drv = LeanDriver()
    pend = []
    for _ in range(n):
        L = float(E.pick(rng, 0.0, 0.3, 1.0, float(rng.uniform(0.01, 3.0))))
        res = float(E.pick(rng, 0.1, 0.25, 1.0, 5.0, float(rng.uniform(0.01, 1.0))))
        if rng.random() < 0.2 and L > 0:
            res = L / int(rng.integers(1, 6))          # exact multiples
        kind = int(rng.choice([0, 1, 4]))
        el = {0: cheetah.Drift(length=torch.tensor(L, dtype=F64), dtype=F64),
              1: cheetah.Quadrupole(length=torch.tensor(L, dtype=F64), k1=torch.tensor(1.0, dtype=F64), dtype=F64),
              4: cheetah.HorizontalCorrector(length=torch.tensor(L, dtype=F64), angle=torch.tensor(1e-3, dtype=F64), dtype=F64)}[kind]
        ps = el.split(torch.tensor(res, dtype=F64))
        real = [float(len(ps)), float(ps[0].length) if ps else 0.0]
        pend.append((drv.call("split", float(kind), L, res), real, {"kind": kind, "L": L, "res": res, "key": (kind, L == 0)}))
    _finish(ctx, prop, pend, drv.run(), "split count / piece length", ulps=16.0)


def run_batch_correspondence(ctx, prop: str, n: int) -> None:
    """vectorised `transfer_map` (batched parameters) vs the per-sample model maps: the tie of `quad_batched_eq_map`"""
    rep, rng = ctx.report, ctx.rng
    drv = LeanDriver()
    pend = []
    for _ in range(n):
        m = int(rng.integers(2, 5))
        recs = [E.gen_params(rng, "Quadrupole") for _ in range(m)]
        mix = rng.random()
        for r in recs:
            if r["L"] == 0.0:
                r["L"] = 0.5
        if mix < 0.3:
            for r in recs[1:]:
                r["tilt"] = 0.0
                r["mx"] = r["my"] = 0.0
        En = E.energy(rng)
        q = cheetah.Quadrupole(length=torch.tensor([r["L"] for r in recs], dtype=F64),
                               k1=torch.tensor([r["k1"] for r in recs], dtype=F64),
                               misalignment=torch.tensor([[r["mx"], r["my"]] for r in recs], dtype=F64),
                               tilt=torch.tensor([r["tilt"] for r in recs], dtype=F64), dtype=F64)
        tm = q.transfer_map(torch.tensor(En, dtype=F64))
        for i, r in enumerate(recs):
            pend.append((E.lean_map_request(drv, r, En), tm[i].reshape(-1).tolist(),
                         {"batch": recs, "entry": i, "energy": En,
                          "key": (sum(1 for x in recs if x["tilt"] == 0), sum(1 for x in recs if x["k1"] == 0))}))
    replies = drv.run()
    for idx, real, desc in pend:
        rep.corr_cases += 1
        rep.count("batched-quad")
        rep.case(("batch", desc["key"]), {"op": "batched Quadrupole.transfer_map", **desc} if rep.corr_cases % 40 == 1 else None)
        model = replies[idx]
        bad = isinstance(model, str)
        if not bad:
            for r in range(7):
                ok, w, _ = vec_close(real[7 * r:7 * r + 7], model[7 * r:7 * r + 7], ulps=1024.0)
                rep.ulp(w)
                bad = bad or not ok
        if bad:
            ctx.escalate = True
            rep.fail("correspondence", f"{prop}|model-mismatch|batched Quadrupole.transfer_map",
                     f"entry {desc['entry']} of a vectorised Quadrupole.transfer_map differs from the per-sample Lean model",
                     {"kind": "batch-map", **desc, "broken": "correspondence batched transfer_map <-> per-sample quadMap "
                      "(theorem C04.quad_batched_eq_map)"}, found_input=False)
